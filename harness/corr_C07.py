"""
C07 -- chunked proximity / allocation / direction equal the whole-raster result.

Tie: G  `Gen.proximity_dask` (pad expressions, depth order, boundary, fallback, arrays) and
        `Gen.proximity_is_target` are regenerated from /repo; Props/C07.lean proves the halo covers
        max_distance per axis, NaN halo cells are never targets, the fallback is the whole raster, that the
        exact nearest target cut at max_distance is the same on the halo window and on the whole raster
        (`window_exact_eq_whole`), and that the four-sweep itself is NOT window independent
        (`window_sweep_eq_whole_false`, a 3x4 witness with cells 1x2).
     H  (1) stream `api`: real Dask vs real NumPy through the public functions over chunk compositions,
        max_distance from fractions of a cell to inf, metrics, modes, target lists, non-square / descending
        coordinates; the depth dask is really called with is captured and compared with the generated `pad`
        evaluated by the driver.
        (2) stream `window`: a once-compiled copy of the nested `_process_numpy` of the *current* source
        (closure variables turned into arguments) is run on the whole raster and on every block's halo
        window (halo = the generated `pad` evaluated by the driver, window clipped at the raster edge and
        padded with NaN data and NaN coordinates as dask does, small chunks merged as dask does); the three
        outputs are compared on the block's own cells.  Thousands of random layouts per run plus an
        exhaustive space (all layouts with few targets x all blocks of all chunkings of small grids).
        Every difference found is re-run through the public Dask / NumPy API before it is reported, a random
        sample of the window cases goes through the public API as well (simulated == real), and a sample
        goes through the Lean model `Prox.run` on the clipped windows (model == kernel on the block cells).
        (3) stream `geo`: the public functions with GREAT_CIRCLE on lon/lat rasters (base latitudes 0, +-45, +-60, +-80 and next to
        a pole; cells 1e-4..1 degree; max_distance classes), restricted to the property's domain: the only in-domain rasters on
        which a cell reaches a target in another column are those whose columns are millimetres wide (see `gen_geo_case`).
Oracle (from the property text): public Dask result == public NumPy result.  Differences are classified with a
brute-force nearest-target search: where Dask reports an exact nearest target and NumPy (the whole-raster
heuristic sweep) does not, or both report exact nearest targets that are equidistant, the finding is a
consequence of the sweep heuristic (keys `sweep-heuristic:*`, listed in KNOWN_FINDINGS.txt); anything else
is `<mode>:differs`.
Domain guard (from the property): cases whose halo exceeds the raster (dask refuses) are skipped and counted.
"""
import itertools
import math
import multiprocessing as mp
import os
import random
import time
from fractions import Fraction

import numpy as np

from common import Driver, tok, untok

PROP = "C07"
MODES = ["proximity", "allocation", "direction"]
KEY_INEXACT = "sweep-heuristic:numpy-inexact-dask-exact"
KEY_TIE = "sweep-heuristic:equidistant-tie"


def random_composition(rng, n):
    out, left = [], n
    while left > 0:
        c = rng.randrange(1, left + 1) if rng.random() < 0.7 else 1
        out.append(c)
        left -= c
    return tuple(out)


def gen_case(rng):
    h, w = rng.randrange(2, 9), rng.randrange(2, 9)
    sx, sy = rng.choice([(1.0, 1.0), (1.0, 1.0), (2.0, 0.5), (0.5, 1.0), (1.0, 3.0)])
    metric = rng.choice(["EUCLIDEAN", "EUCLIDEAN", "MANHATTAN", "GREAT_CIRCLE"])
    if metric == "GREAT_CIRCLE":
        sx, sy = rng.choice([(1.0, 1.0), (2.0, 0.5)])
    vals = [0.0] * (h * w)
    for _ in range(rng.randrange(1, 6)):
        vals[rng.randrange(h * w)] = float(rng.randrange(1, 6))
    if rng.random() < 0.2:
        vals[rng.randrange(h * w)] = float("nan")
    targets = []
    r_t = rng.random()
    if r_t < 0.25:
        targets = rng.sample([1.0, 2.0, 3.0, 4.0, 5.0], rng.randrange(1, 3))
    elif r_t < 0.4:
        # 0 as an explicit target on a mostly non-zero raster: a halo filled with anything but NaN would add targets
        targets = rng.choice([[0.0], [0.0, 2.0]])
        vals = [1.0] * (h * w)
        for _ in range(rng.randrange(1, 3)):
            vals[rng.randrange(h * w)] = 0.0
        if rng.random() < 0.5:
            vals[rng.randrange(h * w)] = 2.0
    diag = math.hypot((w - 1) * sx, (h - 1) * sy)
    cands = [0.3, 0.5, 1.0, 1.5, 2.0, 2.5, 3.2, 5.0, diag, diag * 0.99, None, 1.0 * sx, 1.0 * sy, 2.0 * sy + 0.25]
    if metric == "GREAT_CIRCLE":
        # cell sizes are degrees but max_distance is metres: a finite halo is either tiny or exceeds the raster
        cands = [None, None, 1e9, 2.0, 1.0, 3.5]
    elif rng.random() < 0.85:
        fit = [m for m in cands if m is None or (int(m / sy + 0.5) <= h and int(m / sx + 0.5) <= w)]
        cands = fit or cands
    md = rng.choice(cands)
    return dict(h=h, w=w, sx=sx, sy=sy, desc_y=rng.random() < 0.4, desc_x=rng.random() < 0.2,
                x0=rng.choice([0.0, 0.0, 10.0, -3.5]), y0=rng.choice([0.0, 0.0, 5.0, -2.0]), metric=metric,
                vals=[tok(v) for v in vals], targets=targets, max_distance=md, mode=rng.choice(MODES),
                rch=list(random_composition(rng, h)), cch=list(random_composition(rng, w)),
                sched=rng.choice([["synchronous", None], ["threads", 2], ["threads", 4]]),
                dtype=rng.choice(["float64", "float32", "int32"]))


GEO_LATS = [0.0, 45.0, -45.0, 60.0, -60.0, 80.0, -80.0]
# The halo the property documents ("max_distance / cellsize per axis") divides metres by degrees.  It covers max_distance along x
# exactly as long as a degree of longitude is at least one metre long at every row: 111319.49 * sin(colatitude) >= 1, i.e. at
# least 5.15e-4 degrees (57 m) away from a pole.  Closer than that the *unchanged* code under-pads (observed, see
# `polar_cap_observation`); the stream keeps 20 % clear of the limit (7e-4 degrees) so that rounding the halo to whole cells and the
# curvature term of the haversine cannot matter, and max_distance (at most the raster's extent in degrees, read as metres: a few
# centimetres) stays far below the distance to the pole (>= 78 m), so no search circle contains the pole.
POLAR_MIN_COLAT = 7e-4


def halo_cells(md, sx, sy):
    """the halo of the property text, in cells per axis: max_distance / cell size, rounded to the nearest cell"""
    return int(md / sy + 0.5), int(md / sx + 0.5)


def gen_geo_case(rng):
    """GREAT_CIRCLE on geographic rasters: base latitude 0 / +-45 / +-60 / +-80 / next to a pole  x  cell sizes 1e-4 .. 1 degree
    (square and 2:1 / 1:2)  x  max_distance classes, restricted to the property's domain (the halo max_distance / cellsize, in
    cells, does not exceed the raster).  max_distance is in metres and the cell size in degrees, so inside the domain a cell
    reaches its neighbours only where a degree of longitude is short: the rows next to a pole (a cell of 0.001 x 0.001 degrees
    whose centre is 0.0005 degrees from the pole is 111 m high and 1 mm wide).  There the distance per column changes from row to
    row -- the halo along x has to be judged in the units the property gives it, not in metres per degree at the equator.
    Targets sit in the rows nearest to the pole, the raster is split along x (and sometimes y)."""
    polar = rng.random() < 0.75
    if polar:
        sx = rng.choice([1e-4, 1e-3, 1e-3, 1e-3, 1e-2])
        sy = sx * rng.choice([1.0, 1.0, 1.0, 2.0, 0.5])
        h, w = rng.randrange(4, 13), rng.randrange(6, 17)
        # colatitude of the row nearest to the pole: at least 7e-4 degrees (78 m from the pole), where a degree of longitude is
        # still 1.36 m long -- see POLAR_MIN_COLAT
        colat0 = max(sy * rng.choice([0.5, 1.0, 2.0, 4.0]), POLAR_MIN_COLAT * rng.choice([1.0, 1.0, 1.5, 3.0]))
        # since the repair of D28 (single block when a degree of longitude is shorter than pi/2 m on some row) the stream also goes
        # below that limit, down to half a cell from the pole
        if rng.random() < 0.3:
            colat0 = max(sy * 0.5, POLAR_MIN_COLAT * rng.choice([0.02, 0.1, 0.35, 0.6, 0.9]))
        south = rng.random() < 0.3
        top = 90.0 - colat0
        y0 = -top if south else top - (h - 1) * sy                  # the smallest latitude of the raster
        desc_y = rng.random() < 0.6
        pole_first = desc_y != south                                 # is row 0 the row nearest to the pole?
        lat_class = "pole-S" if south else "pole-N"
        near_rows = list(range(0, min(h, 4)))                     # rows counted from the pole
    else:
        base = rng.choice(GEO_LATS)
        sx = rng.choice([1e-3, 1e-2, 0.1, 0.5, 1.0])
        sy = sx * rng.choice([1.0, 1.0, 2.0, 0.5])
        h, w = rng.randrange(3, 10), rng.randrange(4, 11)
        y0 = base - (h // 2) * sy
        if y0 + (h - 1) * sy > 89.0:
            y0 = 89.0 - (h - 1) * sy
        y0 = max(y0, -89.0)
        desc_y = rng.random() < 0.5
        lat_class = f"{base:+.0f}"
        near_rows = list(range(h))
    x0 = round(rng.uniform(-179.0, 179.0 - w * sx), rng.choice([0, 2, 4]))
    desc_x = rng.random() < 0.2
    # targets: unique values, mostly in the rows nearest to the pole
    vals = [0.0] * (h * w)
    for n_ in range(rng.randrange(1, 5)):
        r_ = rng.choice(near_rows) if rng.random() < 0.85 else rng.randrange(h)
        row = r_ if (not polar or pole_first) else h - 1 - r_
        vals[row * w + rng.randrange(w)] = float(n_ + 1)
    # max_distance classes, all inside the domain: a fraction of the largest admissible halo, or a few cell widths (in metres) of
    # the row nearest to the pole / of the base latitude
    cap = min(h * sy, w * sx)
    lat_ref = (90.0 - colat0) if polar else abs(y0 + (h // 2) * sy)
    cell_m = 111319.5 * sx * math.cos(math.radians(lat_ref))
    kind = rng.choice(["cap", "cap", "half-cap", "cells", "cells", "cells", "cells", "inf", "tiny"])
    if kind == "cap":
        md = cap * 0.98
    elif kind == "half-cap":
        md = cap * rng.choice([0.3, 0.5, 0.7])
    elif kind == "cells":
        md = cell_m * rng.choice([0.8, 1.6, 2.7, 4.4, 9.3])
    elif kind == "tiny":
        md = cap * 0.01
    else:
        md = None
    if md is not None:
        while md > 0 and (halo_cells(md, sx, sy)[0] > h or halo_cells(md, sx, sy)[1] > w):
            md *= 0.7
            kind = "cells-clipped"
        # the cell size the code divides by is (max - min) / (n - 1) of decimal coordinates, i.e. sx up to rounding: keep the
        # quotient away from k + 1/2, where that rounding would decide the halo (the generated pad is evaluated exactly)
        while md > 0 and any(abs((md / s_) % 1.0 - 0.5) < 1e-3 for s_ in (sx, sy)):
            md *= 0.987
    rch = list(random_composition(rng, h)) if rng.random() < 0.4 else [h]
    cch = list(random_composition(rng, w))
    if len(cch) == 1 and w >= 2:
        cut = rng.randrange(1, w)
        cch = [cut, w - cut]
    if rng.random() < 0.5:
        # one more target in a column next to a column split, in a row near the pole ("targets just inside / outside the halo")
        cut = sum(cch[:rng.randrange(1, len(cch))])
        r_ = rng.choice(near_rows)
        row = r_ if (not polar or pole_first) else h - 1 - r_
        col = min(w - 1, max(0, cut + rng.choice([-2, -1, 0, 1])))
        if vals[row * w + col] == 0.0:
            vals[row * w + col] = 9.0
    return dict(h=h, w=w, sx=sx, sy=sy, desc_y=desc_y, desc_x=desc_x, x0=x0, y0=y0, metric="GREAT_CIRCLE",
                vals=[tok(v) for v in vals], targets=[], max_distance=md, mode=rng.choice(MODES), rch=rch, cch=cch,
                sched=rng.choice([["synchronous", None], ["threads", 2]]), dtype=rng.choice(["float64", "float64", "float32"]),
                stream="geo", geo=dict(lat=lat_class, maxd=kind))


# informational (never a failure of the run, recorded under `observations` in the evidence): the same stream one step closer to the
# pole than POLAR_MIN_COLAT.  Row 0 is 0.00025 degrees (28 m) from the south pole, a degree of longitude is 0.49 m there, the cells
# are 0.49 mm wide; max_distance = 2.25 mm reaches 4 columns, the documented halo max_distance / cellsize_x = 2.25 -> 2 columns.
POLAR_CAP_CASE = dict(h=9, w=8, sx=0.001, sy=0.0005, desc_y=False, desc_x=False, x0=41.0, y0=-89.99975, metric="GREAT_CIRCLE",
                      vals=[tok(v) for v in [0.0] * 5 + [1.0] + [0.0] * 6 + [2.0] + [0.0] * 11 + [3.0] + [0.0] * 6 + [4.0] + [0.0] * 40],
                      targets=[], max_distance=0.00225, mode="proximity", rch=[9], cch=[1, 3, 1, 1, 2], sched=["synchronous", None],
                      dtype="float64", stream="observation")


def polar_cap_observation(r, c, res):
    a = case_array(c).astype(np.float64)
    xs, ys = case_coords(c)
    cells = []
    for (i, j) in differing_cells(c, res):
        e, near = nearest_targets(c, a, xs, ys, i, j)
        cells.append(dict(cell=[i, j], numpy=res["numpy"][1][i][j], dask=res["dask"][1][i][j], exact_nearest=e,
                          nearest_target=[list(t) for t in near]))
    r.extra.setdefault("observations", []).append(dict(
        what="GREAT_CIRCLE within 57 m of a pole (outside the geo stream, which stays >= 78 m away): a degree of longitude is shorter "
             "than a metre, so the halo max_distance[m] / cellsize_x[deg] columns does not cover max_distance; 9x8 raster, cells "
             "0.001 x 0.0005 degrees, row 0 at latitude -89.99975, max_distance 2.25 mm, chunks (9,) x (1,3,1,1,2), dask depth "
             f"{res.get('seen', {}).get('depth')}: cells where the Dask-backed proximity differs from NumPy",
        cells=cells, dask_equals_numpy=not cells and res["dask"][0] == "ok"))
    r.case({k: c[k] for k in c if k != "stream"}, nontrivial=False, tags=["stream:observation"])
    if cells:
        # a genuine defect of /repo inside the property's domain (the halo, 2 columns, does not exceed the raster): listed in
        # KNOWN_FINDINGS.txt under this key, which is assigned to this one input only -- any other Dask / NumPy difference
        # keeps its own key and is reported
        r.fail("gc-halo:near-pole", f"Dask-backed proximity differs from NumPy at {[x['cell'] for x in cells]} "
               "(GREAT_CIRCLE, row 0 within 57 m of the south pole, max_distance 2.25 mm)", {k: c[k] for k in c})


def case_array(c):
    h, w = c["h"], c["w"]
    a = np.array([untok(t) for t in c["vals"]], dtype=np.float64).reshape(h, w)
    if c["dtype"].startswith("int"):
        a = np.nan_to_num(a, nan=0.0)
    return a.astype(c["dtype"])


def case_coords(c):
    xs = c["x0"] + np.arange(c["w"]) * c["sx"]
    ys = c["y0"] + np.arange(c["h"]) * c["sy"]
    if c["desc_x"]:
        xs = xs[::-1].copy()
    if c["desc_y"]:
        ys = ys[::-1].copy()
    return xs, ys


def build(c, backend):
    import dask.array as da
    import xarray as xr
    a = case_array(c)
    xs, ys = case_coords(c)
    data = da.from_array(a, chunks=(tuple(c["rch"]), tuple(c["cch"]))) if backend == "dask" else a
    return xr.DataArray(data, dims=["y", "x"], coords={"y": ys, "x": xs})


def run_real(c):
    """numpy and dask results of one case, plus the depth dask was called with"""
    import warnings
    warnings.filterwarnings("ignore")
    import dask
    import dask.array as da
    import importlib
    px = importlib.import_module("xrspatial.proximity")
    fn = getattr(px, c["mode"])
    kw = dict(target_values=list(c["targets"]), distance_metric=c["metric"])
    if c["max_distance"] is not None:
        kw["max_distance"] = c["max_distance"]
    out = {}
    try:
        out["numpy"] = ("ok", np.asarray(fn(build(c, "numpy"), **kw).data).astype(np.float64).tolist())
    except Exception as ex:  # noqa: BLE001
        out["numpy"] = (type(ex).__name__, str(ex)[:200])
    seen = {}
    orig = da.map_overlap

    def spy(*a, **k):
        seen["depth"] = k.get("depth")
        seen["boundary"] = repr(k.get("boundary"))
        seen["chunks"] = [list(map(list, getattr(x, "chunks", ()))) for x in a[1:]]
        return orig(*a, **k)

    da.map_overlap = spy
    try:
        res = fn(build(c, "dask"), **kw)
        lazy = isinstance(res.data, da.Array)
        sched, nw = c["sched"]
        cfg = dict(scheduler=sched)
        if nw:
            cfg["num_workers"] = nw
        with dask.config.set(**cfg):
            val = np.asarray(res.data.compute()).astype(np.float64).tolist()
        out["dask"] = ("ok", val, lazy)
    except Exception as ex:  # noqa: BLE001
        out["dask"] = (type(ex).__name__, str(ex)[:200], None)
    finally:
        da.map_overlap = orig
    out["seen"] = {k: (list(v) if isinstance(v, tuple) else v) for k, v in seen.items()}
    return out


def same(a, b):
    return (a != a and b != b) or a == b


def differing_cells(c, res):
    n, d = res["numpy"], res["dask"]
    if n[0] != "ok" or d[0] != "ok":
        return []
    return [(i, j) for i in range(c["h"]) for j in range(c["w"]) if not same(n[1][i][j], d[1][i][j])]


def run_real_full(c):
    """one case through the public API; when the two backends differ, the two other modes as well (needed to
    say whether the difference is the sweep heuristic's)"""
    res = run_real(c)
    if differing_cells(c, res) and c["metric"] in ("EUCLIDEAN", "MANHATTAN", "GREAT_CIRCLE"):
        res["modes"] = {c["mode"]: dict(numpy=res["numpy"], dask=res["dask"])}
        for m in MODES:
            if m != c["mode"]:
                o = run_real(dict(c, mode=m))
                res["modes"][m] = dict(numpy=o["numpy"], dask=o["dask"])
    return res


def work(cases):
    return [run_real_full(c) for c in cases]


# ---------------------------------------------------------------- classification of a difference (oracle side)
def compass(x1, y1, x2, y2):
    """bearing from (x1,y1) to (x2,y2), +y is south (the library's convention), 0 = same point, north = 360"""
    if x1 == x2 and y1 == y2:
        return 0.0
    b = math.degrees(math.atan2(x2 - x1, -(y2 - y1))) % 360.0
    return 360.0 if b == 0 else b


def is_target(v, tv):
    if not tv:
        return v == v and not math.isinf(v) and v != 0
    return any(v == t for t in tv)


def gc_dist(x1, x2, y1, y2):
    """great-circle distance in metres on the sphere of radius 6378137 m (haversine), lon/lat in degrees"""
    la1, lo1, la2, lo2 = map(math.radians, (y1, x1, y2, x2))
    a = math.sin((la2 - la1) / 2) ** 2 + math.cos(la1) * math.cos(la2) * math.sin((lo2 - lo1) / 2) ** 2
    return 6378137 * 2 * math.asin(math.sqrt(min(1.0, a)))


def nearest_targets(c, a, xs, ys, i, j):
    """(exact nearest distance or None when none within max_distance, the list of target cells at that distance)"""
    best, cells = None, []
    for ti in range(c["h"]):
        for tj in range(c["w"]):
            if not is_target(float(a[ti, tj]), c["targets"]):
                continue
            dx, dy = abs(float(xs[tj]) - float(xs[j])), abs(float(ys[ti]) - float(ys[i]))
            if c["metric"] == "GREAT_CIRCLE":
                d = gc_dist(float(xs[j]), float(xs[tj]), float(ys[i]), float(ys[ti]))
            else:
                d = dx + dy if c["metric"] == "MANHATTAN" else math.hypot(dx, dy)
            if best is None or d < best * (1 - 1e-9):
                best, cells = d, [(ti, tj)]
            elif abs(d - best) <= 1e-9 * (max(1.0, best) if c["metric"] != "GREAT_CIRCLE" else best):
                cells.append((ti, tj))
    if best is None:
        return None, []
    md = c["max_distance"]
    if md is not None and best > md * (1 + 1e-9):
        return None, []
    return best, cells


def names_exact(c, a, xs, ys, i, j, e, cells, p, al, di):
    """do proximity p, allocation al, direction di at (i, j) describe one of the exact nearest targets?"""
    if e is None:
        return p != p and al != al and di != di
    if p != p or abs(p - e) > 1e-5 * (max(1.0, e) if c["metric"] != "GREAT_CIRCLE" else e):
        return False
    for (ti, tj) in cells:
        v = float(np.float32(a[ti, tj]))
        b = compass(float(xs[j]), float(ys[i]), float(xs[tj]), float(ys[ti]))
        if al == v and abs(di - b) <= 1e-3:
            return True
    return False


def classify(c, res):
    """key of a Dask != NumPy difference: one of the two sweep-heuristic keys when the brute-force search explains
    every differing cell, else None"""
    if c["metric"] not in ("EUCLIDEAN", "MANHATTAN", "GREAT_CIRCLE") or "modes" not in res:
        return None
    ms = res["modes"]
    if any(ms[m][b][0] != "ok" for m in MODES for b in ("numpy", "dask")):
        return None
    a = case_array(c).astype(np.float64)
    xs, ys = case_coords(c)
    cells = differing_cells(c, res)
    if not cells:
        return None
    inexact = False
    for (i, j) in cells:
        e, near = nearest_targets(c, a, xs, ys, i, j)
        dn = [ms[m]["dask"][1][i][j] for m in MODES]
        nn = [ms[m]["numpy"][1][i][j] for m in MODES]
        if not names_exact(c, a, xs, ys, i, j, e, near, *dn):
            return None                      # the Dask side is not an exact nearest target: not this finding
        if names_exact(c, a, xs, ys, i, j, e, near, *nn):
            continue                         # both exact, different equidistant targets
        if e is not None and (nn[0] != nn[0] or nn[0] > e * (1 + 1e-5)):
            inexact = True                   # the whole-raster sweep missed the nearest target
            continue
        return None
    return KEY_INEXACT if inexact else KEY_TIE


def judge(c, res):
    """returns (failure text or None, tags, key)"""
    tags = [f"mode:{c['mode']}", f"metric:{c['metric']}", f"blocks:{min(9, len(c['rch']) * len(c['cch']))}",
            "maxd:" + ("inf" if c["max_distance"] is None else "finite")]
    if c.get("geo"):
        tags += ["stream:geo", f"geo-lat:{c['geo']['lat']}", f"geo-maxd:{c['geo']['maxd']}",
                 "geo-cell:" + ("<=1e-3" if c["sx"] <= 1e-3 else "<=0.1" if c["sx"] <= 0.1 else "<=1")]
        if c["max_distance"] is not None:
            tags.append("geo-halo-columns:%d" % min(9, halo_cells(c["max_distance"], c["sx"], c["sy"])[1]))
    n, d = res["numpy"], res["dask"]
    if n[0] != "ok":
        tags.append("numpy-raised:" + n[0])
        return None, tags, None
    if d[0] != "ok":
        if "overlapping depth" in d[1] and "larger than your array" in d[1]:
            tags.append("skipped:halo-exceeds-raster")     # the domain guard of the property
            return None, tags, None
        return f"dask raised {d[0]}: {d[1]} while numpy returned a value", tags, f"{c['mode']}:raises"
    if not d[2]:
        return "result of the Dask-backed call is not Dask-backed", tags, f"{c['mode']}:differs"
    nv, dv = n[1], d[1]
    diffs = differing_cells(c, res)
    if not diffs:
        return None, tags, None
    i, j = diffs[0]
    key = classify(c, res) or f"{c['mode']}:differs"
    why = {KEY_INEXACT: " [Dask names the exact nearest target, the whole-raster NumPy sweep does not]",
           KEY_TIE: " [both name an exact nearest target, two equidistant ones]"}.get(key, "")
    return (f"{c['mode']} differs at {(i, j)}: numpy {nv[i][j]} vs dask {dv[i][j]} ({len(diffs)} cells), "
            f"chunks {c['rch']}x{c['cch']} max_distance={c['max_distance']} metric={c['metric']}" + why), tags, key


def geo_cross_column(c, out):
    """does some non-target cell of the NumPy result have a value (it is within max_distance of a target) -- in a row whose
    targets are all in other columns, i.e. the distance was measured across columns?"""
    a = case_array(c).astype(np.float64)
    for i in range(c["h"]):
        for j in range(c["w"]):
            v = out[i][j]
            if v == v and not is_target(float(a[i, j]), c["targets"]) and not any(
                    is_target(float(a[t, j]), c["targets"]) for t in range(c["h"])):
                return True
    return False


# ---------------------------------------------------------------- stream `window`: fast window-vs-whole experiment
FREE = ["max_distance", "target_values", "distance_metric", "process_mode"]
_KERNEL = {}


def load_kernel():
    """a once-compiled copy of the nested `_process_numpy` of the current xrspatial/proximity.py with its closure
    variables passed as arguments (the public functions re-jit the closure on every call, ~1 s)"""
    if "k" in _KERNEL:
        return _KERNEL["k"]
    import ast
    import builtins
    import importlib
    import inspect
    px = importlib.import_module("xrspatial.proximity")
    tree = ast.parse(inspect.getsource(px))
    fns = [nd for nd in ast.walk(tree) if isinstance(nd, ast.FunctionDef) and nd.name == "_process_numpy"]
    if len(fns) != 1:
        raise RuntimeError(f"expected one nested _process_numpy in xrspatial/proximity.py, found {len(fns)}")
    fn = fns[0]
    fn.decorator_list = []
    fn.name = "_process_numpy_params"
    for a in FREE:
        fn.args.args.append(ast.arg(arg=a))
    mod = ast.Module(body=[fn], type_ignores=[])
    ast.fix_missing_locations(mod)
    code = compile(mod, "<copy of _process_numpy>", "exec")
    ns = dict(px.__dict__)
    exec(code, ns)
    f = ns["_process_numpy_params"]
    unknown = [nm for nm in f.__code__.co_names if nm not in ns and not hasattr(builtins, nm)
               and not any(hasattr(ns.get(g), nm) for g in ("np", "math"))]
    if unknown:
        raise RuntimeError(f"_process_numpy uses closure variables this harness does not pass: {unknown}")
    _KERNEL["k"] = (px, px.ngjit(f))
    return _KERNEL["k"]


def kernel3(px, kern, img, xs, ys, maxd, tv, metric):
    md = np.inf if maxd is None else maxd
    return [kern(img, xs, ys, md, tv, metric, m) for m in (px.PROXIMITY, px.ALLOCATION, px.DIRECTION)]


def halo_window(a, r0, r1, c0, c1, py, px_):
    """what da.map_overlap(depth=(py, px_), boundary=nan) hands to the block [r0,r1) x [c0,c1)"""
    H, W = a.shape
    out = np.full((r1 - r0 + 2 * py, c1 - c0 + 2 * px_), np.nan, dtype=np.float64)
    lo_r, hi_r = max(0, r0 - py), min(H, r1 + py)
    lo_c, hi_c = max(0, c0 - px_), min(W, c1 + px_)
    out[lo_r - (r0 - py):hi_r - (r0 - py), lo_c - (c0 - px_):hi_c - (c0 - px_)] = a[lo_r:hi_r, lo_c:hi_c]
    return out


def effective_chunks(depth, chunks):
    """dask merges chunks smaller than the depth (overlap(..., allow_rechunk=True)); None = dask refuses"""
    from dask.array.overlap import ensure_minimum_chunksize
    if depth == 0:
        return tuple(chunks)
    try:
        return tuple(ensure_minimum_chunksize(depth, tuple(chunks)))
    except ValueError:
        return None


def bounds(chunks):
    out, s = [], 0
    for k in chunks:
        out.append((s, s + k))
        s += k
    return out


MAX_KINDS = ["int", "half", "sqrth", "sqrtq", "raw"]


def max_of(kind, k, unit):
    """(python float handed to max_distance=, max^2 in unit^2 as a Fraction)"""
    if kind == "int":
        return float(k) * unit, Fraction(k * k)
    if kind == "half":
        return (k + 0.5) * unit, Fraction(2 * k + 1, 2) ** 2
    if kind == "sqrth":
        return math.sqrt(k + 0.5) * unit, Fraction(2 * k + 1, 2)
    if kind == "sqrtq":
        return math.sqrt(k + 0.25) * unit, Fraction(4 * k + 1, 4)
    v = k / 100.0                       # raw: k hundredths of a unit
    return v * unit, Fraction(v * unit) ** 2 / Fraction(unit) ** 2


def window_case(h, w, ux, uy, unit, metric, kind, k, cells, rch, cch, nan_cells=(), explicit=False):
    """a case in the format of `gen_case` (so it replays through the public API) + the exact description the
    model needs; rasters carry unique values so ALLOCATION identifies the target"""
    md, _ = max_of(kind, k, unit)
    vals = [0.0] * (h * w)
    targets = []
    if explicit:
        vals = [float(i + 1) for i in range(h * w)]
        targets = sorted(float(i + 1) for i in cells)
    else:
        for i in cells:
            vals[i] = float(i + 1)
    for i in nan_cells:
        if i not in cells:
            vals[i] = float("nan")
    return dict(h=h, w=w, sx=ux * unit, sy=uy * unit, desc_y=False, desc_x=False, x0=0.0, y0=0.0, metric=metric,
                vals=[tok(v) for v in vals], targets=targets, max_distance=md, mode="proximity",
                rch=list(rch), cch=list(cch), sched=["synchronous", None], dtype="float64",
                stream="window", ux=ux, uy=uy, unit=unit, mx=[kind, k])


CELLS = [(1, 1), (1, 1), (1, 1), (1, 2), (1, 2), (1, 2), (2, 1), (2, 1), (1, 3), (3, 1), (2, 3), (3, 2)]


def gen_window(rng, hmax):
    h, w = rng.randrange(3, hmax + 1), rng.randrange(3, hmax + 1)
    ux, uy = rng.choice(CELLS)
    unit = rng.choice([1.0, 1.0, 0.5, 1.5, 2.0])
    metric = rng.choice(["EUCLIDEAN", "EUCLIDEAN", "MANHATTAN"])
    kind = rng.choice(MAX_KINDS)
    if kind in ("int", "half"):
        k = rng.randrange(0, 5)
    elif kind in ("sqrth", "sqrtq"):
        k = rng.randrange(0, 21)
    else:
        k = int(round(rng.uniform(0.6, 4.6) * min(ux, uy) * 100))
    nt = rng.randrange(1, 8)
    cells = rng.sample(range(h * w), min(nt, h * w))
    nan_cells = rng.sample(range(h * w), rng.choice([0, 0, 0, 1, 2]))
    return window_case(h, w, ux, uy, unit, metric, kind, k, cells, random_composition(rng, h), random_composition(rng, w),
                       nan_cells=nan_cells, explicit=rng.random() < 0.15)


def pad_request(c):
    return f"proxpad maxd={tok(c['max_distance'])} csx={tok(c['sx'])} csy={tok(c['sy'])}"


def blocks_of(c, pad):
    """row and column ranges of the blocks dask really maps over, or None when the halo exceeds the raster"""
    er, ec = effective_chunks(pad[0], c["rch"]), effective_chunks(pad[1], c["cch"])
    if er is None or ec is None:
        return None
    return bounds(er), bounds(ec)


def window_eval(c, pad, rects=None):
    """whole-raster run vs the run on every block's halo window.  Returns dict(diff=[(mode, rect, cell)], truncating=bool,
    sim=<the simulated Dask proximity>, whole=<NumPy proximity>)"""
    px, kern = load_kernel()
    a = case_array(c).astype(np.float64)
    xs1, ys1 = case_coords(c)
    H, W = a.shape
    xs = np.tile(xs1, H).reshape(H, W)
    ys = np.repeat(ys1, W).reshape(H, W)
    tv = np.asarray(c["targets"], dtype=np.float64) if c["targets"] else np.asarray([])
    metric = px.DISTANCE_METRICS[c["metric"]]
    whole = kernel3(px, kern, a, xs, ys, c["max_distance"], tv, metric)
    py, pxx = pad
    if rects is None:
        b = blocks_of(c, pad)
        if b is None:
            return dict(skipped=True)
        rects = [(r0, r1, c0, c1) for (r0, r1) in b[0] for (c0, c1) in b[1]]
    sims = [np.full((H, W), np.nan), np.full((H, W), np.nan), np.full((H, W), np.nan)]
    diff, trunc = [], False
    tmask = np.vectorize(lambda v: is_target(float(v), c["targets"]))(a)
    for (r0, r1, c0, c1) in rects:
        wa = halo_window(a, r0, r1, c0, c1, py, pxx)
        outside = tmask.copy()
        outside[max(0, r0 - py):r1 + py, max(0, c0 - pxx):c1 + pxx] = False
        trunc = trunc or bool(outside.any())
        res = kernel3(px, kern, wa, halo_window(xs, r0, r1, c0, c1, py, pxx), halo_window(ys, r0, r1, c0, c1, py, pxx),
                      c["max_distance"], tv, metric)
        for m in range(3):
            sub = res[m][py:py + r1 - r0, pxx:pxx + c1 - c0]
            ref = whole[m][r0:r1, c0:c1]
            sims[m][r0:r1, c0:c1] = sub
            if not np.array_equal(ref, sub, equal_nan=True):
                bad = np.argwhere(~((ref == sub) | (np.isnan(ref) & np.isnan(sub))))[0]
                diff.append((MODES[m], [r0, r1, c0, c1], [int(bad[0]) + r0, int(bad[1]) + c0]))
    return dict(diff=diff, truncating=trunc, whole=[x.astype(np.float64) for x in whole], sim=sims)


def chunking_for(h, w, rect):
    r0, r1, c0, c1 = rect
    return [k for k in (r0, r1 - r0, h - r1) if k], [k for k in (c0, c1 - c0, w - c1) if k]


def possible_ranges(n, depth):
    """[a, b) that are a block of some chunking of an axis of length n after dask merged chunks below `depth`"""
    d = max(depth, 1)
    ok = lambda k: k == 0 or k >= d          # noqa: E731  a remainder that can be cut into chunks >= depth
    return [(a, b) for a in range(n) for b in range(a + 1, n + 1) if (b - a >= d or (a == 0 and b == n)) and ok(a) and ok(n - b)]


EXH_QUICK = [  # (h, w, ux, uy, metric, [(kind, k)], max targets)
    (3, 4, 1, 2, "EUCLIDEAN", [("raw", 290), ("sqrth", 8), ("half", 1), ("int", 2)], 3),
    (4, 4, 1, 1, "EUCLIDEAN", [("half", 1), ("sqrtq", 2), ("raw", 145)], 3),
    (4, 3, 2, 1, "MANHATTAN", [("half", 1), ("int", 2)], 3),
]
EXH_THOROUGH = EXH_QUICK + [
    (4, 4, 1, 2, "EUCLIDEAN", [("raw", 290), ("sqrth", 8), ("sqrtq", 8), ("half", 2)], 4),
    (4, 4, 2, 1, "EUCLIDEAN", [("raw", 290), ("sqrth", 8)], 4),
    (3, 5, 1, 2, "EUCLIDEAN", [("raw", 290), ("raw", 285)], 4),
    (4, 4, 1, 1, "EUCLIDEAN", [("int", 1), ("half", 1), ("int", 2), ("sqrtq", 2), ("raw", 145), ("raw", 240)], 4),
    (5, 5, 1, 1, "EUCLIDEAN", [("half", 1), ("int", 2), ("raw", 145)], 3),
    (4, 4, 1, 1, "MANHATTAN", [("int", 1), ("int", 2), ("half", 1)], 4),
    (5, 5, 1, 1, "EUCLIDEAN", [("raw", 240), ("sqrtq", 2)], 4),
    (6, 6, 1, 1, "EUCLIDEAN", [("raw", 240), ("raw", 145)], 3),
    (4, 5, 1, 3, "EUCLIDEAN", [("raw", 430), ("raw", 330)], 3),
    (4, 4, 1, 2, "MANHATTAN", [("int", 3), ("half", 3), ("int", 4)], 4),
]


def exhaustive_jobs(tier):
    jobs = []
    for (h, w, ux, uy, metric, maxes, nt) in (EXH_QUICK if tier == "quick" else EXH_THOROUGH):
        for (kind, k) in maxes:
            jobs.append((h, w, ux, uy, metric, kind, k, nt))
    return jobs


def window_worker(args):
    """(a) random window cases, (b) exhaustive jobs; pads were computed by the Lean driver from the generated `pad`"""
    cases, pads, jobs, job_pads = args
    t0 = time.time()
    out = dict(cases=[], exh=[], errors=[])
    try:
        load_kernel()
    except Exception as ex:  # noqa: BLE001
        out["errors"].append(f"{type(ex).__name__}: {ex}")
        return out
    for c, pad in zip(cases, pads):
        ev = window_eval(c, pad)
        if ev.get("skipped"):
            out["cases"].append(dict(skipped=True))
            continue
        out["cases"].append(dict(diff=ev["diff"], truncating=ev["truncating"],
                                 whole=[x.tolist() for x in ev["whole"]], sim=[x.tolist() for x in ev["sim"]]))
    for job, pad in zip(jobs, job_pads):
        h, w, ux, uy, metric, kind, k, nt = job
        rects = [(r0, r1, c0, c1) for (r0, r1) in possible_ranges(h, pad[0]) for (c0, c1) in possible_ranges(w, pad[1])
                 if not (r0 == 0 and r1 == h and c0 == 0 and c1 == w)]
        n_layouts, found = 0, []
        if pad[0] <= h and pad[1] <= w:
            for n in range(1, nt + 1):
                for cells in itertools.combinations(range(h * w), n):
                    c = window_case(h, w, ux, uy, 1.0, metric, kind, k, cells, [h], [w])
                    ev = window_eval(c, pad, rects=rects)
                    n_layouts += 1
                    if ev["diff"]:
                        mode, rect, cell = ev["diff"][0]
                        rch, cch = chunking_for(h, w, rect)
                        found.append(dict(case=dict(c, rch=rch, cch=cch, mode=mode), n=len(ev["diff"]), cell=cell))
        out["exh"].append(dict(job=list(job), pad=list(pad), layouts=n_layouts, rects=len(rects), found=found))
    out["wall"] = time.time() - t0
    return out


def model_requests(c, pad):
    """Lean model on the whole raster and on the clipped window of up to three blocks (None when the threshold of
    this case is not exactly representable in the model)"""
    kind, k = c["mx"]
    _, m2 = max_of(kind, k, c["unit"])
    if not (m2.denominator == 1 or (m2 - math.floor(m2)) <= Fraction(1, 2)):
        return None
    if (2 * m2).denominator == 1:
        m = int(2 * m2)
        for aa in range(c["w"]):
            for bb in range(c["h"]):
                d = (aa * c["ux"] + bb * c["uy"]) ** 2 if c["metric"] == "MANHATTAN" else (aa * c["ux"]) ** 2 + (bb * c["uy"]) ** 2
                if d == m or (kind == "raw" and 2 * d == m):
                    return None                  # decided by float rounding in the real code
    if kind == "raw":
        for aa in range(c["w"]):
            for bb in range(c["h"]):
                d = (aa * c["ux"] + bb * c["uy"]) ** 2 if c["metric"] == "MANHATTAN" else (aa * c["ux"]) ** 2 + (bb * c["uy"]) ** 2
                if abs(float(m2) - d) < 1e-6 or abs(2 * float(m2) - d) < 1e-6:
                    return None
    b = blocks_of(c, pad)
    if b is None:
        return None
    mmax = str(math.ceil(2 * m2))
    vals = c["vals"]
    xs1, ys1 = case_coords(c)

    def req(r0, r1, c0, c1):
        hh, ww = r1 - r0, c1 - c0
        flat = ",".join(vals[i * c["w"] + j] for i in range(r0, r1) for j in range(c0, c1))
        return (f"prox H={hh} W={ww} sx={c['ux']} sy={c['uy']} metric={'m' if c['metric'] == 'MANHATTAN' else 'e'} max={mmax} "
                f"vals={hh}x{ww}:{flat} tv={','.join(tok(t) for t in c['targets'])} "
                f"xs={','.join(tok(x) for x in xs1[c0:c1])} ys={','.join(tok(y) for y in ys1[r0:r1])}")

    rects = [(r0, r1, c0, c1) for (r0, r1) in b[0] for (c0, c1) in b[1]][:3]
    wins = [(max(0, r0 - pad[0]), min(c["h"], r1 + pad[0]), max(0, c0 - pad[1]), min(c["w"], c1 + pad[1])) for (r0, r1, c0, c1) in rects]
    return [req(0, c["h"], 0, c["w"])] + [req(*wn) for wn in wins], rects, wins


def parse_prox_reply(line):
    from common import parse_grid
    parts = dict(p.split("=", 1) for p in line.split(";"))
    P = parse_grid(parts["P"], conv=lambda t: None if t == "nan" else int(t))
    A = parse_grid(parts["A"], conv=int)
    return P, A


def model_vs_kernel(c, rects, wins, replies, ev):
    """differences between the Lean model (whole / clipped windows) and the kernel (whole / padded windows)"""
    from common import close
    a = case_array(c).astype(np.float64)
    out = []

    def cmp(P, A, ww, off, kp, ka, cells, what):
        for (i, j) in cells:
            mp, ma = P[i - off[0]][j - off[1]], A[i - off[0]][j - off[1]]
            gp, ga = kp[i][j], ka[i][j]
            exp = float("nan") if mp is None else math.sqrt(mp) * c["unit"]
            if not close(gp, exp, rel=1e-6, abs_=0.0):
                out.append(f"{what} ({i},{j}) proximity kernel={gp} model={exp}")
            if ma < 0:
                if ga == ga:
                    out.append(f"{what} ({i},{j}) allocation kernel={ga} model=NaN")
            else:
                tr, tc = divmod(ma, ww)
                v = float(np.float32(a[tr + off[0], tc + off[1]]))
                if ga != v:
                    out.append(f"{what} ({i},{j}) allocation kernel={ga} model=value {v}")
            if len(out) > 3:
                return

    try:
        P, A = parse_prox_reply(replies[0])
    except Exception:  # noqa: BLE001
        return [f"model reply: {replies[0][:100]}"]
    cmp(P, A, c["w"], (0, 0), ev["whole"][0], ev["whole"][1], [(i, j) for i in range(c["h"]) for j in range(c["w"])], "whole")
    for rect, wn, rep in zip(rects, wins, replies[1:]):
        try:
            P, A = parse_prox_reply(rep)
        except Exception:  # noqa: BLE001
            out.append(f"model reply: {rep[:100]}")
            continue
        cells = [(i, j) for i in range(rect[0], rect[1]) for j in range(rect[2], rect[3])]
        cmp(P, A, wn[3] - wn[2], (wn[0], wn[2]), ev["sim"][0], ev["sim"][1], cells, f"window of block {rect}")
    return out


def window_stream(r):
    """returns the list of cases that must go through the public API: (case, why, simulated results or None)"""
    quick = r.tier == "quick"
    n_rand = {"quick": 6000, "thorough": 60000}[r.tier]
    nproc = 4 if quick else 8
    cases = [gen_window(r.rng, 9 if quick else 10) for _ in range(n_rand)]
    jobs = exhaustive_jobs(r.tier)
    job_cases = [window_case(h, w, ux, uy, 1.0, metric, kind, k, [0], [h], [w]) for (h, w, ux, uy, metric, kind, k, nt) in jobs]
    drv = Driver()
    reps = drv.ask([pad_request(c) for c in cases + job_cases])
    pads, bad_pad = [], 0
    for c, rep in zip(cases + job_cases, reps):
        try:
            p = tuple(int(x) for x in rep.split(","))
            if len(p) != 2 or min(p) < 0:
                raise ValueError(rep)
        except ValueError:
            # the generated pad is unusable (translator gave up on the halo expressions): the proof side is broken anyway;
            # simulate with the documented halo so that the api sample shows whether the real code still agrees with it
            if bad_pad == 0:
                r.disagree("pad", c, "n/a", f"generated pad evaluates to {rep!r}")
            bad_pad += 1
            p = (int(c["max_distance"] / c["sy"] + 0.5), int(c["max_distance"] / c["sx"] + 0.5))
        pads.append(p)
    case_pads, job_pads = pads[:len(cases)], pads[len(cases):]
    # exhaustive jobs are spread by cost (largest first), random cases round-robin
    order = sorted(range(len(jobs)), key=lambda i: -(jobs[i][0] * jobs[i][1]) ** jobs[i][7])
    parts = []
    for w_ in range(nproc):
        ji = order[w_::nproc]
        parts.append((cases[w_::nproc], case_pads[w_::nproc], [jobs[i] for i in ji], [job_pads[i] for i in ji]))
    with mp.get_context("fork").Pool(nproc) as pool:
        outs = pool.map(window_worker, parts)
    to_api = []
    for o in outs:
        for e in o["errors"]:
            r.disagree("window-kernel", "copy of _process_numpy", e, "expected: the nested kernel compiles with its four closure variables as arguments")
    if any(o["errors"] for o in outs):
        return to_api
    results = [None] * len(cases)
    for w_, o in enumerate(outs):
        for i, res in enumerate(o["cases"]):
            results[w_ + i * nproc] = res
    n_model = {"quick": 800, "thorough": 8000}[r.tier]     # driver requests (about 3 per case)
    n_api = {"quick": 24, "thorough": 96}[r.tier]
    model_reqs, model_meta = [], []
    diffs = []
    api_pool = []
    for idx, (c, pad, res) in enumerate(zip(cases, case_pads, results)):
        tags = ["stream:window", f"w-cells:{c['ux']}x{c['uy']}", f"w-metric:{c['metric']}", f"w-max:{c['mx'][0]}"]
        if res is None or res.get("skipped"):
            r.case(c, nontrivial=False, tags=tags + ["skipped:halo-exceeds-raster"])
            continue
        nontriv = res["truncating"] and any(v == v and v != 0 for row in res["whole"][0] for v in row)
        if res["truncating"]:
            tags.append("w-truncating-window")
        r.case({k: c[k] for k in ("h", "w", "sx", "sy", "metric", "vals", "targets", "max_distance", "rch", "cch")},
               desc=None, nontrivial=nontriv, tags=tags)
        if res["diff"]:
            r.tag("w-difference")
            diffs.append((dict(c, mode=res["diff"][0][0]), res))
        elif res["truncating"]:
            api_pool.append((c, res))
        if len(model_reqs) < n_model and not c["targets"]:
            mr = model_requests(c, pad)
            if mr is not None:
                model_meta.append((c, mr[1], mr[2], len(mr[0]), res))
                model_reqs.extend(mr[0])
    # model == kernel on whole rasters and on block cells of clipped windows
    if model_reqs:
        reps = drv.ask(model_reqs)
        pos = 0
        for (c, rects, wins, n, res) in model_meta:
            bad = model_vs_kernel(c, rects, wins, reps[pos:pos + n], res)
            pos += n
            r.tag("w-model-compared")
            if bad:
                r.disagree("window-model", c, "kernel (padded window)", "; ".join(bad[:3]))
    # exhaustive spaces
    spaces = []
    for o in outs:
        for e in o["exh"]:
            h, w, ux, uy, metric, kind, k, nt = e["job"]
            spaces.append(f"{h}x{w} cells {ux}x{uy} {metric} max {kind}:{k} <= {nt} targets: {e['layouts']} layouts x {e['rects']} blocks")
            r.tag("w-exhaustive-layouts", e["layouts"])
            r.evaluations += e["layouts"]
            for f in e["found"]:
                r.tag("w-difference")
                diffs.append((f["case"], None))
    r.exhaustive = "window stream: " + "; ".join(sorted(spaces))
    # what goes through the public API: every difference (smallest first, capped) and a random sample of the rest
    diffs.sort(key=lambda d: (d[0]["h"] * d[0]["w"], sum(1 for t in d[0]["vals"] if t not in ("0", "nan")), str(d[0]["vals"])))
    cap = {"quick": 10, "thorough": 40}[r.tier]
    for c, res in diffs[:cap]:
        to_api.append((c, "difference", res))
    if len(diffs) > cap:
        r.tag("w-difference-not-replayed-through-api", len(diffs) - cap)
    r.rng.shuffle(api_pool)
    for c, res in api_pool[:n_api]:
        to_api.append((dict(c, mode=r.rng.choice(MODES)), "sample", res))
    return to_api


# ---------------------------------------------------------------- stream `joint-graph`: several lazy results in ONE graph
# "chunked = whole-raster" is about the value of every Dask-backed result however it gets computed.  Per-class distance
# layers are the typical use (proximity(r, target_values=[k]) for each class k, then one Dataset / one dask.compute / a
# difference): their graphs are merged, and tasks of different calls carrying the same key replace each other.  Every public
# call re-jits its closure (~1 s), so: few groups, spread over the worker pool.
JG_DIMS = ["targets", "max_distance", "metric", "raster", "identical"]


def gen_jointgraph(rng, g_index, modes, n_variants=2):
    """first call: a raster with two or three classes, targets = one class; every other call differs from it in exactly one
    place (target_values / max_distance / metric / the raster / nothing), the function possibly swapped for a sibling
    (proximity / allocation / direction share `_process`)"""
    h, w = rng.randrange(3, 8), rng.randrange(3, 8)
    sx, sy = rng.choice([(1.0, 1.0), (1.0, 1.0), (2.0, 0.5), (1.0, 3.0)])

    def raster():
        vals = [0.0] * (h * w)
        cells = rng.sample(range(h * w), rng.randrange(3, 6))
        for n, i in enumerate(cells):
            vals[i] = float(1 + n % 3)
        return [tok(v) for v in vals]

    fit = [m for m in (1.0, 1.5, 2.0, 2.5, 3.2, None, None) if m is None or (int(m / sy + 0.5) <= h and int(m / sx + 0.5) <= w)]
    base = dict(h=h, w=w, sx=sx, sy=sy, desc_y=rng.random() < 0.4, desc_x=False, x0=rng.choice([0.0, 10.0]), y0=rng.choice([0.0, -2.0]),
                metric=rng.choice(["EUCLIDEAN", "MANHATTAN"]), vals=raster(), targets=[rng.choice([1.0, 2.0])],
                max_distance=rng.choice(fit), mode=rng.choice(MODES), rch=list(random_composition(rng, h)),
                cch=list(random_composition(rng, w)), sched=["synchronous", None], dtype="float64")
    calls, dims = [base], []
    for i in range(n_variants):
        d = JG_DIMS[(g_index * n_variants + i) % len(JG_DIMS)]
        c = dict(base)
        if d == "targets":
            c["targets"] = rng.choice([t for t in ([1.0], [2.0], [3.0], [1.0, 3.0], []) if t != base["targets"]])
        elif d == "max_distance":
            others = [m for m in fit if m != base["max_distance"]]
            if not others:
                continue
            c["max_distance"] = rng.choice(others)
        elif d == "metric":
            c["metric"] = "MANHATTAN" if base["metric"] == "EUCLIDEAN" else "EUCLIDEAN"
        elif d == "raster":
            c["vals"] = raster()
            if c["vals"] == base["vals"]:
                continue
        if rng.random() < 0.35:
            c["mode"] = rng.choice([m for m in MODES if m != base["mode"]])
            d += "+sibling"
        calls.append(c)
        dims.append(d)
    return dict(stream="joint-graph", calls=calls, dims=dims, modes=modes, sched=rng.choice([["synchronous", None], ["threads", 4]]),
                note="the lazy results of these calls on the Dask-backed raster are evaluated in ONE graph (compute: "
                     "dask.compute(a.data, b.data, ...); dataset: xr.Dataset({...}).compute(); minus: (a - b).data.compute()); "
                     "each must equal the NumPy-backed result of the same call")


def call_public(c, backend):
    import importlib
    px = importlib.import_module("xrspatial.proximity")
    kw = dict(target_values=list(c["targets"]), distance_metric=c["metric"])
    if c["max_distance"] is not None:
        kw["max_distance"] = c["max_distance"]
    return getattr(px, c["mode"])(build(c, backend), **kw)


def run_jointgraph(g):
    """-> dict(used=[indices of the calls that both backends accept], evals=[(mode, effective mode, bad or None)],
               distinct=bool, alone=[run_real_full per used call, only when something differed])"""
    import warnings
    warnings.filterwarnings("ignore")
    import dask.array as da
    import jointgraph
    used, expected, lazies = [], [], []
    for i, c in enumerate(g["calls"]):
        try:
            e = np.asarray(call_public(c, "numpy").data).astype(np.float64)
            z = call_public(c, "dask")
        except Exception:  # noqa: BLE001 -- a rejected call (halo exceeds the raster ...): the api stream judges single calls
            if i == 0:
                return dict(used=[], evals=[], distinct=False, alone=[])
            continue
        if not isinstance(z.data, da.Array):
            continue
        used.append(i)
        expected.append(e)
        lazies.append(z)
    out = dict(used=used, evals=[], distinct=len(used) > 1 and jointgraph.distinct(expected), alone=[])
    if len(used) < 2:
        return out
    for mode in g["modes"]:
        eff = jointgraph.effective_mode(lazies, mode)
        bad = None
        try:
            kind, got = jointgraph.evaluate(lazies, eff, tuple(g["sched"]))
            if kind == "each":
                for k, (e, v) in enumerate(zip(expected, got)):
                    v = v.astype(np.float64)
                    if not jointgraph.same_cells(e, v):
                        idx = tuple(int(t) for t in np.argwhere(~((e == v) | (np.isnan(e) & np.isnan(v))))[0]) if e.shape == v.shape else ()
                        bad = (used[k], f"call #{used[k]} ({g['calls'][used[k]]['mode']}): numpy {e[idx] if idx else e.shape} vs dask "
                                        f"{v[idx] if idx else v.shape} at {idx}")
                        break
            else:
                for k, v in enumerate(got, start=1):
                    d = jointgraph.minus_bad(expected[0], expected[k], v, rtol=1e-6)
                    if d:
                        bad = (used[k], f"call #{used[0]} minus call #{used[k]}: " + d)
                        break
        except Exception as ex:  # noqa: BLE001
            bad = (used[0], f"joint evaluation raised {type(ex).__name__}: {str(ex)[:200]}")
        out["evals"].append((mode, eff, bad))
        if bad:
            break
    if any(b for (_, _, b) in out["evals"]):
        # is it the joint evaluation, or does some call already differ when computed alone (the sweep heuristic)?
        out["alone"] = [run_real_full(g["calls"][i]) for i in used]
    return out


def work_joint(groups):
    return [run_jointgraph(g) for g in groups]


def judge_jointgraph(r, g, res):
    """report a group; returns the number of failures added"""
    calls = [g["calls"][i] for i in res["used"]]
    dims = [g["dims"][i - 1] for i in res["used"] if i > 0]
    if len(calls) < 2:
        r.tag("joint-graph:skipped(fewer than two usable calls)")
        return 0
    n = 0
    for (mode, eff, bad) in res["evals"]:
        key = dict(g, modes=[mode])
        r.case(key, nontrivial=res["distinct"],
               tags=["stream:joint-graph", f"jg-mode:{eff}", f"jg-size:{len(calls)}"] +
                    sorted({"jg-differs-in:" + d.split("+")[0] for d in dims}) +
                    (["jg-sibling-function"] if any("+sibling" in d for d in dims) else []))
        if not bad:
            continue
        single = 0
        for c, alone in zip(calls, res["alone"]):
            b1, _, k1 = judge(c, alone)
            if b1:
                single += 1
                pub = {kk: c[kk] for kk in c if kk not in ("stream", "ux", "uy", "unit", "mx")}
                r.fail(k1, b1 + " [a call of a joint-graph group, computed alone]", pub)
        if single:
            r.tag("joint-graph:difference-already-in-a-single-call")
            return single
        i, what = bad
        r.fail(f"{g['calls'][i]['mode']}:differs-joint-graph",
               f"{len(calls)} calls ({', '.join(c['mode'] for c in calls)}; each differing from the first in {dims}) evaluated in "
               f"one graph [{eff}]: {what}; every one of them computed alone equals NumPy", key)
        n += 1
        break
    return n


# ---------------------------------------------------------------- run
def run(r, n_override=None):
    n = n_override or {"quick": 64, "thorough": 640}[r.tier]
    r.rule = ("stream api: random rasters 2..8 x 2..8, 1-5 targets (+NaN cell, explicit target lists), cell sizes incl. x != y, "
              "ascending/descending coordinates with offsets, metrics EUCLIDEAN/MANHATTAN/GREAT_CIRCLE, max_distance from "
              "0.3 cell to the raster diagonal and inf, three output modes, random chunk compositions, schedulers "
              "synchronous/threads; non-trivial = more than one block and at least one non-NaN non-target cell. "
              "stream geo (through the public API like stream api): GREAT_CIRCLE on lon/lat rasters at base latitudes 0 / +-45 / +-60 / +-80 "
              "(25%) and next to a pole (75%: nearest row 7e-4..8e-3 degrees from it, either pole, pole row first or last), cells 1e-4..1 "
              "degree (square, 2:1, 1:2), max_distance = the largest halo the raster admits / a fraction of it / 0.8..9.3 cell widths of the "
              "pole row in metres / 1% / inf, always inside the property's domain (max_distance / cellsize <= raster size per axis); 1-5 "
              "targets in the rows nearest to the pole, half the rasters with one beside a column split; >= 2 column chunks; non-trivial "
              "as in stream api, tags geo-cross-column-reach / geo-own-column-only say whether a cell is reached across columns. "
              "stream window: rasters 3..9 x 3..9 (thorough ..10), cells 1x1 1x2 2x1 1x3 3x1 2x3 3x2 times unit 0.5..2, 1-7 targets with "
              "unique values (+NaN cells, explicit lists), max_distance k, k+1/2, sqrt(k+1/2), sqrt(k+1/4) and decimals, random chunk "
              "compositions (merged as dask merges them), whole-raster kernel vs kernel on each halo window, three modes; "
              "non-trivial = some window leaves a target outside and some cell has a non-zero distance; plus the exhaustive "
              "spaces listed under exhaustive_space (all layouts with few targets x every block of every chunking). "
              "stream joint-graph: groups of 3 (thorough 4) public calls on one Dask-backed raster (3..7 x 3..7, two or three classes) -- the "
              "first with target_values = one class, each other one differing from it in exactly one place, rotating over "
              "target_values / max_distance / metric / the raster / nothing, the function swapped for a sibling 35% -- whose lazy "
              "results are evaluated in ONE graph (dask.compute of all / xr.Dataset / a - b), each judged against its own NumPy-backed "
              "call (a difference that a call shows when computed alone is reported under that call's own key)")
    extra = window_stream(r)
    n_geo = {"quick": 32, "thorough": 240}[r.tier] * (1 if n_override is None else 3)
    cases = [b["case"] for b in r.corpus() if b["case"].get("stream") != "joint-graph"] + [gen_case(r.rng) for _ in range(n)] + \
        [gen_geo_case(r.rng) for _ in range(n_geo)] + [POLAR_CAP_CASE] + [c for (c, _, _) in extra]
    sims = [None] * (len(cases) - len(extra)) + [(why, res) for (_, why, res) in extra]
    nproc = min(16, os.cpu_count() or 4)
    chunks = [cases[i::nproc] for i in range(nproc)]
    import jointgraph
    n_groups = {"quick": 6, "thorough": 32}[r.tier] * (1 if n_override is None else 2)
    k0 = r.rng.randrange(15)
    groups = [b["case"] for b in r.corpus() if b["case"].get("stream") == "joint-graph"] + \
        [gen_jointgraph(r.rng, k0 + g, [jointgraph.MODES[(k0 + g + i) % 3] for i in range(2 if r.tier == "quick" else 3)],
                        n_variants=2 if r.tier == "quick" else 3)
         for g in range(n_groups)]
    with mp.get_context("fork").Pool(nproc) as pool:
        first = pool.map_async(work, chunks, chunksize=1)
        pending = pool.map_async(work_joint, [[g] for g in groups], chunksize=1)      # fill the workers as they finish
        results = first.get()
        joint_results = [x[0] for x in pending.get()]
    for g, res in zip(groups, joint_results):
        judge_jointgraph(r, g, res)
    ordered = {}
    for k, (cs, rs) in enumerate(zip(chunks, results)):
        for idx, (c, res) in enumerate(zip(cs, rs)):
            ordered[k + idx * nproc] = (c, res)
    pad_reqs, pad_cases = [], []
    for k in sorted(ordered):
        c, res = ordered[k]
        if c.get("stream") == "observation":
            polar_cap_observation(r, c, res)
            continue
        bad, tags, key = judge(c, res)
        nontriv = len(c["rch"]) * len(c["cch"]) > 1 and res["numpy"][0] == "ok" and \
            any(v == v and v != 0 for row in res["numpy"][1] for v in row)
        sim = sims[k]
        pub = {kk: c[kk] for kk in c if kk not in ("stream", "ux", "uy", "unit", "mx")}
        if c.get("geo") and nontriv and res["numpy"][0] == "ok" and c["max_distance"] is not None:
            # some cell is reached from a target in another column (the halo along x matters)
            tags.append("geo-cross-column-reach" if geo_cross_column(c, res["numpy"][1]) else "geo-own-column-only")
        r.case(pub, desc=pub if k < 3 else None, nontrivial=nontriv, tags=tags + (["api:window-" + sim[0]] if sim else []))
        if bad:
            r.fail(key, bad, pub)
        if sim:
            why, simres = sim
            if why == "difference" and not bad:
                r.disagree("window-sim", pub, "public Dask == public NumPy",
                           "simulated halo windows differ from the whole-raster kernel on this case")
            if simres is not None and res["numpy"][0] == "ok" and res["dask"][0] == "ok" and c["mode"] in MODES:
                m = MODES.index(c["mode"])
                if not np.array_equal(np.array(res["numpy"][1]), np.array(simres["whole"][m]), equal_nan=True):
                    r.disagree("window-sim", pub, "public NumPy result", "copy of the kernel on the whole raster differs")
                if not np.array_equal(np.array(res["dask"][1]), np.array(simres["sim"][m]), equal_nan=True):
                    r.disagree("window-sim", pub, "public Dask result", "kernel on simulated halo windows differs")
        seen = res.get("seen", {})
        if seen.get("depth") is not None:
            if seen.get("boundary") != "nan":
                r.disagree("wiring", pub, f"boundary={seen.get('boundary')}", "model: NaN boundary")
            if any(ch != [c["rch"], c["cch"]] for ch in seen.get("chunks", [])) and tuple(seen["depth"]) != (0, 0):
                r.disagree("wiring", pub, f"chunks of mapped arrays {seen.get('chunks')}", "model: all chunked like the raster")
            if c["max_distance"] is not None and tuple(seen["depth"]) != (0, 0):
                pad_reqs.append(pad_request(c))
                pad_cases.append((pub, seen["depth"]))
    replies = Driver().ask(pad_reqs)
    for (c, depth), rep in zip(pad_cases, replies):
        r.tag("pad-compared")
        if rep != f"{depth[0]},{depth[1]}":
            r.disagree("pad", c, f"dask was called with depth={depth}", f"generated pad gives {rep}")


def search(r):
    run(r, n_override={"quick": 256, "thorough": 1200}[r.tier])


def replay(r, body):
    c = body["case"]
    if c.get("stream") == "joint-graph":
        before = len(r.failures)
        judge_jointgraph(r, c, run_jointgraph(c))
        if len(r.failures) > before:
            print("still fails:", f"[{r.failures[-1]['key']}]", r.failures[-1]["what"])
            return 1
        print("does not fail on the current tree")
        return 0
    bad, _, key = judge(c, run_real_full(c))
    if bad:
        print("still fails:", f"[{key}]", bad)
        return 1
    print("does not fail on the current tree")
    return 0
