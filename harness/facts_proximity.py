"""
T2 facts of xrspatial/proximity.py (C06): the metric table and its fallback, the `_distance` dispatch,
the process mode each public function asks for, the treatment of `max_distance=None`.

Every fact is read off the `ast`; a shape that is not found is emitted as a value the theorems of
Props/C06.lean cannot accept (empty table / `none` / "?"), never as a default.
"""
import ast
import os

from translate import call_name, find_func, lean_str

REL = "xrspatial/proximity.py"


def int_consts(mod):
    out = {}
    for st in mod.body:
        if isinstance(st, ast.Assign) and len(st.targets) == 1 and isinstance(st.targets[0], ast.Name) \
                and isinstance(st.value, ast.Constant) and isinstance(st.value.value, int):
            out[st.targets[0].id] = st.value.value
    return out


def metric_table(mod, consts):
    f = find_func(mod, "_distance_metric_mapping")
    table = {}
    if f is None:
        return table
    for st in ast.walk(f):
        if isinstance(st, ast.Assign) and len(st.targets) == 1 and isinstance(st.targets[0], ast.Subscript) \
                and isinstance(st.targets[0].slice, ast.Constant) and isinstance(st.value, ast.Name) \
                and st.value.id in consts:
            table[st.targets[0].slice.value] = consts[st.value.id]
    return table


def fallback(mod):
    """`distance_metric = DISTANCE_METRICS.get(distance_metric, None)` followed by
       `if distance_metric is None: distance_metric = DISTANCE_METRICS[<name>]`"""
    f = find_func(mod, "_process")
    if f is None:
        return None
    got_get = False
    for st in f.body:
        if isinstance(st, ast.Assign) and isinstance(st.value, ast.Call) and call_name(st.value.func) == "get" \
                and isinstance(st.value.func, ast.Attribute) and isinstance(st.value.func.value, ast.Name) \
                and st.value.func.value.id == "DISTANCE_METRICS" and len(st.value.args) == 2 \
                and isinstance(st.value.args[1], ast.Constant) and st.value.args[1].value is None \
                and isinstance(st.targets[0], ast.Name) and st.targets[0].id == "distance_metric":
            got_get = True
        elif got_get and isinstance(st, ast.If) and ast.unparse(st.test) == "distance_metric is None" \
                and len(st.body) == 1 and isinstance(st.body[0], ast.Assign) and not st.orelse:
            v = st.body[0].value
            if isinstance(v, ast.Subscript) and isinstance(v.value, ast.Name) and v.value.id == "DISTANCE_METRICS" \
                    and isinstance(v.slice, ast.Constant):
                return v.slice.value
            return None
    return None


def dispatch(mod, consts):
    """the if / elif / else chain of `_distance`"""
    f = find_func(mod, "_distance")
    table, other = [], "?"
    if f is None:
        return table, other
    node = next((st for st in f.body if isinstance(st, ast.If)), None)
    while node is not None:
        t = node.test
        callee = None
        if len(node.body) == 1 and isinstance(node.body[0], ast.Assign) and isinstance(node.body[0].value, ast.Call):
            call = node.body[0].value
            if [ast.unparse(a) for a in call.args] == ["x1", "x2", "y1", "y2"]:
                callee = call_name(call.func)
        if isinstance(t, ast.Compare) and len(t.ops) == 1 and isinstance(t.ops[0], ast.Eq) \
                and isinstance(t.left, ast.Name) and t.left.id == "metric" \
                and isinstance(t.comparators[0], ast.Name) and t.comparators[0].id in consts and callee:
            table.append((consts[t.comparators[0].id], callee))
        else:
            return [], "?"
        if len(node.orelse) == 1 and isinstance(node.orelse[0], ast.If):
            node = node.orelse[0]
        else:
            if len(node.orelse) == 1 and isinstance(node.orelse[0], ast.Assign) \
                    and isinstance(node.orelse[0].value, ast.Call) \
                    and [ast.unparse(a) for a in node.orelse[0].value.args] == ["x1", "x2", "y1", "y2"]:
                other = call_name(node.orelse[0].value.func)
            node = None
    return table, other


def process_modes(mod, consts):
    out = {}
    defaults = {}
    for fn in ("proximity", "allocation", "direction"):
        f = find_func(mod, fn)
        if f is None:
            continue
        for n in ast.walk(f):
            if isinstance(n, ast.Call) and call_name(n.func) == "_process":
                for k in n.keywords:
                    if k.arg == "process_mode" and isinstance(k.value, ast.Name) and k.value.id in consts:
                        out[fn] = consts[k.value.id]
        names = [a.arg for a in f.args.args]
        dl = f.args.defaults
        dmap = dict(zip(names[len(names) - len(dl):], [ast.unparse(d) for d in dl]))
        defaults[fn] = dict(max_distance=dmap.get("max_distance", "?"), distance_metric=dmap.get("distance_metric", "?"),
                            target_values=dmap.get("target_values", "?"))
    return out, defaults


def none_means_inf(mod):
    f = find_func(mod, "_process")
    if f is None:
        return False
    for st in f.body:
        if isinstance(st, ast.If) and ast.unparse(st.test) == "max_distance is None" and len(st.body) == 1 \
                and ast.unparse(st.body[0]) == "max_distance = np.inf":
            return True
    return False


def scan_line_dtype(mod):
    """dtype of the per-row buffer the target test reads: `scan_line = np.zeros(width, dtype=<e>)` in the nested
    `_process_numpy(img, ...)`.  ("img", None) when <e> is `<first parameter>.dtype`, ("fixed", name) for `np.<name>` /
    a string constant, ("other", text) for anything else or when the statement is not found exactly once"""
    outer = find_func(mod, "_process")
    if outer is None:
        return ("other", "no _process")
    inner = [n for n in ast.walk(outer) if isinstance(n, ast.FunctionDef) and n.name == "_process_numpy"]
    if len(inner) != 1 or not inner[0].args.args:
        return ("other", "no nested _process_numpy")
    img = inner[0].args.args[0].arg
    found = []
    for st in ast.walk(inner[0]):
        if isinstance(st, ast.Assign) and len(st.targets) == 1 and isinstance(st.targets[0], ast.Name) \
                and st.targets[0].id == "scan_line":
            found.append(st.value)
    if len(found) != 1:
        return ("other", f"{len(found)} assignments to scan_line")
    v = found[0]
    if not (isinstance(v, ast.Call) and call_name(v.func) in ("zeros", "empty") and len(v.args) == 1):
        return ("other", ast.unparse(v))
    kw = {k.arg: k.value for k in v.keywords}
    if set(kw) != {"dtype"}:
        return ("other", ast.unparse(v))       # no dtype= means float64, not the raster's dtype
    d = kw["dtype"]
    if isinstance(d, ast.Attribute) and d.attr == "dtype" and isinstance(d.value, ast.Name) and d.value.id == img:
        return ("img", None)
    if isinstance(d, ast.Attribute) and isinstance(d.value, ast.Name) and d.value.id in ("np", "numpy"):
        return ("fixed", d.attr)
    if isinstance(d, ast.Constant) and isinstance(d.value, str):
        return ("fixed", d.value)
    return ("other", ast.unparse(d))


def generate(repo):
    mod = ast.parse(open(os.path.join(repo, REL)).read())
    sld = scan_line_dtype(mod)
    consts = int_consts(mod)
    table = metric_table(mod, consts)
    fb = fallback(mod)
    disp, other = dispatch(mod, consts)
    modes, defaults = process_modes(mod, consts)
    nmi = none_means_inf(mod)

    def pairs_sn(d):
        return "[" + ", ".join(f"({lean_str(k)}, {v})" for k, v in d) + "]"

    out = ["/-! GENERATED by harness/facts_proximity.py from xrspatial/proximity.py -- do not edit. -/",
           "namespace XrsVerif.Gen.ProximityFacts", "",
           "/-- `_distance_metric_mapping()`: metric name -> integer code -/",
           f"def metricTable : List (String × Nat) := {pairs_sn(sorted(table.items(), key=lambda kv: kv[1]))}", "",
           "/-- `_process`: `DISTANCE_METRICS.get(distance_metric, None)`, and when that is None the entry of this name -/",
           f"def metricFallback : Option String := {'some ' + lean_str(fb) if fb else 'none'}", "",
           "/-- `_distance`: `if metric == <code>: d = <function>(x1, x2, y1, y2)` chain ... -/",
           "def distanceDispatch : List (Nat × String) := [" + ", ".join(f"({k}, {lean_str(v)})" for k, v in disp) + "]",
           "/-- ... and its final `else` -/",
           f"def distanceElse : String := {lean_str(other)}", "",
           "/-- `process_mode=` each public function passes to `_process` -/",
           f"def processMode : List (String × Nat) := {pairs_sn([(k, modes[k]) for k in ('proximity', 'allocation', 'direction') if k in modes])}",
           f"def modeConstants : List (String × Nat) := {pairs_sn([(k, consts[k]) for k in ('PROXIMITY', 'ALLOCATION', 'DIRECTION') if k in consts])}",
           "",
           "/-- `if max_distance is None: max_distance = np.inf` -/",
           f"def noneMeansInf : Bool := {'true' if nmi else 'false'}",
           "/-- default of `max_distance=` of proximity / allocation / direction -/",
           "def defaultMax : List String := [" + ", ".join(lean_str(defaults.get(f, {}).get("max_distance", "?"))
                                                         for f in ("proximity", "allocation", "direction")) + "]",
           "",
           "/-- dtype of a line buffer -/",
           "inductive BufDtype where",
           "  | imgDtype                 -- `<raster argument>.dtype`",
           "  | fixed (name : String)    -- `np.<name>` / a dtype string",
           "  | other                    -- anything else / not found",
           "  deriving DecidableEq, Repr",
           "/-- `_process_numpy`: `scan_line = np.zeros(width, dtype=...)`, the row buffer `_process_proximity_line` tests for targets -/",
           "def scanLineDtype : BufDtype := " + {"img": ".imgDtype", "fixed": f".fixed {lean_str(sld[1] or '')}", "other": ".other"}[sld[0]],
           "",
           "/-- the metric code `_process` works with for a metric string -/",
           "def resolveMetric (s : String) : Option Nat :=",
           "  match metricTable.lookup s with",
           "  | some m => some m",
           "  | none => metricFallback.bind (fun n => metricTable.lookup n)", "",
           "/-- the distance function `_distance` calls for a metric code -/",
           "def distanceFor (m : Nat) : String := (distanceDispatch.lookup m).getD distanceElse", "",
           "end XrsVerif.Gen.ProximityFacts", ""]
    rep = dict(metric_table=table, fallback=fb, dispatch=[[k, v] for k, v in disp], dispatch_else=other,
               process_mode=modes, defaults=defaults, none_means_inf=nmi, scan_line_dtype=list(sld),
               constants={k: consts[k] for k in ("EUCLIDEAN", "GREAT_CIRCLE", "MANHATTAN", "PROXIMITY", "ALLOCATION",
                                                 "DIRECTION") if k in consts})
    yield "ProximityFacts.lean", "\n".join(out), rep
