"""
C15 -- polygonize is lossless.

Tie:  H  the hand model (lean/XrsVerif/Model/Polygonize.lean: `_calculate_regions` with the merge lookup and
         compaction, `_follow` as a step function, `_scan`, the nx = 1 workaround, `_transform_points`) is
         run by the Lean driver on the same rasters as the real code; the region array, the column and
         every ring (vertex by vertex) are compared exactly.
Oracle (from the property statement, independent of the model): even-odd rasterisation of every ring at
the cell centres, exterior minus holes must reproduce exactly the flood-fill components of equal value
among unmasked cells with the right column value, every unmasked cell in exactly one polygon, masked
cells in none, shoelace area (exterior minus holes) = cell count, rings closed, exteriors anticlockwise,
holes clockwise, vertices on cell corners, axis-parallel edges; region ids are first-pixel ranks;
a transform maps every vertex of the untransformed result.
Wrapper glue (round 3): every raster dtype the public `polygonize()` accepts with values at the edges of the dtype
(value identity: the column value of a polygon must be *the raster's* value, compared as exact Python scalars);
transform classes (identity, translations, scalings / flips, quarter turns, shear, general affine, geotransforms)
handed over as list / tuple / ndarray of several dtypes, every vertex compared with the exact rational image of the
untransformed vertex; mask / column_name / return_type at their edges.  The facts the model needs about the wrapper
(casts, dropped transforms, the nx = 1 workaround) are read off the source by harness/facts_polygonize.py and are
proof obligations of Props/C15.lean (section "wrapper glue").
"""
import os
from concurrent.futures import ThreadPoolExecutor
from fractions import Fraction

import numpy as np
import xarray as xr
from numba import njit

import corr_C16 as G          # shared raster generators
from common import Driver, grid_tok, tok, untok

PROP = "C15"

# ---------------------------------------------------------------- watchdog
# `_follow` is a `while True` loop: a defect there makes the real code spin forever inside numba, where
# no Python signal handler runs.  The kernels release the GIL, so a watchdog thread can still see it:
# when one call of the real code takes longer than HANG_SECONDS the current case is reported as a
# failing input (key polygonize:hangs) and the process exits through Runner.finish().
HANG_SECONDS = float(os.environ.get("VERIF_HANG_SECONDS", "90"))
_current = {"case": None, "since": None, "runner": None, "started": False, "depth": 0}


def _watch():
    import time
    while True:
        time.sleep(1.0)
        since, case, r = _current["since"], _current["case"], _current["runner"]
        if since is not None and time.time() - since > HANG_SECONDS and r is not None:
            r.fail("polygonize:hangs", f"the call did not return within {HANG_SECONDS:.0f} s (boundary following never "
                   "comes back to its start)", case)
            rc = r.finish()
            os._exit(rc if rc else 1)


class guard:
    """with guard(r, case): <call the real code>"""

    def __init__(self, r, case):
        self.r, self.case = r, case

    def __enter__(self):
        import threading
        import time
        if not _current["started"]:
            _current["started"] = True
            threading.Thread(target=_watch, daemon=True).start()
        _current["depth"] += 1
        if _current["depth"] == 1:
            _current.update(case=self.case, since=time.time(), runner=self.r)

    def __exit__(self, *a):
        _current["depth"] -= 1
        if _current["depth"] == 0:
            _current.update(since=None)
        return False



# ---------------------------------------------------------------- oracle
@njit(cache=False)
def _crossings(enc, pos, npts, cx2, cy2):
    """even-odd: number of vertical ring edges strictly to the right of the (doubled) centre that span it"""
    c = 0
    for k in range(npts - 1):
        x0 = enc[pos + 2 * k]
        y0 = enc[pos + 2 * k + 1]
        x1 = enc[pos + 2 * k + 2]
        y1 = enc[pos + 2 * k + 3]
        if x0 == x1 and 2 * x0 > cx2:
            lo = min(y0, y1)
            hi = max(y0, y1)
            if 2 * lo < cy2 and cy2 < 2 * hi:
                c += 1
    return c


@njit(cache=False)
def _oracle(enc, values, mask, conn8):
    """enc = [regions (n), npoly, column (npoly), per polygon: nrings, per ring: npts, x0,y0,...]
       values float64 (ny,nx), mask bool (ny,nx).  0 = the property holds, else a code"""
    ny, nx = values.shape
    n = nx * ny
    # flood fill in scan order: component ids are first-pixel ranks
    comp = np.zeros((ny, nx), dtype=np.int64)
    stack = np.empty((n, 2), dtype=np.int64)
    ncomp = 0
    for j0 in range(ny):
        for i0 in range(nx):
            if not mask[j0, i0] or comp[j0, i0] != 0:
                continue
            v = values[j0, i0]
            ncomp += 1
            comp[j0, i0] = ncomp
            stack[0, 0] = j0
            stack[0, 1] = i0
            top = 1
            while top > 0:
                top -= 1
                j = stack[top, 0]
                i = stack[top, 1]
                for dj in range(-1, 2):
                    for di in range(-1, 2):
                        if dj == 0 and di == 0:
                            continue
                        if not conn8 and dj != 0 and di != 0:
                            continue
                        jj = j + dj
                        ii = i + di
                        if jj < 0 or jj >= ny or ii < 0 or ii >= nx:
                            continue
                        if mask[jj, ii] and comp[jj, ii] == 0 and values[jj, ii] == v:
                            comp[jj, ii] = ncomp
                            stack[top, 0] = jj
                            stack[top, 1] = ii
                            top += 1
    for ij in range(n):
        if enc[ij] != comp[ij // nx, ij % nx]:
            return 1
    pos = n
    npoly = enc[pos]
    pos += 1
    if npoly != ncomp:
        return 2
    colpos = pos
    pos += npoly
    owner = -np.ones((ny, nx), dtype=np.int64)
    comp_of_poly = np.zeros(npoly, dtype=np.int64)
    for p in range(npoly):
        nr = enc[pos]
        pos += 1
        if nr < 1:
            return 3
        rpos = np.empty(nr, dtype=np.int64)
        rlen = np.empty(nr, dtype=np.int64)
        area2 = 0
        for r in range(nr):
            npts = enc[pos]
            pos += 1
            rpos[r] = pos
            rlen[r] = npts
            if npts < 5:
                return 4
            if enc[pos] != enc[pos + 2 * (npts - 1)] or enc[pos + 1] != enc[pos + 2 * (npts - 1) + 1]:
                return 5
            a2 = 0
            for k in range(npts - 1):
                x0 = enc[pos + 2 * k]
                y0 = enc[pos + 2 * k + 1]
                x1 = enc[pos + 2 * k + 2]
                y1 = enc[pos + 2 * k + 3]
                if x0 < 0 or x0 > nx or y0 < 0 or y0 > ny:
                    return 6
                if (x0 == x1) == (y0 == y1):
                    return 7
                a2 += x0 * y1 - x1 * y0
            if r == 0 and a2 <= 0:
                return 8
            if r > 0 and a2 >= 0:
                return 9
            area2 += a2
            pos += 2 * npts
        count = 0
        for j in range(ny):
            for i in range(nx):
                cx2 = 2 * i + 1
                cy2 = 2 * j + 1
                if _crossings(enc, rpos[0], rlen[0], cx2, cy2) % 2 == 0:
                    continue
                inhole = False
                for r in range(1, nr):
                    if _crossings(enc, rpos[r], rlen[r], cx2, cy2) % 2 == 1:
                        inhole = True
                if inhole:
                    continue
                if owner[j, i] != -1:
                    return 10
                owner[j, i] = p
                count += 1
                if not mask[j, i]:
                    return 11
                if values[j, i] != enc[colpos + p]:
                    return 12
                if comp_of_poly[p] == 0:
                    comp_of_poly[p] = comp[j, i]
                elif comp_of_poly[p] != comp[j, i]:
                    return 13
        if count == 0:
            return 17
        if area2 != 2 * count:
            return 14
    if pos != len(enc):
        return 15
    for j in range(ny):
        for i in range(nx):
            if mask[j, i] and owner[j, i] == -1:
                return 16
    for a in range(npoly):
        for b in range(a + 1, npoly):
            if comp_of_poly[a] == comp_of_poly[b]:
                return 18
    return 0


CODES = {1: "region ids are not the first-pixel ranks of the connected components (masked = 0)",
         2: "number of polygons differs from the number of connected regions", 3: "a polygon without rings",
         4: "a ring with fewer than 4 vertices", 5: "a ring is not closed", 6: "a vertex is not a cell corner of the raster",
         7: "an edge is not axis-parallel (or has zero length)", 8: "an exterior ring is not anticlockwise",
         9: "a hole ring is not clockwise", 10: "a cell centre lies in two polygons", 11: "a masked cell lies in a polygon",
         12: "a cell's value differs from the value of the polygon containing it",
         13: "a polygon covers cells of two different connected regions",
         14: "polygon area (exterior minus holes) differs from its cell count", 15: "malformed output",
         16: "an unmasked cell lies in no polygon", 17: "a polygon covers no cell", 18: "a connected region is split into two polygons"}


def encode(regs, column, polys, col_ok=True):
    enc = [int(v) for v in regs]
    enc.append(len(polys))
    enc.extend(int(v) for v in column)
    for rings in polys:
        enc.append(len(rings))
        for ring in rings:
            enc.append(len(ring))
            enc.extend(np.asarray(ring).astype(np.int64).ravel().tolist())
    return enc


def real_internal(values, mask, conn8, layout="C", mlayout="C"):
    """(regions, column, polygons) from the internals (no xarray), values 2-D (logical, row-major);
    `_polygonize_numpy` gets the same values under the memory layouts `layout` / `mlayout`"""
    from xrspatial.experimental.polygonize import _calculate_regions, _polygonize_numpy
    ny, nx = values.shape
    regs = _calculate_regions(values.ravel(), None if mask is None else mask.ravel(), conn8, nx, ny)
    column, polys = _polygonize_numpy(G.lay(values, layout), None if mask is None else G.lay(mask, mlayout), conn8, None)
    return regs, column, polys


# memory layouts of the enumerated rasters: chosen by a multiplicative hash of the raster number, so that the
# layout is not correlated with the first cells of the raster (no read-only: one numba specialisation less)
ENUM_LAYOUTS = ["C", "F", "strided", "neg", "T", "stridedF", "negrow", "C"]


def enum_layouts(t):
    x = (t * 2654435761 + 12345) & 0xFFFFFFFF
    return ENUM_LAYOUTS[(x >> 13) % len(ENUM_LAYOUTS)], ENUM_LAYOUTS[(x >> 21) % len(ENUM_LAYOUTS)]


# ---------------------------------------------------------------- enumeration
ENUM_PLAN = {
    "quick": [(["0", "1"], 9), (["0", "1", "2"], 6), (["0", "1", "m"], 6), (["0", "1", "2", "m"], 5)],
    "thorough": [(["0", "1"], 12), (["0", "1", "2"], 11), (["0", "1", "m"], 11), (["0", "1", "2", "m"], 8)],
}


def enum_arrays(h, w, alphabet, t):
    k = len(alphabet)
    vals, msk = [], []
    for _ in range(h * w):
        s = alphabet[t % k]
        t //= k
        vals.append(0 if s == "m" else int(s))
        msk.append(s != "m")
    values = np.array(vals, dtype=np.int64).reshape(h, w)
    mask = np.array(msk, dtype=bool).reshape(h, w) if "m" in alphabet else None
    return values, mask


def run_enum_stream(r, plan):
    if not isinstance(r.nontrivial, G.Counted):
        r.nontrivial = G.Counted(r.nontrivial)
    jobs = []
    for alphabet, maxcells in plan:
        k = len(alphabet)
        for (h, w) in G.shapes_upto(maxcells):
            total = k ** (h * w)
            step = 20000
            for conn in (4, 8):
                for t0 in range(0, total, step):
                    jobs.append((alphabet, h, w, conn, t0, min(step, total - t0)))
    drv = Driver()
    lay_hist = {}

    def model(job):
        alphabet, h, w, conn, t0, cnt = job
        rep = drv.ask([f"polygonize_enum rows={h} cols={w} conn={conn} alphabet={','.join(alphabet)} from={t0} count={cnt}"])[0]
        return rep.split(";")

    with ThreadPoolExecutor(max_workers=12) as ex:
        for job, mo in zip(jobs, ex.map(model, jobs)):
            alphabet, h, w, conn, t0, cnt = job
            ones = np.ones((h, w), dtype=bool)
            nfail = ndis = 0
            for dt in range(cnt):
                values, mask = enum_arrays(h, w, alphabet, t0 + dt)
                lay_, mlay_ = enum_layouts(t0 + dt)
                c = dict(kind="enum", rows=h, cols=w, conn=conn, alphabet=alphabet, t=t0 + dt, tag="enum", layout=lay_, mlayout=mlay_)
                try:
                    with guard(r, c):
                        regs, column, polys = real_internal(values, mask, conn == 8, lay_, mlay_)
                    enc = encode(regs, column, polys)
                except Exception as ex_:  # noqa: BLE001 -- any crash of the real code on a valid raster is a finding
                    r.fail("polygonize:raises", f"raised {type(ex_).__name__}: {ex_}", c)
                    continue
                code = _oracle(np.array(enc, dtype=np.int64), values.astype(np.float64), ones if mask is None else mask, conn == 8)
                if code and nfail < 3:
                    nfail += 1
                    r.fail("polygonize:lossless", CODES[int(code)] + f" (connectivity={conn}, raster layout={lay_}, mask layout={mlay_})", c)
                if ",".join(map(str, enc)) != mo[dt] and ndis < 3:
                    ndis += 1
                    r.disagree("enum", c, ",".join(map(str, enc))[:400], mo[dt][:400])
                lay_hist[lay_] = lay_hist.get(lay_, 0) + 1
            r.evaluations += cnt
            r.tag(f"enum:k{len(alphabet)}{'m' if 'm' in alphabet else ''}:cells{h * w}", cnt)
            r.nontrivial.extra += (cnt - (len(alphabet) if t0 == 0 else 0)) if h * w >= 2 else 0
            r.extra["enum_rasters"] = r.extra.get("enum_rasters", 0) + cnt
    r.extra["enum_plan"] = [dict(alphabet=a, max_cells=m) for a, m in plan]
    for k_, v_ in lay_hist.items():
        r.tag("enum:layout:" + k_, v_)


# ---------------------------------------------------------------- random / structured cases
DYADIC_TRANSFORMS = [[1, 0, 0, 0, 1, 0], [2, 0, 10, 0, -1, 5], [0.5, 0, -3, 0, 0.25, 7], [0, 1, 0, 1, 0, 0],
                     [1, 0.5, 0, -0.5, 1, 2], [30, 0, 500000, 0, -30, 4100000], [-1, 0, 0, 0, -1, 0]]
WILD_TRANSFORMS = [[0.1, 0, 3.3, 0, -0.1, 7.7], [1e-3, 2e-3, 1.0, -3e-3, 1e-3, 2.0]]


def nested(h, w):
    a = np.zeros((h, w), dtype=np.int64)
    for k in range(0, (min(h, w) + 1) // 2):
        a[k:h - k, k:w - k] = k % 2
    return a


def pinch(rng, h, w):
    """diagonal pinch points: 2x2 blocks touching at corners"""
    a = np.zeros((h, w), dtype=np.int64)
    for j in range(h):
        for i in range(w):
            a[j, i] = ((j // rng.choice([1, 2])) + (i // 2)) % 2 if rng.random() < 0.9 else rng.randrange(2)
    return a


def holes_touching_border(rng, h, w):
    a = np.ones((h, w), dtype=np.int64)
    for _ in range(rng.randrange(1, 5)):
        j, i = rng.randrange(h), rng.randrange(w)
        a[j:j + rng.randrange(1, 3), i:i + rng.randrange(1, 3)] = rng.choice([0, 2])
    return a


def gen_case(rng, big=False):
    mode = rng.choice(["rand", "rand", "blob", "struct", "struct", "line", "nested", "pinch", "holes", "diag", "spiral", "one"])
    hi = 12 if big else 7
    h, w = rng.randrange(1, hi + 1), rng.randrange(1, hi + 2)
    if mode == "one":
        h = w = 1
    if mode == "line":
        if rng.random() < 0.5:
            h, w = 1, rng.randrange(1, 25)
        else:
            h, w = rng.randrange(1, 25), 1
    if mode == "struct" and h >= 2 and w >= 2:
        kind, a = G.structured(rng, h, w)
        tag = "struct:" + kind
    elif mode == "nested" and h >= 3 and w >= 3:
        a = nested(h, w)
        tag = "struct:nested"
    elif mode == "pinch":
        a = pinch(rng, h, w)
        tag = "struct:pinch"
    elif mode == "holes":
        a = holes_touching_border(rng, h, w)
        tag = "struct:holes"
    elif mode == "diag" and h >= 3 and w >= 3:
        a = G.diag_tree(rng, h, w)
        tag = "struct:diag"
    elif mode == "spiral" and h >= 3 and w >= 3:
        a = G.spiral(h, w)
        if rng.random() < 0.5:
            a = a[::-1, :].copy()
        if rng.random() < 0.5:
            a = a.T.copy()
        tag = "struct:spiral"
    else:
        nvals = rng.choice([1, 2, 2, 3, 4])
        a = G.random_raster(rng, h, w, nvals, 0.0, flip_p=0.35 if mode == "blob" else None).astype(np.int64)
        tag = mode if mode in ("rand", "blob", "line", "one") else "rand"
    h, w = a.shape
    # every (raster dtype, mask dtype, transform?) combination is a separate numba compilation (~3 s):
    # keep the set of combinations small
    dtype, mdtype = rng.choice([("int64", "bool"), ("int64", "bool"), ("int64", "int64"), ("int32", "bool"), ("uint8", "uint8"),
                               ("float64", "bool"), ("float64", "float64"), ("float32", "bool")])
    mk = rng.choice(["none", "none", "rand", "rand", "border", "all", "zero"])
    mask = None
    if mk == "rand":
        p = rng.choice([0.1, 0.3, 0.6])
        mask = [[0 if rng.random() < p else 1 for _ in range(w)] for _ in range(h)]
    elif mk == "border":
        mask = [[0 if (j in (0, h - 1) or i in (0, w - 1)) and rng.random() < 0.8 else 1 for i in range(w)] for j in range(h)]
    elif mk == "all":
        mask = [[1] * w for _ in range(h)]
    elif mk == "zero":
        mask = [[0] * w for _ in range(h)]
    tr = rng.choice(DYADIC_TRANSFORMS) if rng.random() < 0.5 and (dtype, mdtype) in (("int64", "bool"), ("float64", "bool")) else None
    layout, mlayout = pick_layouts(rng, dtype, mdtype, tr, mask is not None)
    return dict(kind="grid", conn=rng.choice([4, 8]), dtype=dtype, grid=[[tok(v) for v in row] for row in a.tolist()],
                mask=mask, mdtype=mdtype, transform=tr, tag=tag, masktag="mask:" + mk, layout=layout, mlayout=mlayout)


def pick_layouts(rng, dtype, mdtype, tr, has_mask):
    """memory layouts of the raster and of the mask handed to polygonize (the model / oracle see the logical
    raster).  A C-ordered read-only array stays read-only after ravel(): that is one more numba specialisation
    of the whole pipeline (~3 s), so it is only drawn for int64 or float64 raster / bool mask / no transform, raster and
    mask together; every other layout reaches the kernels as a fresh C-ordered copy or view."""
    layout = G.pick_layout(rng, None)
    mlayout = G.pick_layout(rng, None, cheap=True) if has_mask else "C"
    if layout == "readonly":
        if (dtype, mdtype) in (("int64", "bool"), ("float64", "bool")) and tr is None:
            mlayout = "readonly" if has_mask else "C"
        else:
            layout = rng.choice(["readonlyF"] + G.NUMBA_CHEAP_LAYOUTS)
    return layout, mlayout


# ---------------------------------------------------------------- many regions / lookup-table boundary
def lookup_profile(a, maskb, conn8):
    """For the evidence histogram only (never used for a verdict): how the labelling pass of a one-pass
    W/S(/SW/SE) labelling with a merge table of initial size max(64, nx, ny), doubled or extended to
    upper+1 on demand, behaves on this raster: number of provisional ids, final table size, how often it
    grew, whether a growth jumped past twice the size, whether the last slot of the final table holds a
    merge, whether ids beyond the table exist, whether an already merged id was re-linked."""
    ny, nx = a.shape
    v = a.ravel().tolist()
    m = maskb.ravel().tolist()
    raw = [0] * (nx * ny)
    size = max(64, nx, ny)
    lk = {}
    region = grown = 0
    jump = relink = False
    for ij in range(nx * ny):
        if not m[ij]:
            continue
        i = ij % nx
        mw = i > 0 and m[ij - 1] and v[ij] == v[ij - 1]
        rw = raw[ij - 1] if mw else 0
        ms = ij >= nx and m[ij - nx] and v[ij] == v[ij - nx]
        rs = raw[ij - nx] if ms else 0
        if conn8 and ij >= nx:
            if not mw and i > 0 and m[ij - nx - 1] and v[ij] == v[ij - nx - 1]:
                mw, rw = True, raw[ij - nx - 1]
            if not ms and i < nx - 1 and m[ij - nx + 1] and v[ij] == v[ij - nx + 1]:
                ms, rs = True, raw[ij - nx + 1]
        if mw and ms:
            lo, up = min(rw, rs), max(rw, rs)
            raw[ij] = lo
            if lo != up:
                if up >= size:
                    jump = jump or up + 1 > 2 * size
                    size = max(up + 1, 2 * size)
                    grown += 1
                while True:
                    prev = lk.get(up, 0)
                    again = prev != 0 and prev != lo
                    if again:
                        relink = True
                        lo, prev = min(lo, prev), max(lo, prev)
                    lk[up] = lo
                    if not again:
                        break
                    up = prev
        elif mw:
            raw[ij] = rw
        elif ms:
            raw[ij] = rs
        else:
            region += 1
            raw[ij] = region
    return dict(ids=region, size=size, grown=grown, jump=jump, relink=relink, merges=len(lk),
                last_slot=lk.get(size - 1, 0) != 0, beyond=region >= size,
                near_last=any(lk.get(size - 1 + d, 0) != 0 for d in (-2, -1, 1, 2)))


def profile_tags(pr):
    tags = ["lookup:ids>=%d" % b for b in (63, 127, 255, 511) if pr["ids"] >= b][-1:] or ["lookup:ids<63"]
    tags.append("lookup:table=%d" % pr["size"] if pr["size"] in (64, 128, 256, 512, 1024) else "lookup:table=other")
    tags.append("lookup:grown=%d" % min(pr["grown"], 3))
    for k in ("jump", "relink", "last_slot", "near_last", "beyond"):
        if pr[k]:
            tags.append("lookup:" + k)
    return tags


def gen_lookup(rng, max_cells=1000):
    """rasters with 60 .. 1000 provisional regions and merges recorded at chosen ids: at and around the last
    slot of the merge table (63/64/65, 127/128, 255/256 ..., table sizes max(64,nx,ny)*2^k), first merges that
    jump far beyond twice the table size, merges spread widely, dense re-linking merges (corr_C16.many_raster)"""
    a, info = G.many_raster(rng, max_cells)
    h, w = a.shape
    dtype, mdtype = rng.choice([("int64", "bool"), ("int64", "bool"), ("float64", "bool")])
    mask = None
    mk = "none"
    if rng.random() < 0.15:
        mk = "rand"
        mask = [[0 if rng.random() < 0.03 else 1 for _ in range(w)] for _ in range(h)]
    layout, mlayout = pick_layouts(rng, dtype, mdtype, None, mask is not None)
    if layout == "readonly":
        layout = "readonlyF"
        mlayout = "F" if mask is not None else "C"
    return dict(kind="grid", conn=rng.choice([4, 8]), dtype=dtype, grid=[[tok(v) for v in row] for row in a.tolist()],
                mask=mask, mdtype=mdtype, transform=None, tag="lookup:" + info["gen"], masktag="mask:" + mk, layout=layout,
                mlayout=mlayout, info=info)


def gen_wild(rng):
    """outside the oracle's domain (NaN / inf / nearly equal floats / big ints): model vs code only"""
    h, w = rng.randrange(1, 6), rng.randrange(1, 7)
    mode = rng.choice(["tol", "naninf", "bigint"])
    if mode == "tol":
        pool = [1.0, 1.000001, 1.000002, 1.00002, 1.00004, 0.99999, 2.0, 2.00001, 0.0, 1e-9, 5e-9, -1e-9]
        dtype = "float64"
    elif mode == "naninf":
        pool = [1.0, 2.0, float("inf"), float("-inf"), float("nan"), 1.0, 2.0]
        dtype = "float64"
    else:
        pool = [100000, 100001, 100003, 250000, 250002, 7]
        dtype = rng.choice(["int64", "float64"])
    a = np.array([rng.choice(pool) for _ in range(h * w)], dtype=np.float64).reshape(h, w)
    mask = [[0 if rng.random() < 0.2 else 1 for _ in range(w)] for _ in range(h)] if rng.random() < 0.4 else None
    return dict(kind="grid", conn=rng.choice([4, 8]), dtype=dtype, grid=[[tok(v) for v in row] for row in a.tolist()],
                mask=mask, mdtype="bool", transform=None, tag="wild:" + mode, masktag="mask:" + ("rand" if mask else "none"), wild=True,
                layout=G.pick_layout(rng, None, cheap=True), mlayout=G.pick_layout(rng, None, cheap=True))


# ---------------------------------------------------------------- wrapper glue: dtype classes, transform classes
WRAPPER_DTYPES = ["int8", "int16", "int32", "int64", "uint8", "uint16", "uint32", "uint64", "float32", "float64", "bool"]


def _separated(vals):
    """greedy subset in which two different values are never `_is_close` (|a - b| <= 1e-8 + 1e-5 |ref|) -- by a wide
    margin, so that for float rasters 'close' and 'equal' coincide and the oracle (equality) is in the property's domain"""
    out = []
    for v in vals:
        if all(v == w or (abs(v - w) > 1e-3 * max(abs(v), abs(w)) and abs(v - w) > 1e-4) for w in out):
            out.append(v)
    return out


def dtype_pool(dtype):
    """values at the edges of a raster dtype (exact Python scalars)"""
    if dtype == "bool":
        return [False, True]
    dt = np.dtype(dtype)
    if dt.kind in "iu":
        info = np.iinfo(dt)
        cand = [info.min, info.max, info.min + 1, info.max - 1, 0, 1, 2, -1, info.max // 2 + 7, info.min // 2 - 3, 100000, 100001,
                2 ** 24 + 1, 2 ** 31 - 1, 2 ** 31, 2 ** 32 - 1, 2 ** 53, 2 ** 53 + 1, -(2 ** 53) - 1, 2 ** 62 + 1, 2 ** 63 - 1,
                2 ** 63, 2 ** 63 + 1, 2 ** 64 - 2]
        seen = []
        for v in cand:
            if info.min <= v <= info.max and v not in seen:
                seen.append(v)
        return seen            # integers are compared exactly by `_is_close`: neighbours are different values
    fi = np.finfo(dt)
    big = float(fi.max)
    cand = [0.0, -0.0, big, -big, 1.0, -1.0, 0.5, 2.0 ** -10, 2.0 ** 24 + 2, 2.0 ** 31, 2.0 ** 53 + 2, -(2.0 ** 53) - 2, 2.0 ** 63,
            1.5 * 2.0 ** 64, 1e30, -1e30, 1e300, -1e300, 65537.25, 0.1, 3.0, 2.0]
    vals = []
    for v in cand:
        w = float(dt.type(v)) if abs(v) <= big else None
        if w is not None and np.isfinite(w) and not any(w == u and np.signbit(w) == np.signbit(u) for u in vals):
            vals.append(w)
    return vals


def edge_tags(a):
    """evidence histogram: which edges of the dtype the raster touches"""
    vals = set(a.ravel().tolist())
    tags = []
    if a.dtype.kind in "iu":
        info = np.iinfo(a.dtype)
        if info.min in vals and info.min < 0:
            tags.append("edge:int-min")
        if info.max in vals:
            tags.append("edge:int-max")
        if any(abs(v) > 2 ** 53 for v in vals):
            tags.append("edge:>2^53")
        if any(v >= 2 ** 63 for v in vals):
            tags.append("edge:>=2^63")
        big = sorted(v for v in vals if abs(v) >= 10 ** 5)
        if any(b - a_ <= 1e-5 * abs(a_) for a_, b in zip(big, big[1:])):
            tags.append("edge:relatively-close-ints")
    elif a.dtype.kind == "f":
        if np.any(np.signbit(a) & (a == 0)):
            tags.append("edge:-0.0")
        if any(abs(v) == float(np.finfo(a.dtype).max) for v in vals):
            tags.append("edge:float-max")
        if any(abs(v) > 2 ** 53 for v in vals):
            tags.append("edge:>2^53")
    return tags


def gen_dtype_case(rng):
    """a small raster of one of the wrapper's dtypes over 2-4 values drawn from the edges of that dtype (plus small
    ones), every cell an exact Python scalar"""
    dtype = rng.choice(WRAPPER_DTYPES + ["uint64", "int64", "float64", "float32"])
    pool = dtype_pool(dtype)
    near = False
    if dtype == "bool":
        alphabet = [False, True]
    elif np.dtype(dtype).kind in "iu" and rng.random() < 0.35:
        # large ids whose neighbours differ by 1: v, v+1, v+2, ... with |v| log-uniform from 1e5 (below that from half the
        # range) up to the edge of the dtype -- different integers that are *relatively* close (|a - b| <= 1e-5 |a|)
        info = np.iinfo(np.dtype(dtype))
        n = rng.choice([2, 3, 3, 4])
        lo_mag = 10 ** 5 if info.max > 10 ** 6 else info.max // 2
        mag = int(round(10 ** rng.uniform(np.log10(lo_mag), np.log10(info.max))))
        mag = rng.choice([mag, mag, 10 ** rng.randrange(5, 10), info.max]) if info.max > 10 ** 6 else mag
        base = min(mag, info.max - n + 1)
        if info.min < 0 and rng.random() < 0.4:
            base = max(-mag, info.min)
        alphabet = [base + k for k in range(n)]
        near = True
    else:
        picks = rng.sample(pool, min(len(pool), rng.choice([2, 3, 3, 4])))
        if rng.random() < 0.3:
            picks += [type(pool[0])(v) for v in (1, 2)]
        alphabet = picks if np.dtype(dtype).kind in "iu" else _separated(picks)
    mode = rng.choice(["rand", "rand", "blob", "line", "col", "one", "struct"])
    h, w = rng.randrange(1, 6), rng.randrange(1, 7)
    if mode == "line":
        h, w = 1, rng.randrange(1, 12)
    elif mode == "col":
        h, w = rng.randrange(1, 12), 1
    elif mode == "one":
        h = w = 1
    if mode == "struct" and h >= 2 and w >= 2:
        _, idx = G.structured(rng, h, w)
        idx = np.asarray(idx, dtype=np.int64) % len(alphabet)
    else:
        idx = G.random_raster(rng, h, w, len(alphabet), 0.0, flip_p=0.35 if mode == "blob" else None).astype(np.int64) % len(alphabet)
    h, w = idx.shape
    grid = [[vtok(alphabet[k]) for k in row] for row in idx.tolist()]
    # masks: None / bool / nothing selected / a non-bool dtype (one extra numba specialisation each: only for int64)
    mk = rng.choice(["none", "none", "rand", "zero", "all"])
    mdtype = "bool"
    if mk != "none" and dtype == "int64" and rng.random() < 0.5:
        mdtype = rng.choice(["int8", "float32"])
    if dtype == "int32":            # (int32, bool mask) and (uint8, uint8 mask) are compiled for the random stream anyway
        mk = "all" if mk == "none" else mk
    elif dtype == "uint8":
        mk, mdtype = ("all" if mk == "none" else mk), "uint8"
    elif mk != "none" and dtype not in ("int64", "uint64", "float64", "float32"):
        mk = "none"
    mask = None
    if mk == "rand":
        mask = [[0 if rng.random() < 0.3 else 1 for _ in range(w)] for _ in range(h)]
    elif mk == "zero":
        mask = [[0] * w for _ in range(h)]
    elif mk == "all":
        mask = [[1] * w for _ in range(h)]
    kwargs = None
    if rng.random() < 0.3:
        kwargs = rng.choice([dict(column_name="value"), dict(column_name=""), dict(return_type="numpy"),
                             dict(column_name="DN", return_type="numpy")])
    return dict(kind="grid", exact=True, conn=rng.choice([4, 8]), dtype=dtype, grid=grid, mask=mask, mdtype=mdtype, transform=None,
                tag="dtype-edge:" + mode + (":near-ints" if near else ""), masktag="mask:" + mk, layout=G.pick_layout(rng, None, cheap=True),
                mlayout=G.pick_layout(rng, None, cheap=True) if mask is not None else "C", kwargs=kwargs)


def _dy(rng, lo=-64, hi=64, bits=4):
    """a dyadic rational k / 2**s as int (when whole) or float"""
    sft = rng.randrange(0, bits + 1)
    v = Fraction(rng.randrange(lo * 2 ** sft, hi * 2 ** sft + 1), 2 ** sft)
    return int(v) if v.denominator == 1 else float(v)


def gen_transform(rng):
    """(class, six coefficients) -- ints stay ints, so that a list / tuple / integer ndarray can carry them"""
    cls = rng.choice(["identity", "translate-int", "translate-int", "translate-frac", "translate-frac", "scale", "flip", "rot90",
                      "shear", "affine-dyadic", "geo-dyadic", "geo", "affine", "degenerate"])
    off = lambda: rng.choice([0, 1, -1, 3, 10, -7, 250, 1000, -4096, 500000, 4100000])     # noqa: E731
    if cls == "identity":
        t = [1, 0, 0, 0, 1, 0]
    elif cls == "translate-int":
        t = [1, 0, off(), 0, 1, off()]
        if t[2] == 0 and t[5] == 0:
            t[rng.choice([2, 5])] = rng.choice([1, -3, 20])
    elif cls == "translate-frac":
        t = [1, 0, rng.choice([0.5, -0.25, 3.5, 0.125, 1000.75, 0]), 0, 1, rng.choice([0.5, -2.5, 7.25, 0, 0.0625])]
        if t[2] == 0 and t[5] == 0:
            t[2] = 0.5
    elif cls == "scale":
        t = [rng.choice([2, 3, 0.5, 0.25, 30, 10, 1]), 0, off(), 0, rng.choice([2, 5, 0.5, 0.125, 30, 1]), off()]
    elif cls == "flip":
        t = [rng.choice([1, -1, -2, 30, -0.5]), 0, off(), 0, rng.choice([-1, -30, -0.5, -2]), off()]
    elif cls == "rot90":
        t = list(rng.choice([[0, -1, 0, 1, 0, 0], [0, 1, 0, -1, 0, 0], [-1, 0, 0, 0, -1, 0], [0, 1, 0, 1, 0, 0], [0, -1, 0, -1, 0, 0]]))
        t[2], t[5] = off(), off()
    elif cls == "shear":
        k = rng.choice([1, -1, 2, 0.5, -0.25])
        t = [1, k, off(), 0, 1, off()] if rng.random() < 0.5 else [1, 0, off(), k, 1, off()]
    elif cls == "affine-dyadic":
        t = [_dy(rng) for _ in range(6)]
    elif cls == "geo-dyadic":
        t = list(rng.choice([[30, 0, 500000, 0, -30, 4100000], [0.5, 0, -180, 0, -0.5, 90], [0.25, 0, -180, 0, -0.25, 90],
                             [10, 0, 399960, 0, -10, 5300040], [0.0078125, 0, 12.5, 0, -0.0078125, 47.75]]))
    elif cls == "geo":
        t = list(rng.choice([[0.1, 0, 3.3, 0, -0.1, 7.7], [0.0002777777777777778, 0, -122.5, 0, -0.0002777777777777778, 45.3],
                             [0.008333333333333333, 0, -180, 0, -0.008333333333333333, 83.99958],
                             [28.5, 1.3, 445678.9, -1.3, -28.5, 4123456.7]]))
    elif cls == "affine":
        t = [rng.uniform(-3, 3) for _ in range(6)]
    else:
        t = [0, 0, off(), 0, 0, off()]
    return cls, t


def transform_forms(t):
    """the ways this coefficient list can be handed over without changing a coefficient"""
    forms = ["list", "tuple", "nd:float64", "nd:float64", "nd:float64:strided"]
    whole = all(isinstance(v, int) or float(v).is_integer() for v in t)
    if whole and all(abs(v) < 2 ** 31 for v in t):
        forms += ["nd:int64", "nd:int32"]
    if all(float(np.float32(v)) == float(v) for v in t):
        forms.append("nd:float32")
    return forms


def gen_transform_case(rng, k):
    """a raster of the structured / random generator (int64 or float64, mask none or bool -- the numba
    specialisations that exist anyway) with a transform of one of the classes, in one of the forms"""
    c = gen_case(rng, big=(k % 4 == 0))
    if k % 5 == 0:
        # uniform rasters and single rows / columns: the shapes where glue code likes to take short cuts
        h, w = rng.choice([(1, 1), (1, rng.randrange(2, 9)), (rng.randrange(2, 9), 1), (rng.randrange(2, 6), rng.randrange(2, 6))])
        v = rng.choice(["0", "1", "7"])
        c["grid"] = [[v] * w for _ in range(h)]
        c["tag"] = "uniform"
        if c["mask"] is not None:
            c["mask"] = [[1] * w for _ in range(h)] if rng.random() < 0.5 else None
            c["masktag"] = "mask:all" if c["mask"] is not None else "mask:none"
    c["dtype"] = rng.choice(["int64", "int64", "float64"])
    c["mdtype"] = "bool"
    cls, t = gen_transform(rng)
    c["transform"] = t
    forms = transform_forms(t)
    if c["dtype"] == "float64" or c["mask"] is not None:
        # only (int64 raster, no mask) is compiled for every transform dtype; elsewhere the wrapper must end up with a
        # float64 array: an ndarray, or a list / tuple holding at least one float
        forms = ["list", "tuple", "nd:float64"]
        c["transform"] = t = [float(v) if k == 0 else v for k, v in enumerate(t)]
    c["tform"] = rng.choice(forms)
    c["tclass"] = cls
    if c["layout"] == "readonly":
        c["layout"], c["mlayout"] = "readonlyF", "F"
    if rng.random() < 0.2:
        c["kwargs"] = rng.choice([dict(column_name="value"), dict(return_type="numpy")])
    return c


def materialise(c):
    if c["kind"] == "enum":
        values, mask = enum_arrays(c["rows"], c["cols"], c["alphabet"], c["t"])
        return values, mask
    if c.get("exact"):
        # every cell an exact Python scalar (ints beyond 2**53, -0.0): no detour through float64
        a = np.array([[pyval(t, c["dtype"]) for t in row] for row in c["grid"]], dtype=c["dtype"])
    else:
        a = np.array([[untok(t) for t in row] for row in c["grid"]], dtype=np.float64).astype(c["dtype"])
    mask = None
    if c.get("mask") is not None:
        mask = np.array(c["mask"], dtype=np.float64).astype(c.get("mdtype", "bool"))
    return a, mask


def frac_tok(x):
    f = Fraction(float(x))
    return str(f.numerator) if f.denominator == 1 else f"{f.numerator}/{f.denominator}"


def val_tok(v):
    v = v.item() if isinstance(v, np.generic) else v
    if isinstance(v, float):
        if v != v:
            return "nan"
        if v in (float("inf"), float("-inf")):
            return "inf" if v > 0 else "-inf"
        return frac_tok(v)
    return str(int(v))


def render(column, polys):
    return ("col=" + ",".join(val_tok(v) for v in column) + " polys=" +
            "|".join(";".join(",".join(f"{frac_tok(p[0])}:{frac_tok(p[1])}" for p in ring) for ring in rings) for rings in polys))


def as_dataarray(a, layout):
    """DataArray over the values of `a` stored under `layout` (no copy afterwards)"""
    if layout == "xrT" and a.ndim == 2:
        return xr.DataArray(np.ascontiguousarray(a.T), dims=("dim_1", "dim_0")).transpose("dim_0", "dim_1")
    return xr.DataArray(G.lay(a, layout))


def make_transform(transform, tform):
    """the transform object handed to polygonize: `tform` None = float64 ndarray (the historical default of this
    harness), 'list' / 'tuple' = the Python numbers as they are (ints stay ints), 'nd:<dtype>' = ndarray of that dtype,
    'nd:float64:strided' = a non-contiguous float64 view"""
    if transform is None:
        return None
    if tform is None:
        return np.array(transform, dtype=np.float64)
    if tform == "list":
        return list(transform)
    if tform == "tuple":
        return tuple(transform)
    if tform == "nd:float64:strided":
        big = np.full(2 * len(transform) + 1, 77.0)
        v = big[1::2][:len(transform)]
        v[...] = transform
        return v
    return np.array(transform, dtype=tform.split(":")[1])


def call_public(a, mask, conn, transform, layout="C", mlayout="C", tform=None, kwargs=None):
    from xrspatial.experimental.polygonize import polygonize
    ra = as_dataarray(a, layout)
    rm = None if mask is None else as_dataarray(mask, mlayout)
    tobj = make_transform(transform, tform)
    tcopy = None if tobj is None else (np.array(tobj, copy=True) if isinstance(tobj, np.ndarray) else type(tobj)(tobj))
    try:
        col, polys = polygonize(ra, mask=rm, connectivity=conn, transform=tobj, **(kwargs or {}))
    except ValueError as ex:
        return "ValueError", str(ex), None
    except Exception as ex:  # noqa: BLE001 -- any other exception on a valid raster is a finding
        return type(ex).__name__, str(ex), None
    if not np.array_equal(np.asarray(ra.data), a, equal_nan=(a.dtype.kind == "f")):
        return "ok", (col, polys), "the input raster was modified"
    if rm is not None and not np.array_equal(np.asarray(rm.data), mask, equal_nan=(mask.dtype.kind == "f")):
        return "ok", (col, polys), "the mask was modified"
    if tobj is not None and not (type(tobj) is type(tcopy) and np.array_equal(np.asarray(tobj), np.asarray(tcopy))):
        return "ok", (col, polys), "the transform argument was modified"
    return "ok", (col, polys), None


def model_request(a, mask, conn, transform, cmd="polygonize"):
    h_, w_ = a.shape
    g = (f"{h_}x{w_}:" + ",".join(tok(v) for v in a.ravel().tolist())) if a.dtype.kind in "iub" else grid_tok(a.astype(np.float64))
    parts = [f"{cmd} conn={conn} dtype={'int' if a.dtype.kind in 'iu' else 'float'} g={g}"]
    if mask is not None:
        parts.append(f"mask={grid_tok((np.asarray(mask) != 0).astype(np.float64))}")
    if transform is not None:
        parts.append("t=" + ",".join(tok(float(v)) for v in transform))
    return " ".join(parts)


MODEL_MAX_CELLS_LOOKUP = 1700


def check_case(r, c, requests, pending, model=True):
    with guard(r, c):
        _check_case(r, c, requests, pending, model)


def pyval(t, dtype):
    """token of an exact raster -> Python scalar"""
    if dtype == "bool":
        return t not in ("0", "False")
    if np.dtype(dtype).kind in "iu":
        return int(t)
    return -0.0 if t == "-0" else untok(t)


def vtok(v):
    """exact token of a Python scalar (keeps the sign of zero)"""
    if isinstance(v, float) and v == 0 and np.signbit(v):
        return "-0"
    return tok(v)


def rank_encode(a, col):
    """Value identity in the raster's own dtype: the distinct raster values -- exact Python scalars (`tolist()`), so
    2**64 - 1 stays 2**64 - 1 and an int is never confused with a rounded float -- are numbered, and every column
    value is looked up among them by Python equality (numeric: 5 == 5.0, -0.0 == 0.0; exact: 2**53 + 1 != 2.0**53).
    Returns (ranks of the cells, ranks of the column; -1 = not a value of the raster)."""
    flat = a.ravel().tolist()
    num = {}
    for v in flat:
        num.setdefault(v, len(num))
    ranks = np.array([num[v] for v in flat], dtype=np.float64).reshape(a.shape)
    colr = []
    for v in col:
        v = v.item() if isinstance(v, np.generic) else v
        colr.append(num.get(v, -1) if v == v else -1)
    return ranks, colr


def transform_mismatch(tr, polys0, polys):
    """oracle of the transform clause: every returned vertex is the affine image of the corresponding vertex of the
    call without a transform.  The image is computed in exact rationals; when the float64 evaluation
    a*x + b*y + c is exact in every step (dyadic coefficients of moderate size) the returned coordinate must equal it
    exactly, otherwise within 16 ulp of the sum of the magnitudes of the three terms.
    Returns (text or None, every vertex was exact)."""
    if len(polys0) != len(polys) or any(len(x) != len(y) for x, y in zip(polys0, polys)):
        return "the transform changed the number of polygons / rings", False
    ft = [Fraction(v) for v in tr]
    fl = [float(v) for v in tr]
    all_exact = True
    memo = {}
    for rings0, rings1 in zip(polys0, polys):
        for r0, r1 in zip(rings0, rings1):
            if len(r0) != len(r1):
                return "the transform changed the number of vertices", False
            for p0, p1 in zip(np.asarray(r0).tolist(), np.asarray(r1).tolist()):
                key = (p0[0], p0[1])
                if key not in memo:
                    x, y = Fraction(p0[0]), Fraction(p0[1])
                    exp, exact, mag = [], True, []
                    for k in (0, 3):
                        e = ft[k] * x + ft[k + 1] * y + ft[k + 2]
                        t1, t2 = fl[k] * p0[0], fl[k + 1] * p0[1]
                        ok = (Fraction(t1) == ft[k] * x and Fraction(t2) == ft[k + 1] * y
                              and Fraction(t1 + t2) == ft[k] * x + ft[k + 1] * y and Fraction(t1 + t2 + fl[k + 2]) == e)
                        exp.append(e)
                        exact = exact and ok
                        mag.append(abs(ft[k] * x) + abs(ft[k + 1] * y) + abs(ft[k + 2]))
                    memo[key] = (exp, exact, mag)
                exp, exact, mag = memo[key]
                all_exact = all_exact and exact
                for got, e, m in zip(p1, exp, mag):
                    if got != got or got in (float("inf"), float("-inf")):
                        bad = True
                    elif exact:
                        bad = Fraction(got) != e
                    else:
                        bad = abs(Fraction(got) - e) > m * Fraction(16, 2 ** 53)
                    if bad:
                        return (f"vertex {tuple(p0)} came back as {tuple(p1)}, the transform gives "
                                f"({float(exp[0])!r}, {float(exp[1])!r})"), all_exact
    return None, all_exact


def internal_regions(c, a, mask, ranks, maskb, conn):
    """region array of `_calculate_regions` (the oracle checks that its ids are the first-pixel ranks of the
    components).  For the exact dtype-edge rasters it is called on the int64 *ranks* of the values with a bool mask --
    the same regions inside the property's domain (close = equal), without one more numba specialisation of the
    labelling pass per raster / mask dtype; the public call has of course seen the real dtypes."""
    from xrspatial.experimental.polygonize import _calculate_regions
    ny, nx = a.shape
    if c.get("exact"):
        if ranks is None:
            ranks, _ = rank_encode(a, [])
        return _calculate_regions(ranks.astype(np.int64).ravel(), None if mask is None else maskb.ravel(), conn == 8, nx, ny)
    return _calculate_regions(a.ravel(), None if mask is None else np.asarray(mask).ravel(), conn == 8, nx, ny)


def _check_case(r, c, requests, pending, model=True):
    a, mask = materialise(c)
    conn, tr = c["conn"], c.get("transform")
    layout, mlayout = c.get("layout", "C"), c.get("mlayout", "C")
    tform, kwargs = c.get("tform"), c.get("kwargs")
    with guard(r, c):
        status, out, note = call_public(a, mask, conn, tr, layout, mlayout, tform, kwargs)
    if conn not in (4, 8) or (tr is not None and len(tr) != 6):
        if status != "ValueError":
            r.fail("polygonize:validation", f"connectivity={conn} transform={tr} accepted", c)
        requests.append(model_request(a, mask, conn, tr))
        pending.append((c, "err:ValueError"))
        return
    if status != "ok":
        r.fail("polygonize:raises", f"polygonize raised {status}: {out}", c)
        return
    if note:
        r.fail("polygonize:input-modified", note, c)
        return
    col, polys = out
    maskb = np.ones(a.shape, dtype=bool) if mask is None else (np.asarray(mask) != 0)
    exact_tr = True
    if not c.get("wild"):
        # untransformed result for the oracle; the transform is checked vertex by vertex
        if tr is None:
            col0, polys0 = col, polys
        else:
            with guard(r, c):
                st0, out0, _ = call_public(a, mask, conn, None, layout, mlayout, None, kwargs)
            if st0 != "ok":
                r.fail("polygonize:raises", f"polygonize raised {st0}: {out0}", c)
                return
            col0, polys0 = out0
            bad, exact_tr = transform_mismatch(tr, polys0, polys)
            if not bad and [vtok(v) for v in col] != [vtok(v) for v in col0]:
                bad = "the transform changed the column values"
            if bad:
                r.fail("polygonize:transform", bad + f" (transform={tr} given as {tform or 'float64 ndarray'})", c)
                # no return: the untransformed result still goes through the oracle, the transformed one to the model
        ranks, colr = rank_encode(a, col0)
        regs = internal_regions(c, a, mask, ranks, maskb, conn)
        try:
            enc = np.array(encode(regs, colr, polys0), dtype=np.int64)
            code = _oracle(enc, ranks, maskb, conn == 8)
        except (ValueError, OverflowError):
            code = 15
        if code:
            what = CODES[int(code)]
            if -1 in colr:
                k = colr.index(-1)
                what += f"; column[{k}] = {col0[k]!r} is not a value of the raster"
            r.fail("polygonize:lossless", what + f" (connectivity={conn}, dtype={a.dtype}, shape={a.shape}, "
                   f"raster layout={layout}, mask layout={mlayout if mask is not None else None})", c)
            # no return: the model comparison below records the disagreement as well
    if model and a.size <= (MODEL_MAX_CELLS_LOOKUP if c.get("tag", "").startswith("lookup:") else 200) \
            and not c.get("wildtransform") and exact_tr:
        requests.append(model_request(a, mask, conn, tr))
        pending.append((c, render(col, polys)))
        ny, nx = a.shape
        regs = internal_regions(c, a, mask, None, maskb, conn)
        requests.append(model_request(a, mask, conn, None, cmd="polyregions"))
        pending.append((c, f"{ny}x{nx}:" + ",".join(str(int(v)) for v in regs)))


def flush_model(r, requests, pending, stream):
    if not requests:
        return
    chunks = [list(range(i, min(i + 300, len(requests)))) for i in range(0, len(requests), 300)]
    drv = Driver()

    def ask(idx):
        return drv.ask([requests[i] for i in idx])

    with ThreadPoolExecutor(max_workers=8) as ex:
        replies = [x for part in ex.map(ask, chunks) for x in part]
    for (c, real), rep in zip(pending, replies):
        if rep != real:
            r.disagree(stream, c, real[:400], rep[:400])


def run(r, scale=1):
    r.rule = ("enum: every raster over the alphabet ('m' = masked-out pixel) for every shape with h*w <= max_cells, int64, "
              "connectivity 4 and 8: region array, column and all rings compared exactly with the model and checked by the "
              "rasterisation/area/orientation oracle; random: shapes <= 12x13, lines <= 24, 1x1, 1-4 values, blobs, spirals, "
              "nested rings, pinches, holes touching the border, combs, diagonal walks, int64/int32/uint8/float64/float32, "
              "mask none / random / border / all / nothing as bool/int/float, dyadic affine transforms; memory layout of raster "
              "and mask handed to the real code (independently): C, F, transposed view, strided (C / F parent), negative strides, "
              "read-only, DataArray.transpose -- the model and the oracle see the logical row-major raster; the enumerated "
              "rasters rotate through the layouts by a hash of their number; lookup: rasters of <= 1000 (thorough 1600) cells "
              "with 60-1000 provisional regions whose merges sit at and around the last slot of the merge table "
              "(ids 63/64/65, 127/128, 255/256.. for table sizes max(64,nx,ny)*2^k), first merges far beyond twice the table, "
              "sparse and dense merges, wide and tall, compared with the model (which carries the table size) and the oracle; "
              "dtype-edge: rasters of every dtype the wrapper accepts (int8..uint64, float32/64, bool) over 2-4 values at the "
              "edges of the dtype (min, max, neighbours, beyond 2^24 / 2^31 / 2^53 / 2^63, +-float max, -0.0; float values "
              "pairwise far from close; 35 % of the integer rasters over consecutive large ids v, v+1, v+2.. with |v| log-uniform "
              "from 1e5 to the dtype's edge -- different integers that are relatively close; float values "
              "pairwise far from close), every cell an exact Python scalar, mask none / bool / int8 / float32 / nothing "
              "selected (masks only for int64 / uint64 / float rasters), 1xN / Nx1 / 1x1, column_name / return_type given: the column value of every polygon must be the raster's "
              "value at every cell it covers (exact scalar comparison), and the model is compared on the exact values; "
              "transform-classes: identity, integer / fractional translations, scalings, flips, quarter turns, shear, dyadic and "
              "general affine, geotransforms, degenerate, handed over as list / tuple / ndarray (float64, float32, int64, int32, "
              "strided), also on uniform rasters and single rows / columns: every vertex must be the exact rational image of the "
              "untransformed vertex (exactly when the float64 evaluation is exact, else within 16 ulp of the term magnitudes); "
              "wild (model only): "
              "NaN, +-inf, nearly equal floats, ints >= 1e5; non-trivial = at least two cells and two symbols")
    requests, pending = [], []
    for c in r.corpus():
        cc = c.get("case", c)
        r.case(cc, nontrivial=True, tags=["corpus"])
        check_case(r, cc, requests, pending)
    import time
    t0_ = time.time()
    lap = {}

    def mark(name):
        nonlocal t0_
        lap[name] = round(time.time() - t0_, 1)
        t0_ = time.time()
        r.extra["stream_seconds"] = lap

    run_enum_stream(r, ENUM_PLAN[r.tier])
    r.exhaustive = True
    mark("enum")
    for k in range({"quick": 1500, "thorough": 12000}[r.tier] * scale):
        c = gen_case(r.rng, big=(k % 3 == 0))
        a, _ = materialise(c)
        r.case(c, desc=c if k < 2 else None, nontrivial=a.size >= 2 and len(set(a.ravel().tolist())) >= 2,
               tags=[f"dtype:{c['dtype']}", f"conn:{c['conn']}", c["tag"], c["masktag"],
                     "transform" if c["transform"] else "no-transform",
                     "1xN" if a.shape[0] == 1 else ("Nx1" if a.shape[1] == 1 else "2d"),
                     f"layout:{c['layout']}"] + ([f"mask-layout:{c['mlayout']}"] if c["mask"] is not None else []))
        check_case(r, c, requests, pending)
    mark("random")
    # --- many regions: the merge table at and around its size boundaries
    for k in range({"quick": 400, "thorough": 3000}[r.tier] * scale):
        c = gen_lookup(r.rng, max_cells={"quick": 1000, "thorough": 1600}[r.tier])
        a, mask = materialise(c)
        maskb = np.ones(a.shape, dtype=bool) if mask is None else (np.asarray(mask) != 0)
        pr = lookup_profile(a, maskb, c["conn"] == 8)
        r.case(c, desc=dict(c, grid=f"{a.shape[0]}x{a.shape[1]}", mask=None if mask is None else "...", profile=pr) if k < 2 else None,
               nontrivial=True,
               tags=[c["tag"], f"dtype:{c['dtype']}", f"conn:{c['conn']}", c["masktag"], f"layout:{c['layout']}"] + profile_tags(pr))
        check_case(r, c, requests, pending)
    mark("lookup")
    # --- wrapper glue: every raster dtype at the edges of its range (value identity of the column)
    for k in range({"quick": 700, "thorough": 6000}[r.tier] * scale):
        c = gen_dtype_case(r.rng)
        a, mask = materialise(c)
        r.case(c, desc=c if k < 2 else None, nontrivial=a.size >= 2 and len(set(a.ravel().tolist())) >= 2,
               tags=[c["tag"], f"dtype:{c['dtype']}", f"conn:{c['conn']}", c["masktag"], f"layout:{c['layout']}",
                     "1xN" if a.shape[0] == 1 else ("Nx1" if a.shape[1] == 1 else "2d")] + edge_tags(a)
               + ([f"mask-dtype:{c['mdtype']}"] if mask is not None else []) + (["kwargs"] if c.get("kwargs") else []))
        check_case(r, c, requests, pending)
    mark("dtype-edge")
    # --- wrapper glue: transform classes in every form the wrapper accepts
    for k in range({"quick": 800, "thorough": 6000}[r.tier] * scale):
        c = gen_transform_case(r.rng, k)
        a, mask = materialise(c)
        r.case(c, desc=c if k < 2 else None, nontrivial=True,
               tags=["transform-class:" + c["tclass"], "transform-form:" + c["tform"], c["tag"], c["masktag"], f"dtype:{c['dtype']}",
                     "1xN" if a.shape[0] == 1 else ("Nx1" if a.shape[1] == 1 else "2d")])
        check_case(r, c, requests, pending)
    mark("transform-classes")
    for k in range({"quick": 40, "thorough": 300}[r.tier] * scale):
        c = gen_case(r.rng)
        c["transform"] = r.rng.choice(WILD_TRANSFORMS)
        c["dtype"], c["mdtype"] = "int64", "bool"
        c["wildtransform"] = True
        if c["layout"] == "readonly":      # (read-only, transform) would be one more numba specialisation
            c["layout"], c["mlayout"] = "readonlyF", "F"
        r.case(c, nontrivial=True, tags=["wild-transform"])
        check_case(r, c, requests, pending)
    for k in range({"quick": 300, "thorough": 3000}[r.tier] * scale):
        c = gen_wild(r.rng)
        r.case(c, nontrivial=True, tags=[c["tag"]])
        check_case(r, c, requests, pending)
    for conn, tr in ((5, None), (0, None), (6, None), (4, [1, 0, 0, 0, 1]), (8, [1, 0, 0, 0, 1, 0, 0])):
        c = dict(kind="grid", conn=conn, dtype="int64", grid=[["1", "2"], ["2", "1"]], mask=None, mdtype="bool",
                 transform=tr, tag="bad-args", masktag="mask:none")
        r.case(c, nontrivial=False, tags=["bad-args"])
        check_case(r, c, requests, pending)
    # shape validation of the wrapper
    from xrspatial.experimental.polygonize import polygonize
    for bad in (xr.DataArray(np.zeros(3)), xr.DataArray(np.zeros((2, 2, 2))), xr.DataArray(np.zeros((0, 3)))):
        r.case(dict(kind="bad-shape", shape=list(bad.shape)), nontrivial=False, tags=["bad-shape"])
        try:
            polygonize(bad)
            r.fail("polygonize:validation", f"raster of shape {bad.shape} accepted", dict(kind="bad-shape", shape=list(bad.shape)))
        except ValueError:
            pass
    # return_type: an unknown name is rejected; 'numpy' is the default; the optional back ends (awkward / geopandas /
    # spatialpandas) are compared with the numpy result when they can be imported (none of them is available offline)
    small = xr.DataArray(np.array([[1, 2], [2, 2]], dtype=np.int64))
    ref = polygonize(small)
    r.case(dict(kind="return-type"), nontrivial=False, tags=["return-type"])
    try:
        polygonize(small, return_type="shapefile")
        r.fail("polygonize:validation", "return_type='shapefile' accepted", dict(kind="bad-shape", shape=[2, 2]))
    except ValueError:
        pass
    for rt, modname in (("awkward", "awkward"), ("geopandas", "geopandas"), ("spatialpandas", "spatialpandas")):
        try:
            __import__(modname)
        except Exception:  # noqa: BLE001 -- not installed: nothing to compare
            r.tag("return-type:" + rt + ":unavailable")
            continue
        out = polygonize(small, return_type=rt, column_name="value")
        got = list(out[0]) if rt == "awkward" else list(out["value"])
        r.tag("return-type:" + rt)
        if [int(v) for v in got] != [int(v) for v in ref[0]]:
            r.fail("polygonize:lossless", f"return_type={rt!r}: column {got} differs from the numpy result {ref[0]}",
                   dict(kind="bad-shape", shape=[2, 2]))
    try:
        polygonize(xr.DataArray(np.zeros((2, 2))), mask=xr.DataArray(np.ones((2, 3), dtype=bool)))
        r.fail("polygonize:validation", "mask of another shape accepted", dict(kind="bad-shape", shape=[2, 3]))
    except ValueError:
        pass
    mark("wild+validation")
    flush_model(r, requests, pending, "random")
    mark("model")
    r.assumptions.append("vertex coordinates and transforms in the model-compared streams are integers / dyadic rationals, "
                         "so float64 arithmetic of _transform_points is exact")
    r.trusted.append("numba / numpy semantics of polygonize.py (compared on the generated cases only)")


def search(r):
    requests, pending = [], []
    for d in r.disagreements[:20]:
        c = d["case"]
        if isinstance(c, dict) and c.get("kind") in ("grid", "enum"):
            if c["kind"] == "enum":
                c = dict(c, transform=None)
            check_case(r, c, requests, pending, model=False)
    if r.failures:
        return
    for k in range({"quick": 4000, "thorough": 25000}[r.tier]):
        c = (gen_lookup(r.rng) if k % 8 == 7 else gen_dtype_case(r.rng) if k % 8 in (1, 4) else
             gen_transform_case(r.rng, k) if k % 8 in (2, 6) else gen_case(r.rng, big=True))
        r.case(c, nontrivial=True, tags=["search"])
        check_case(r, c, requests, pending, model=False)
        if len(r.failures) >= 3:
            break


def replay(r, body):
    c = body["case"]
    if c.get("kind") == "enum":
        c = dict(c, transform=None)
    if c.get("kind") == "bad-shape":
        print("validation case: re-run ./check C15")
        return 1
    requests, pending = [], []
    check_case(r, c, requests, pending, model=False)
    if r.failures:
        print("still fails:", r.failures[0]["what"])
        return 1
    print("does not fail on the current tree")
    return 0
