"""
C04 -- cross-tabulation is a true contingency table under any zone / category selection.

Proof side (Props/C04.lean): the position-faithful model of `_crosstab_numpy` (Model/Crosstab.lean)
run with the structural facts read from the current source (indices stripped before the gather,
`cat_start` advanced for every category, rows listed in computed order) equals, for every sorting
permutation and every selection, the table of true counts; percentages; rows sum to 100; 3-D.

Tie: H -- the real `xrspatial.zonal.crosstab` (2-D count / percentage, 3-D with the seven aggregates,
NumPy backend and Dask backend with matching chunks) against the Lean driver on the same rasters.
Oracle (search): a plain contingency count in Python over exact fractions.
"""
import math
from fractions import Fraction

import numpy as np

import zonal_common as Z
from common import Driver, tok, untok

PROP = "C04"
AGG3 = ["count", "sum", "mean", "max", "min", "std", "var"]


# ---------------------------------------------------------------- generators
def make_case_2d(rng, max_h=6, max_w=7):
    h, w = Z.gen_shape(rng, max_h, max_w)
    n = h * w
    z, zdt, ids, layout, zkinds = Z.gen_zones(rng, h, w)
    v, vdt, vkind, vkinds, nodata = Z.gen_values_nodata(rng, n, ids,
                                                        kind=rng.choice(["digits", "digits", "digits", "ints", "dyadic"]))
    present = Z.finite_ids(np.array(z).astype(zdt).astype(float).tolist())
    c = dict(h=h, w=w, zones=[tok(x) for x in z], zdtype=zdt, values=[tok(x) for x in v], vdtype=vdt,
             nodata=None if nodata is None else tok(nodata), layout=layout, zkinds=zkinds, vkind=vkind, vkinds=vkinds,
             agg=rng.choice(["count", "count", "percentage"]))
    zi = Z.gen_selection(rng, present, [77.0, -5.5, 1000.0])
    c["zone_ids"] = None if zi is None else [tok(x) for x in zi]
    cats = present_cats(c)
    ci = Z.gen_selection(rng, cats, [999.0, -777.5, 0.125])
    c["cat_ids"] = None if ci is None else [tok(x) for x in ci]
    return c


def bias_selection(rng, c):
    """steer a 2-D case towards the corner `percentage` x `cat_ids a strict subset of the categories present`
    (the denominator of a percentage is every valid cell of the zone, whatever columns are shown)"""
    if rng.random() < 0.4:
        c["agg"] = "percentage"
    cats = present_cats(c)
    if len(cats) >= 2 and rng.random() < 0.4:
        sel = rng.sample(cats, rng.randint(1, len(cats) - 1))
        rng.shuffle(sel)
        c["cat_ids"] = [tok(x) for x in sel]
    return c


def make_case_3d(rng, max_h=5, max_w=5):
    h, w = Z.gen_shape(rng, max_h, max_w)
    n = h * w
    z, zdt, ids, layout, zkinds = Z.gen_zones(rng, h, w)
    nl = rng.randint(1, 4)
    labels = rng.sample(rng.choice([[1, 2, 3, 4, 5], [10, 20, 30, 40], [0.5, 1.5, 2.5, 3.5], [-2, -1, 0, 1, 2]]), nl)
    kind = rng.choice(["digits", "ints", "dyadic"])
    layers, vdt = [], None
    nonfin = rng.random() < 0.6
    spec = Z.near_spec(rng) if rng.random() < Z.NEAR_RATE else None     # every layer clustered around one nodata value
    for lab in labels:
        if spec:
            v, dt, kind, _ = Z.near_values(rng, n, spec, nonfinite=nonfin)
        else:
            v, dt, _, _ = Z.gen_values(rng, n, kind=kind, nonfinite=nonfin)
        vdt = vdt or dt
        layers.append([tok(float(lab)), [tok(x) for x in v]])
    if any(t in ("nan", "inf", "-inf") for l in layers for t in l[1]) and not vdt.startswith("float"):
        vdt = "float64"
    allv = [untok(t) for l in layers for t in l[1]]
    nodata = spec["nodata"] if spec else Z.gen_nodata(rng, allv, ids)
    present = Z.finite_ids(np.array(z).astype(zdt).astype(float).tolist())
    c = dict(h=h, w=w, zones=[tok(x) for x in z], zdtype=zdt, layers=layers, vdtype=vdt,
             nodata=None if nodata is None else tok(nodata), layout=layout, zkinds=zkinds, vkind=kind,
             agg=rng.choice(AGG3))
    zi = Z.gen_selection(rng, present, [77.0, -5.5])
    c["zone_ids"] = None if zi is None else [tok(x) for x in zi]
    ci = Z.gen_selection(rng, [float(x) for x in labels], [999.0, -777.5])
    c["cat_ids"] = None if ci is None else [tok(x) for x in ci]
    return c


# ---------------------------------------------------------------- oracle
def present_cats(c):
    """distinct finite non-nodata values of a 2-D value raster (after the dtype cast), ascending"""
    _, vals = Z.case_arrays(c)
    vf = vals.astype(np.float64).ravel().tolist()
    nd = c.get("nodata")
    nd = None if nd is None else untok(nd)
    return sorted({v for v in vf if v == v and not math.isinf(v) and not (nd is not None and v == nd)})


def wanted_cats(c):
    if "layers" in c:
        allc = [untok(l[0]) for l in c["layers"]]
    else:
        allc = present_cats(c)
    if c.get("cat_ids") is None:
        return allc
    return [untok(t) for t in c["cat_ids"] if untok(t) in allc]


def expected_entry(c, z, cat):
    """exact entry for zone z / category cat: (Fraction | None (NaN) | 'raises', must be rooted, the valid cells (3-D))"""
    if "layers" in c:
        k = [untok(l[0]) for l in c["layers"]].index(cat)
        cells = Z.valid_cells(c, z, values_tokens=c["layers"][k][1])
        agg = c["agg"]
        if not cells:
            if agg in ("count", "sum"):
                return Fraction(0), False, cells
            if agg in ("max", "min"):
                return "raises", False, cells
            return None, False, cells
        return Z.exact_stat(agg, cells), agg == "std", cells
    cells = Z.valid_cells(c, z)
    cnt = sum(1 for v in cells if v == Fraction(cat))
    if c["agg"] == "count":
        return Fraction(cnt), False, None
    if not cells:
        return None, False, None
    return Fraction(cnt * 100, len(cells)), False, None


def expected_row(c, z, cats):
    return [expected_entry(c, z, cat) for cat in cats]


def entry_ok(c, g, exp):
    """2-D: counts exact, percentages to rounding; 3-D: the aggregate with the tolerance of that statistic on those cells
    (max / min / count exact, var / std to the rounding of a variance of numbers of that magnitude)"""
    e, rooted, cells = exp
    if e == "raises":
        return False
    if "layers" in c:
        return Z.stat_close(c["agg"], g, e, c["vdtype"], cells)
    return Z.xtab_entry_close(g, e, c["vdtype"], rooted)


def row_ok(c, got_row, exp_row):
    return all(entry_ok(c, g, exp) for g, exp in zip(got_row, exp_row))


def oracle(c, st, out):
    """-> None | (finding-key, description)"""
    wz = Z.wanted_zones(c)
    wc = wanted_cats(c)
    exp = {z: expected_row(c, z, wc) for z in wz}
    must_raise = any(e[0] == "raises" for row in exp.values() for e in row)
    facts = Z.source_facts()
    feat_ninf = bool(np.isneginf(Z.case_arrays(c)[0].astype(np.float64)).any()) and not facts.get("stripIndices")
    generic = "crosstab:neg-inf-zone-cells-shift-slices" if feat_ninf else "crosstab:table"
    if st != "ok":
        if must_raise and st == "err:ValueError":
            return None          # max / min of an empty (zone, layer) selection: outside the property
        return generic + ":raises", f"crosstab raised {st}: {out}"
    if must_raise:
        return None
    if sorted(out["cats"]) != sorted(wc) or len(set(out["cats"])) != len(out["cats"]):
        return generic, f"columns {out['cats']} but the requested categories present are {wc}"
    if sorted(out["zone"]) != wz:
        return generic, f"row labels {out['zone']} but the requested zones present are {wz}"
    col = [out["cats"].index(cat) for cat in wc]
    bad = None
    for k, z in enumerate(out["zone"]):
        got = [out["rows"][k][j] for j in col]
        if not row_ok(c, got, exp[z]):
            j = next(i for i, (g, e) in enumerate(zip(got, exp[z])) if not entry_ok(c, g, e))
            e = exp[z][j][0]
            bad = (z, wc[j], got[j], None if e is None else float(e))
            break
    if bad is None:
        if c["agg"] == "percentage" and c.get("cat_ids") is None and "layers" not in c:
            for k, z in enumerate(out["zone"]):
                row = out["rows"][k]
                if Z.valid_cells(c, z) and not Z.close(sum(row), 100.0, rel=1e-9, abs_=1e-9):
                    return generic, f"zone {z}: percentages sum to {sum(row)}"
        return None
    # rows right but labels permuted?
    if all(row_ok(c, [out["rows"][k][j] for j in col], exp[z]) for k, z in enumerate(wz)) and out["zone"] != wz:
        return "crosstab:rows-labelled-in-request-order", \
            f"row {out['zone'].index(bad[0])} is labelled zone {bad[0]} but holds the counts of zone " \
            f"{wz[out['zone'].index(bad[0])]} (zone_ids given as {c.get('zone_ids')})"
    what = f"zone {bad[0]}, category {bad[1]}: {c['agg']} = {bad[2]}, the table over the zone's valid cells gives {bad[3]}"
    if "layers" not in c and c.get("cat_ids") is not None and not feat_ninf and not facts.get("catStartAlways"):
        sel = {untok(t) for t in c["cat_ids"]}
        if any(cat not in sel for cat in present_cats(c)):
            return "crosstab:unselected-category-counted", what + f" (cat_ids={c['cat_ids']} skips categories that are present)"
    return generic, what


# ---------------------------------------------------------------- correspondence
def model_line(c, backend, zch=None):
    parts = Z.req_common(c)
    three = "layers" in c
    if backend == "numpy":
        cmd = "xtab3" if three else "xtab"
        parts += [f"agg={c['agg']}", "perm=" + Z.argsort_perm(c)]
    else:
        cmd = "xtab3dask" if three else "xtabdask"
        if not three:
            parts.append(f"agg={c['agg']}")
        parts += Z.chunk_args(c, zch, zch)
    return cmd + " " + " ".join(parts)


def compare(c, real_st, real, rep):
    """-> None | description of the disagreement"""
    if rep.startswith("bad-"):
        return f"driver rejected the request: {rep}"
    if rep.startswith("err:"):
        if real_st.startswith("err:"):
            return None
        return f"model raises ({rep}), real code returned a table"
    if real_st != "ok":
        return f"real code raised {real_st}: {real}, model returned {rep[:120]}"
    m = Z.parse_xtab3_reply(rep) if "layers" in c else Z.parse_xtab_reply(rep)
    if m["zone"] != real["zone"]:
        return f"zone column: model {m['zone']} real {real['zone']}"
    if m["cats"] != real["cats"]:
        return f"columns: model {m['cats']} real {real['cats']}"
    if m["rows"] is None or len(m["rows"]) != len(real["rows"]):
        return "row counts differ"
    three = "layers" in c
    for k, (mr, rr) in enumerate(zip(m["rows"], real["rows"])):
        for j, (mv, gv) in enumerate(zip(mr, rr)):
            if three:       # the model's std entry is the variance (stat_close roots it)
                lay = [untok(l[0]) for l in c["layers"]].index(m["cats"][j])
                cells = Z.valid_cells(c, m["zone"][k], values_tokens=c["layers"][lay][1]) if mv is not None else None
                same = Z.stat_close(c["agg"], gv, mv, c["vdtype"], cells)
            else:
                same = Z.xtab_entry_close(gv, mv, c["vdtype"], False)
            if not same:
                return f"zone {m['zone'][k]} cat {m['cats'][j]}: model {None if mv is None else float(mv)} real {gv}"
    return None


def tags_of(c, stream):
    return [f"stream:{stream}", f"shape:{c['h']}x{c['w']}", f"agg:{c['agg']}", f"zdtype:{c['zdtype']}",
            f"vdtype:{c['vdtype']}", f"zone_ids:{'none' if c.get('zone_ids') is None else 'list'}",
            f"cat_ids:{'none' if c.get('cat_ids') is None else 'list'}",
            f"nodata:{'none' if c.get('nodata') is None else 'set'}"] + [f"zone-cells:{k}" for k in c.get("zkinds", [])]


def check_scale(r, c, stream):
    """overflow-scale size class: one huge raster, judged by the histogram oracle only (far too large for the driver)"""
    key = dict(c, stream=stream)
    r.case(key, desc=None, nontrivial=True, tags=[f"stream:{stream}", f"agg:{c['agg']}", f"zdtype:{c['zdtype']}",
                                                  f"vdtype:{c['vdtype']}", "size:overflow-scale"])
    st, out, hist = Z.run_scale_crosstab(c, "dask" if stream.startswith("dask") else "numpy")
    bad = Z.oracle_scale_crosstab(c, st, out, hist)
    if bad:
        big = max(max(d.values(), default=0) for d in hist.values())
        r.fail("crosstab:table:overflow-scale", f"[{stream}] {c['h']}x{c['w']} raster, largest (zone, category) count {big}: " + bad, key)
    if st == "ok" and c["agg"] == "percentage":
        # the model at this scale: the percentage expression translated from the source (Gen.Zonal.pctNumpy / pctDask),
        # evaluated in the integer width of the breaks, on the counts of the histogram
        zs = sorted(hist)
        cats = sorted({v for d in hist.values() for v in d})
        back = "dask" if stream.startswith("dask") else "numpy"
        cells = [(k, j, sum(hist[z].values()), hist[z].get(v, 0)) for k, z in enumerate(zs) for j, v in enumerate(cats)]
        reps = Driver().ask([f"xpct total={t} n={n} backend={back}" for _, _, t, n in cells])
        for (k, j, t, n), rep in zip(cells, reps):
            got = out["rows"][k][j] if k < len(out["rows"]) and j < len(out["rows"][k]) else None
            want = None if rep == "nan" else float(Z.untok_exact(rep))
            if got is None or not (got != got if want is None else Z.close(got, want, rel=1e-6, abs_=1e-9)):
                r.disagree("crosstab-" + stream, key, f"zone {zs[k]} cat {cats[j]}: real {got}", f"model (xpct total={t} n={n}) {rep}")
                break


def check_case(r, c, stream, pending):
    if c.get("scale"):
        return check_scale(r, c, stream)
    backend = "dask" if stream.startswith("dask") else "numpy"
    key = dict(c, stream=stream)
    zch = None
    if backend == "dask":
        zch = c.get("zchunks") or (Z.gen_chunks(r.rng, c["h"]), Z.gen_chunks(r.rng, c["w"]))
        key["zchunks"] = [list(zch[0]), list(zch[1])]
        zch = (tuple(zch[0]), tuple(zch[1]))
    r.case(key, desc=key if r.evaluations < 3 else None, nontrivial=c["h"] * c["w"] > 1, tags=tags_of(c, stream))
    st, out = Z.run_crosstab(c, backend, zch, zch)
    bad = oracle(c, st, out)
    if bad:
        r.fail(bad[0], f"[{stream}] " + bad[1], key)
    pending.append((key, st, out, model_line(c, backend, zch)))


def run(r, scale=1):
    n = {"quick": (260, 140, 40, 25), "thorough": (2600, 1400, 500, 300)}[r.tier]
    n = tuple(int(k * scale) for k in n)
    r.rule = ("2-D: rasters 1x1..6x7, zones as in C02 (negative / fractional ids, NaN / inf / -inf cells), values with few "
              "distinct levels / ints / dyadic with NaN / inf cells, nodata none / present value / zone id / NaN, zone_ids and "
              "cat_ids none / shuffled subsets incl. skipped present categories and absent ids, agg count / percentage; "
              "3-D: 1-4 labelled layers, the seven aggregates; Dask backend with matching chunks (random compositions); "
              "15 % of the value rasters clustered around the nodata value (nodata +- 1..3 for |nodata| up to 1e12, the "
              "neighbouring floats / a few ppm off, tiny values around nodata 0); zones also as rectangles on a NaN "
              "background; overflow-scale size class: a ~4800x4800 int8/int16 raster with one (zone, category) pair of more "
              "than 2^31/100 cells, count and percentage judged by a bincount histogram; "
              "non-trivial = more than one cell")
    r.assumptions += ["np.argsort contract checked on every case by the driver; np.unique / np.sort modelled by verified insertion sorts",
                      "exact arithmetic on small integers / dyadics; counts compared exactly, percentages and 3-D aggregates to rounding",
                      "3-D max / min over an empty (zone, layer) selection raises ValueError in numpy: treated as outside the property"]
    r.trusted += ["numpy, pandas DataFrame assembly, dask delayed / from_delayed, xarray"]
    pending = []
    for body in r.corpus():
        c = dict(body.get("case", body))
        stream = c.pop("stream", "2d")
        check_case(r, c, stream, pending)
        r.tag("corpus")
    for _ in range(n[0]):
        check_case(r, make_case_2d(r.rng), "2d", pending)
    for _ in range(n[1]):
        check_case(r, make_case_3d(r.rng), "3d", pending)
    for _ in range(n[2]):
        check_case(r, bias_selection(r.rng, make_case_2d(r.rng, 4, 5)), "dask-2d", pending)
    for _ in range(n[3]):
        c = make_case_3d(r.rng, 4, 4)
        c["agg"] = "count"
        check_case(r, c, "dask-3d", pending)
    # overflow scale: quick = one raster (numpy), both aggregations; thorough = two more and one on dask
    for k in range(1 if r.tier == "quick" else 3):
        c = Z.make_scale_case(r.rng)
        for agg in ("percentage", "count"):
            check_scale(r, dict(c, agg=agg), "scale")
        if r.tier != "quick" and k == 0:
            check_scale(r, dict(c, agg="percentage"), "dask-scale")
    replies = Driver().ask([p[3] for p in pending])
    for (key, st, out, req), rep in zip(pending, replies):
        bad = compare(key, st, out, rep)
        if bad:
            r.disagree("crosstab-" + key["stream"], key, bad, rep[:300])


def search(r):
    run(r, scale=3)


def replay(r, body):
    c = dict(body["case"])
    stream = c.pop("stream", "2d")
    check_case(r, c, stream, [])
    if r.failures:
        print("still fails:", r.failures[0]["what"])
        return 1
    print("does not fail on the current tree")
    return 0
