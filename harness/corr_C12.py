"""
C12 -- classifiers label every finite cell, in order, within [0, k-1].

Tie:  G  `classify._cpu_binary` is translated (Gen/Kernels.lean: binary_cpu); the search skeleton of
         `classify._cpu_bin` (operators, offsets, initial values) and four structural facts of the bin
         construction are regenerated into Gen/ClassifyFacts.lean and the theorems require them.
      H  `_cpu_bin`, `reclassify`, `binary`, `equal_interval`, `quantile`, `_run_numpy_jenks_matrices`,
         `_run_jenks`, `natural_breaks` are run on generated inputs and compared with the Lean driver
         (Driver/Classify.lean) on the same exact inputs.
Oracles (written from the property statement, independent of the model): first bin >= v by linear scan,
NaN for non-finite / above the last bin, every finite cell classified in [0, k-1], order preservation,
equal-width intervals in exact rational arithmetic, percentile grid and bands, brute-force optimal
partitions for natural_breaks (n <= 9; the exact rational recurrence up to n = 40), within `opt_tol`: the bound on what a
Jenks programme with float32 tables can resolve for the data at hand (offset-heavy data: offset / spread up to 1e4).
Every classifier call gets its raster in a recorded memory layout (C-contiguous, Fortran, strided view, negative
strides, a window of a larger array) and dtype class (float32 / float64 / signed / unsigned integers); the harness
keeps a private copy taken before the call: the oracles judge the result against the *original* cell values, and
a raster that differs from the copy after the call is reported as the failing input (`<classifier>:input-modified`;
the classes of a raster that was reordered under the caller's feet say nothing about the caller's cells).
"""
import contextlib
import io
import itertools
import json
import math
import warnings
from fractions import Fraction

import numpy as np
import xarray as xr

from common import Driver, close, list_tok, tok, untok
import il_corr

PROP = "C12"
NAN = float("nan")
INF = float("inf")


# ---------------------------------------------------------------------------------------------- helpers
def mk(a, backend="numpy", chunks=None):
    if backend == "dask":
        import dask.array as da
        a = da.from_array(a, chunks=chunks or (max(1, a.shape[0] // 2), max(1, a.shape[1] // 2)))
    return xr.DataArray(a, dims=["y", "x"])


def compute(out):
    d = out.data
    if hasattr(d, "compute"):
        d = d.compute()
    return np.asarray(d)


def fr(v):
    """exact value of a finite numpy / python number"""
    if isinstance(v, (int, np.integer)):
        return Fraction(int(v))
    return Fraction(float(v))


def isfin(v):
    if isinstance(v, (int, np.integer)):
        return True
    return math.isfinite(float(v))


def toks(vals):
    return [tok(v) for v in vals]


def arr_of(tokens, dtype, shape=None):
    a = np.array([untok(t) for t in tokens], dtype=np.float64)
    if np.issubdtype(np.dtype(dtype), np.integer):
        a = a.astype(np.int64)
    a = a.astype(dtype)
    return a.reshape(shape) if shape is not None else a


def same(a, b):
    """discrete outputs: NaN pattern and values exactly"""
    a, b = float(a), float(b)
    if a != a or b != b:
        return a != a and b != b
    return a == b


def quiet(f, *a, **k):
    with contextlib.redirect_stdout(io.StringIO()), contextlib.redirect_stderr(io.StringIO()), warnings.catch_warnings():
        warnings.simplefilter("ignore")
        return f(*a, **k)


def call(f, *a, **k):
    try:
        return "ok", quiet(f, *a, **k)
    except Exception as ex:  # noqa: BLE001 -- whatever the real code raises is an observation, not an infra error
        return type(ex).__name__, str(ex)[:200]


def first_ge(bins, v):
    """the property's definition: index of the first bin whose upper bound is >= v, else None (exact)"""
    for i, b in enumerate(bins):
        b = float(b) if not isinstance(b, (int, np.integer)) else int(b)
        if isinstance(b, float) and b != b:
            continue
        if isinstance(b, float) and math.isinf(b):
            if b > 0:
                return i
            continue
        if fr(v) <= fr(b):
            return i
    return None


def monotone_violation(vals, classes):
    """larger value, smaller class?  (finite classified cells only)"""
    pairs = sorted((fr(v), float(c)) for v, c in zip(vals, classes) if isfin(v) and c == c)
    for (v1, c1), (v2, c2) in zip(pairs, pairs[1:]):
        if v1 == v2 and c1 != c2:
            return f"equal values {float(v1)} got classes {c1} and {c2}"
        if c2 < c1:
            return f"value {float(v2)} > {float(v1)} got class {c2} < {c1}"
    return None


def range_violation(vals, classes, k, what):
    for v, c in zip(vals, classes):
        c = float(c)
        if isfin(v):
            if c != c:
                return "unclassified", f"{what}: finite cell {v!r} got NaN"
            if c != int(c) or not (0 <= c <= k - 1):
                return "range", f"{what}: finite cell {v!r} got class {c}, not an integer in [0, {k - 1}]"
        elif c == c:
            return "nonfinite", f"{what}: non-finite cell {v!r} got class {c}"
    return None


# ---------------------------------------------------------------------------------------------- _cpu_bin
BIN_DTYPES = [("float64", "float64"), ("float32", "float64"), ("int64", "int64"), ("int32", "float64"),
              ("float64", "int64")]


def real_cpu_bin(vals, bins, newv):
    from xrspatial import classify
    data = vals.reshape(1, -1)
    try:
        return classify._cpu_bin(data, bins, newv)[0]
    except Exception:
        # the private kernel no longer takes (2-D data, bins, new_values) -- e.g. it was flattened: a refactoring of a private
        # signature is not a violation and must not crash the run.  Go through the module's own caller of the kernel, which
        # adapts the arguments (the T3 refinement proof of `_cpu_bin` reports the changed text separately).
        return np.asarray(classify._run_numpy_bin(data, bins, newv))[0]


def bin_case(bins_t, vals_t, newv_t, ddt, bdt):
    return dict(kind="cpu_bin", bins=bins_t, vals=vals_t, newv=newv_t, data_dtype=ddt, bins_dtype=bdt)


def check_bin_case(r, c, reply, stream):
    """runs the real kernel, the oracle (ascending NaN-free bins only) and compares with the model reply"""
    bins = arr_of(c["bins"], c["bins_dtype"])
    vals = arr_of(c["vals"], c["data_dtype"])
    newv = arr_of(c["newv"], "int64")
    out = real_cpu_bin(vals, bins, newv)
    bl = bins.tolist()
    ascending = all(b == b for b in bl) and all(x <= y for x, y in zip(bl, bl[1:]))
    bad = None
    if ascending:
        for v, o in zip(vals.tolist(), out.tolist()):
            if not isfin(v):
                exp = NAN
            else:
                i = first_ge(bl, v)
                exp = NAN if i is None else float(newv[i])
            if not same(o, exp):
                bad = (f"_cpu_bin: value {v!r} with bins {bl}: got {o}, the first bin >= value gives {exp}")
                break
        mv = monotone_violation(vals.tolist(), out.tolist()) if newv.tolist() == sorted(newv.tolist()) else None
        bad = bad or (mv and "_cpu_bin: " + mv)
    if bad:
        r.fail("cpu_bin:first-bin", bad, c)
        return False
    if reply is not None:
        mo = [untok(t) for t in reply.split(",")] if reply and not reply.startswith(("err", "bad")) else None
        if mo is None or len(mo) != len(out) or not all(same(a, b) for a, b in zip(out.tolist(), mo)):
            r.disagree(stream, c, [tok(x) for x in out.tolist()], reply[:300])
    return True


def bin_request(c):
    return f"bin bins={','.join(c['bins'])} newv={','.join(c['newv'])} vals={','.join(c['vals'])}"


def gen_bin_exhaustive(r, nmax, alpha):
    """every weakly ascending bin list of length <= nmax over {0..alpha} (ties included), every half-integer
    position of a value relative to it (below, on, between, above), NaN/inf cells"""
    cases = []
    for n in range(1, nmax + 1):
        for bins in itertools.combinations_with_replacement(range(alpha + 1), n):
            ddt, bdt = BIN_DTYPES[(n + sum(bins)) % len(BIN_DTYPES)]
            if np.issubdtype(np.dtype(ddt), np.integer):
                vals = list(range(-1, alpha + 2))
            else:
                vals = [x / 2 for x in range(-1, 2 * alpha + 2)] + [NAN, INF, -INF]
            cases.append(bin_case(toks(bins), toks(vals), toks(range(10, 10 + n)), ddt, bdt))
    return cases


def gen_bin_random(rng, n_cases, nmax):
    cases = []
    for _ in range(n_cases):
        n = rng.randrange(1, nmax + 1)
        kind = rng.choice(["asc", "asc", "asc-inf", "unsorted", "nanbin", "strict-wide", "edges"])
        if kind == "strict-wide":
            bins = sorted(rng.sample(range(-40, 40), n))
        else:
            bins = sorted(rng.randrange(-6, 7) / 2 for _ in range(n))
        ddt, bdt = rng.choice(BIN_DTYPES[:2])
        if kind == "asc-inf":
            bins[-1] = INF
            if n > 1 and rng.random() < 0.5:
                bins[0] = -INF
        elif kind == "unsorted":
            rng.shuffle(bins)
        elif kind == "nanbin":
            bins[rng.randrange(n)] = NAN
        if kind not in ("asc", "strict-wide") or any(b != int(b) for b in bins):
            bdt = "float64"
        vals = [rng.randrange(-16, 17) / 4 for _ in range(12)] + [NAN, INF, -INF]
        if kind == "edges":       # operands that differ in the last bit of either precision
            ddt, bdt = rng.choice(["float32", "float32", "float64", "int32", "int64"]), "float64"
            cells, bins = gen_edges(rng, ddt, 4, n)
            vals = cells + ([] if ddt.startswith("int") else [NAN, INF, -INF])
            n = len(bins)
        newv = [rng.randrange(0, 50) for _ in range(n)]
        c = bin_case(toks(bins), toks(vals), toks(newv), ddt, bdt)
        c["gen"] = kind
        cases.append(c)
    return cases


def position_tags(c):
    bins = [untok(t) for t in c["bins"]]
    tags = set()
    for t in c["vals"]:
        v = untok(t)
        if v != v or math.isinf(v):
            tags.add("pos:nonfinite")
        elif v < bins[0]:
            tags.add("pos:below-first")
        elif v > bins[-1]:
            tags.add("pos:above-last")
        elif v in bins:
            tags.add("pos:on-a-bound")
        else:
            tags.add("pos:between")
    return sorted(tags)


def stream_cpu_bin(r, drv):
    nmax, alpha = {"quick": (8, 4), "thorough": (8, 6)}[r.tier]
    cases = gen_bin_exhaustive(r, nmax, alpha)
    cases += gen_bin_random(r.rng, {"quick": 1500, "thorough": 12000}[r.tier], 8)
    replies = drv.ask([bin_request(c) for c in cases])
    for i, (c, rep) in enumerate(zip(cases, replies)):
        r.case(dict(kind="cpu_bin", bins=c["bins"], dd=c["data_dtype"], vals=len(c["vals"])),
               desc=c if i in (0, len(cases) - 1) else None,
               nontrivial=True, tags=[f"cpu_bin:n={len(c['bins'])}", f"cpu_bin:dtype={c['data_dtype']}/{c['bins_dtype']}",
                                      f"cpu_bin:gen={c.get('gen', 'exhaustive')}"] + position_tags(c))
        r.tag("cpu_bin:values", len(c["vals"]))
        check_bin_case(r, c, rep, "cpu_bin")
    r.extra["cpu_bin_exhaustive"] = (f"all weakly ascending bin lists of length 1..{nmax} over {{0..{alpha}}} x every "
                                     f"half-integer value in [-0.5, {alpha}.5] + NaN/+-inf")


# ---------------------------------------------------------------------------------------------- rasters
NARROW_INTS = ["int16", "uint8"]
RASTER_LAYOUTS = ["C", "C", "C", "F", "strided", "neg", "window"]


SPREADS = [5, 10, 30, 50, 100]
RATIOS = [10, 30, 100, 100, 300, 1000, 10 ** 4]


def gen_offset_values(rng, n, dtype, exact_squares=False):
    """offset-heavy data: values large compared with their spread (elevations in m, pressures in Pa, temperatures in K):
    offset / spread ratio 10 .. 1e4 with a spread of 5 .. 100, uniformly spread or on a few plateaus with noise.
      integer dtypes   offset + 0..spread
      float32/float64  offset + eighths (float32 numbers up to 2^21) or, float64 only, arbitrary doubles ("x": not float32 numbers)
      exact_squares    integers m in [lo, lo+spread] below 4096 times a power of two 2^-6..2^4: the values *and their squares* are
                       float32 numbers, so float32 tables hold every intermediate of the dynamic programme exactly up to
                       the entries' own 24 bits (the exact model applies digit for digit)
    -> (values, tag)"""
    spread = rng.choice(SPREADS)
    shape_ = rng.choice(["uniform", "uniform", "plateaus"])
    if exact_squares:
        lo = rng.randrange(max(1, 10 * spread), 4096 - spread)
        g = 2.0 ** rng.choice([-6, -2, 0, 0, 0, 1, 4])
        ratio = lo // spread
        base = lambda: lo + rng.randrange(0, spread + 1)                          # noqa: E731
        fin = lambda v: v * g                                                      # noqa: E731
    else:
        ratio = rng.choice(RATIOS)
        off = spread * ratio + rng.randrange(0, spread)
        if np.issubdtype(np.dtype(dtype), np.integer):
            base, fin = (lambda: off + rng.randrange(0, spread + 1)), (lambda v: v)                 # noqa: E731
        elif dtype == "float64" and rng.random() < 0.4:
            base, fin = (lambda: off + rng.uniform(0, spread)), (lambda v: v)                      # noqa: E731
        else:
            base, fin = (lambda: off + rng.randrange(0, 8 * spread + 1) / 8), (lambda v: v)         # noqa: E731
    if shape_ == "plateaus":
        levels = [base() for _ in range(rng.randrange(2, 6))]
        noise = rng.choice([0, 1, 2])
        vals = [fin(rng.choice(levels) + (rng.randrange(-noise, noise + 1) if noise else 0)) for _ in range(n)]
    else:
        vals = [fin(base()) for _ in range(n)]
    return vals, f"{'<=30' if ratio <= 30 else '<=300' if ratio <= 300 else '<=1000' if ratio <= 1000 else '>1000'}"


def gen_raster(rng, kind=None, shape=None, dtype=None):
    """small rasters on exactly computable lattices; ties, NaN/inf, values not representable in float32; offset-heavy data"""
    h, w = shape or (rng.randrange(1, 5), rng.randrange(1, 6))
    n = h * w
    kind = kind or rng.choice(["small", "small", "ties", "half", "wide", "f32x", "bigint", "offset"])
    dtype = dtype or rng.choice(["float64", "float64", "float32", "int32", "int64"] * 2 + NARROW_INTS)
    if dtype in NARROW_INTS and kind not in ("small", "ties"):      # the narrow / unsigned types hold the small lattices only
        dtype = rng.choice(["int32", "int64"])
    if kind == "offset":
        vals, _ = gen_offset_values(rng, n, dtype)
        a = np.array(vals, dtype=np.float64)
        if np.issubdtype(np.dtype(dtype), np.integer):
            a = np.floor(a)
        a = a.astype(dtype).reshape(h, w)
        if np.issubdtype(a.dtype, np.floating) and rng.random() < 0.4:
            a[rng.randrange(h), rng.randrange(w)] = rng.choice([np.nan, np.inf, -np.inf])
        return a, kind
    if kind == "small":
        vals = [rng.randrange(0, 12) for _ in range(n)]
    elif kind == "ties":
        vals = [rng.choice([0, 1, 1, 2, 5, 5, 5, 9]) for _ in range(n)]
    elif kind == "half":
        vals = [rng.randrange(-8, 24) / 2 for _ in range(n)]
    elif kind == "wide":
        vals = [rng.randrange(-100, 1000) for _ in range(n)]
    elif kind == "f32x":      # not representable in float32
        base = rng.choice([0.1, 1 / 3, 1e-3, 16777217.0, 123456789.125, 2.0 ** 25 + 3])
        vals = [base * rng.randrange(1, 9) if base < 1e6 else base + rng.randrange(0, 40) for _ in range(n)]
        if dtype == "float32":
            dtype = "float64"
    else:                     # bigint: integers beyond 2**24
        vals = [2 ** 24 + rng.randrange(0, 60) for _ in range(n)]
        if dtype == "float32":
            dtype = "int32"
    a = np.array(vals, dtype=np.float64)
    if np.issubdtype(np.dtype(dtype), np.integer):
        a = np.floor(a)
    a = a.astype(dtype).reshape(h, w)
    if np.issubdtype(a.dtype, np.floating) and rng.random() < 0.6:
        for _ in range(rng.randrange(1, 3)):
            a[rng.randrange(h), rng.randrange(w)] = rng.choice([np.nan, np.inf, -np.inf])
    return a, kind


def raster_json(a, layout="C"):
    return dict(shape=list(a.shape), dtype=a.dtype.name, vals=toks(a.ravel().tolist()), layout=layout)


def with_layout(rng, c):
    """draw the memory layout of the case's raster"""
    c["raster"]["layout"] = rng.choice(RASTER_LAYOUTS)
    return c


def lay_out(a, layout):
    """the same cells in another memory layout"""
    h, w = a.shape
    if layout == "F":
        return np.asfortranarray(a)
    if layout == "strided":                     # every other column of a wider C array
        big = np.zeros((h, 2 * w), dtype=a.dtype)
        big[:, ::2] = a
        return big[:, ::2]
    if layout == "neg":                         # negative strides on both axes
        return np.ascontiguousarray(a[::-1, ::-1])[::-1, ::-1]
    if layout == "window":                      # a window of a larger C array
        big = np.zeros((h + 2, w + 3), dtype=a.dtype)
        big[1:h + 1, 2:w + 2] = a
        return big[1:h + 1, 2:w + 2]
    return a


def raster_from(j):
    return lay_out(arr_of(j["vals"], j["dtype"], tuple(j["shape"])), j.get("layout", "C"))


INPUT = {"changed": None}
NOTES = {}


def raster_pair(c):
    """(the raster handed to the classifier, a private C-ordered copy the classifier never sees)"""
    a = raster_from(c["raster"])
    INPUT["changed"] = None
    return a, np.array(a, order="C", copy=True)


def note_input(a, keep):
    """after the call: is the caller's raster still what it was?  (bit for bit: NaN payloads, -0.0)"""
    if a.dtype != keep.dtype or a.shape != keep.shape or np.ascontiguousarray(a).tobytes() != keep.tobytes():
        INPUT["changed"] = (f"the input raster was modified by the call: before {keep.tolist()} ({keep.dtype}), "
                            f"after {np.asarray(a).tolist()} ({a.dtype})")


def input_failure(r, c):
    """reports a modified input as the failing input of the case"""
    if INPUT["changed"]:
        r.fail(f"{c['kind']}:input-modified", f"{c['kind']}[{c.get('backend', 'numpy')}]: {INPUT['changed']}", c)
        return True
    return False


def cells_tok(a):
    return ",".join(toks(a.ravel().tolist()))


def parse_res(rep):
    """driver Res -> ('ok', classes, bins) | ('err', kind)"""
    if rep.startswith("err:"):
        return ("err", rep[4:])
    if "|" not in rep:
        return ("bad", rep)
    cls, bins = rep.split("|")
    return ("ok", [untok(t) for t in cls.split(",")] if cls else [], [Fraction(b) for b in bins.split(",")] if bins else [])


# ---------------------------------------------------------------------------------------------- precision edges
def nx32(x, up):
    """the float32 neighbour of the float32 value x (as a python float)"""
    return float(np.nextafter(np.float32(x), np.float32(INF if up else -INF)))


def nx64(x, up):
    return math.nextafter(float(x), INF if up else -INF)


def edge_base(rng):
    """a double that single precision cannot hold (or can: dyadics are in the pool too)"""
    k = rng.choice(["decimal", "decimal", "third", "uniform", "big", "tiny", "huge", "dyadic"])
    if k == "decimal":
        return rng.randrange(-30, 200) / rng.choice([10, 100, 1000])
    if k == "third":
        return rng.randrange(-10, 60) / rng.choice([3, 7, 9])
    if k == "uniform":
        return rng.uniform(-1, 1) * rng.choice([1e-6, 1, 1e3, 1e7])
    if k == "big":                      # integers beyond 2**24: every second / fourth ... one is a float32
        return float(2 ** rng.choice([24, 25, 26, 30]) + rng.randrange(0, 40))
    if k == "tiny":
        return rng.randrange(1, 100) * rng.choice([1e-30, 1e-39, 1e-44])     # incl. float32 subnormals
    if k == "huge":
        return rng.uniform(1, 3) * rng.choice([1e20, 1e38])
    return rng.randrange(-64, 64) / 8


def gen_edges(rng, dtype, n_cells, n_bins):
    """cells of the raster's dtype and float64 bounds that sit on / one ulp (of either precision) beside /
    half way between them: the comparison `cell <= bound` is decided by the last bits of both operands"""
    cells, cand = [], []
    ints = np.issubdtype(np.dtype(dtype), np.integer)
    lim = 2 ** 31 - 1 if dtype == "int32" else 2 ** 53
    for _ in range(max(1, n_cells)):
        b = edge_base(rng)
        if ints:
            x = int(max(-lim, min(lim, round(b) if abs(b) < 1e15 else lim - rng.randrange(0, 9))))
            cells += [x, x + rng.choice([-1, 1, 2])] if abs(x) < lim - 2 else [x]
            cand += [float(x), x - 0.5 if abs(x) < 2 ** 51 else float(x), x + 0.5 if abs(x) < 2 ** 51 else float(x),
                     nx64(x, True), nx64(x, False), float(x + 1), b]
        elif dtype == "float32":
            if not abs(b) < 3e38:
                b = math.copysign(3e38, b)
            x = float(np.float32(b))
            up, dn = nx32(x, True), nx32(x, False)
            cells += rng.sample([x, x, up, dn], rng.randrange(1, 4))
            cand += [b, x, nx64(x, True), nx64(x, False), nx64(b, True), nx64(b, False), up, dn]
            if math.isfinite(up):
                mid = (x + up) / 2                  # exact in double precision; ties-to-even decides its float32
                cand += [mid, nx64(mid, True), nx64(mid, False)]
        else:
            cells += rng.sample([b, b, nx64(b, True), nx64(b, False)], rng.randrange(1, 4))
            cand += [b, nx64(b, True), nx64(b, False), float(np.float32(b)) if abs(b) < 3e38 else b]
    cand = [c for c in cand if math.isfinite(c)]
    bins = sorted(set(rng.sample(cand, min(len(cand), max(1, n_bins)))))
    return cells, bins


def gen_reclass_edges(rng):
    dtype = rng.choice(["float32", "float32", "float32", "float64", "int32", "int64"])
    h, w = rng.randrange(1, 4), rng.randrange(1, 5)
    cells, bins = gen_edges(rng, dtype, rng.randrange(1, 5), rng.randrange(1, 9))
    vals = [rng.choice(cells) for _ in range(h * w)]
    for i, v in enumerate(rng.sample(cells, min(len(cells), h * w))):
        vals[i] = v
    if np.issubdtype(np.dtype(dtype), np.integer):
        a = np.array(vals, dtype=np.int64).astype(dtype).reshape(h, w)
    else:
        a = np.array(vals, dtype=np.float64).astype(dtype).reshape(h, w)
        if rng.random() < 0.3:
            a[rng.randrange(h), rng.randrange(w)] = rng.choice([np.nan, np.inf, -np.inf])
    if rng.random() < 0.15:
        bins[-1] = INF
    newv = [rng.randrange(0, 100) for _ in bins]
    return with_layout(rng, dict(kind="reclassify", raster=raster_json(a), bins=toks(bins), newv=toks(newv),
                backend=rng.choice(["numpy", "numpy", "dask"]), gen="edges"))


# ---------------------------------------------------------------------------------------------- reclassify / binary
def gen_reclass(rng, edges=None):
    if edges or (edges is None and rng.random() < 0.3):
        return gen_reclass_edges(rng)
    a, kind = gen_raster(rng, kind=rng.choice(["small", "ties", "half"]))
    n = rng.randrange(1, 9)
    bins = sorted(rng.randrange(-4, 26) / 2 for _ in range(n))
    if all(b == int(b) for b in bins) and rng.random() < 0.5:
        bins = [int(b) for b in bins]
    if rng.random() < 0.3:
        bins[-1] = INF
    newv = [rng.randrange(0, 100) for _ in range(n)]
    mism = rng.random() < 0.08
    if mism:
        newv = newv[:-1] if rng.random() < 0.5 and n > 1 else newv + [7]
    return with_layout(rng, dict(kind="reclassify", raster=raster_json(a), bins=toks(bins), newv=toks(newv),
                backend=rng.choice(["numpy", "numpy", "dask"]), gen=kind))


def run_reclass(c):
    from xrspatial.classify import reclassify
    a, keep = raster_pair(c)
    bins = [untok(t) for t in c["bins"]]
    if all(math.isfinite(b) and b == int(b) and abs(b) < 2 ** 53 for b in bins):
        bins = [int(b) for b in bins]
    newv = [int(untok(t)) for t in c["newv"]]
    st, out = call(reclassify, mk(a, c["backend"]), bins, newv)
    if st == "ok":
        st, out = call(compute, out)
    note_input(a, keep)
    return keep, bins, newv, st, out


def oracle_reclass(c, a, bins, newv, st, out):
    if len(bins) != len(newv):
        return None if st == "ValueError" else f"reclassify: bins/new_values of different lengths accepted ({st})"
    if st != "ok":
        return f"reclassify raised {st}: {out}"
    for v, o in zip(a.ravel().tolist(), out.ravel().tolist()):
        if not isfin(v):
            exp = NAN
        else:
            i = first_ge(bins, v)
            exp = NAN if i is None else float(newv[i])
        if not same(o, exp):
            return f"reclassify[{c['backend']}]: cell {v!r} bins {bins} new_values {newv}: got {o}, expected {exp}"
    return None


def shrink_reclass(c, bad):
    """a smaller case that still fails: one cell on the numpy backend, then as few bins as possible"""
    def fails(c2):
        try:
            return oracle_reclass(c2, *run_reclass(c2))
        except Exception:  # noqa: BLE001 -- a candidate the code cannot digest is simply not a smaller failing case
            return None
    if len(c["bins"]) != len(c["newv"]):
        return c, bad
    for t in c["raster"]["vals"]:
        c2 = dict(c, raster=dict(c["raster"], shape=[1, 1], vals=[t]), backend="numpy")
        b2 = fails(c2)
        if b2:
            c, bad = c2, b2
            break
    i = 0
    while len(c["bins"]) > 1 and i < len(c["bins"]):
        c2 = dict(c, bins=c["bins"][:i] + c["bins"][i + 1:], newv=c["newv"][:i] + c["newv"][i + 1:])
        b2 = fails(c2)
        if b2:
            c, bad = c2, b2
        else:
            i += 1
    return c, bad


def gen_binary(rng):
    a, kind = gen_raster(rng, kind=rng.choice(["small", "ties", "half", "f32x"]))
    flat = [v for v in a.ravel().tolist() if isfin(v)]
    values = [rng.choice(flat) for _ in range(rng.randrange(0, 4)) if flat] + \
             [rng.randrange(0, 12) for _ in range(rng.randrange(0, 3))]
    if rng.random() < 0.15:
        values.append(NAN)
    return with_layout(rng, dict(kind="binary", raster=raster_json(a), values=toks(values), backend=rng.choice(["numpy", "numpy", "dask"]),
                gen=kind))


def run_binary(c):
    from xrspatial.classify import binary
    a, keep = raster_pair(c)
    values = [untok(t) for t in c["values"]]
    st, out = call(binary, mk(a, c["backend"]), values)
    if st == "ok":
        st, out = call(compute, out)
    note_input(a, keep)
    return keep, values, st, out


def oracle_binary(c, a, values, st, out):
    if st != "ok":
        return f"binary raised {st}: {out}"
    listed = [fr(v) for v in values if isfin(v)]
    for v, o in zip(a.ravel().tolist(), out.ravel().tolist()):
        exp = NAN if not isfin(v) else (1.0 if fr(v) in listed else 0.0)
        if not same(o, exp):
            return f"binary[{c['backend']}]: cell {v!r} values {values}: got {o}, expected {exp}"
    return None


# ---------------------------------------------------------------------------------------------- equal_interval
def gen_equal_interval(rng, wild=False):
    if wild:
        h, w = rng.randrange(1, 5), rng.randrange(2, 6)
        dtype = rng.choice(["float64", "float32"])
        a = np.array([rng.uniform(-1e3, 1e3) * rng.choice([1, 1e-3, 1e4]) for _ in range(h * w)]).astype(dtype).reshape(h, w)
        if rng.random() < 0.5:
            a[rng.randrange(h), rng.randrange(w)] = rng.choice([np.nan, np.inf, -np.inf])
        k = rng.randrange(1, 12)
        return with_layout(rng, dict(kind="equal_interval", raster=raster_json(a), k=k, backend=rng.choice(["numpy", "dask"]), gen="wild"))
    # exact: min, width dyadic, max = min + k * width, the other cells on a finer lattice in between
    k = rng.choice([1, 2, 3, 4, 5, 6, 7, 8, 10, 12])
    width = rng.choice([1, 2, 3, 0.5, 0.25, 8])
    mn = rng.choice([0, -3, 10, 0.5, -7.25])
    dtype = rng.choice(["float64", "float64", "float32", "int32", "int64"])
    if np.issubdtype(np.dtype(dtype), np.integer):
        width, mn = max(1, int(width)), int(mn)
    h, w = rng.randrange(1, 5), rng.randrange(2, 6)
    steps = 4 if not np.issubdtype(np.dtype(dtype), np.integer) else 1
    vals = [mn + rng.randrange(0, k * steps + 1) * width / steps for _ in range(h * w)]
    vals[rng.randrange(h * w)] = mn
    i = rng.randrange(h * w)
    while vals[i] == mn and h * w > 1:
        i = (i + 1) % (h * w)
        if vals.count(mn) == h * w:
            break
    vals[i] = mn + k * width
    a = np.array(vals, dtype=np.float64)
    if np.issubdtype(np.dtype(dtype), np.integer):
        a = np.floor(a)
    a = a.astype(dtype).reshape(h, w)
    if np.issubdtype(a.dtype, np.floating) and rng.random() < 0.5:
        for _ in range(rng.randrange(1, 3)):
            y, x = rng.randrange(h), rng.randrange(w)
            if a[y, x] not in (mn, mn + k * width):
                a[y, x] = rng.choice([np.nan, np.inf, -np.inf])
    return with_layout(rng, dict(kind="equal_interval", raster=raster_json(a), k=k, backend=rng.choice(["numpy", "numpy", "dask"]), gen="exact"))


def run_equal_interval(c):
    from xrspatial.classify import equal_interval
    a, keep = raster_pair(c)
    st, out = call(equal_interval, mk(a, c["backend"]), c["k"])
    if st == "ok":
        st, out = call(compute, out)
    note_input(a, keep)
    return keep, st, out


def oracle_equal_interval(c, a, st, out):
    k = c["k"]
    flat = a.ravel().tolist()
    fin = [fr(v) for v in flat if isfin(v)]
    if not fin or min(fin) == max(fin):
        return None                                   # no output exists (domain note in DESIGN.md)
    if st != "ok":
        return "raises", f"equal_interval[{c['backend']}] raised {st}: {out}"
    res = out.ravel().tolist()
    bad = range_violation(flat, res, k, f"equal_interval[{c['backend']}] k={k}")
    if bad:
        return bad
    mv = monotone_violation(flat, res)
    if mv:
        return "order", f"equal_interval[{c['backend']}]: {mv}"
    mn, mx = min(fin), max(fin)
    wd = (mx - mn) / k
    tol = Fraction(1, 10 ** 5) if a.dtype == np.float32 else Fraction(1, 10 ** 9)
    for v, o in zip(flat, res):
        if not isfin(v):
            continue
        x = fr(v)
        # the i-th of k equal-width intervals: mn + i*w < x <= mn + (i+1)*w  (closed at mn for i = 0)
        i = 0
        while i < k - 1 and x > mn + (i + 1) * wd:
            i += 1
        if int(o) != i:
            if c["gen"] == "wild":
                near = min(abs(x - (mn + j * wd)) for j in range(k + 1))
                if near <= tol * max(abs(mx), abs(mn), 1):
                    continue
            return "interval", (f"equal_interval[{c['backend']}]: cell {v!r} of [{float(mn)}, {float(mx)}] k={k}: class {o}, "
                                f"it lies in interval {i}")
    return None


# ---------------------------------------------------------------------------------------------- quantile
class RecModule:
    """stands in for `module` in classify._run_quantile (everything is numpy's) and records the percentile call"""

    def __init__(self):
        self.p = None
        self.q = None

    def __getattr__(self, name):
        return getattr(np, name)

    def percentile(self, a, q, *args, **kw):
        self.p = np.array(q, dtype=np.float64)
        self.q = np.percentile(a, q, *args, **kw)
        return self.q


QUANTILE_KS = [1, 2, 3, 4, 5, 6, 7, 9, 10, 12, 23, 29, 31, 36]


def gen_quantile(rng, k=None):
    k = k or rng.choice(QUANTILE_KS[:10] + [23, 31])
    if k > 12:
        side = rng.choice([(6, 8), (7, 7), (5, 10)])
        dtype = rng.choice(["float64", "int32", "float32"])
        perm = list(range(side[0] * side[1]))
        rng.shuffle(perm)
        a = (np.array(perm, dtype=np.float64) * rng.choice([1, 2, 0.5])).astype(dtype).reshape(side)
        kind = "distinct"
    else:
        a, kind = gen_raster(rng, shape=(rng.randrange(2, 6), rng.randrange(2, 6)))
    return with_layout(rng, dict(kind="quantile", raster=raster_json(a), k=k, gen=kind))


def run_quantile(c):
    import xrspatial.classify as cl
    a, keep = raster_pair(c)
    rec = RecModule()
    st, q = call(cl._run_quantile, a, c["k"], rec)
    st2, out = call(cl.quantile, mk(a), c["k"])
    if st2 == "ok":
        out = compute(out)
    note_input(a, keep)
    return keep, rec, st, q, st2, out


def oracle_quantile(c, a, rec, st, q, st2, out):
    k = c["k"]
    flat = a.ravel().tolist()
    fin = sorted(fr(v) for v in flat if isfin(v))
    if not fin:
        return None
    if st != "ok" or st2 != "ok":
        return "raises", f"quantile raised {st}/{st2}: {q if st != 'ok' else out}"
    res = out.ravel().tolist()
    bad = range_violation(flat, res, k, f"quantile k={k}")
    if bad:
        return bad
    mv = monotone_violation(flat, res)
    if mv:
        return "order", f"quantile: {mv}"
    p = rec.p.tolist()
    if len(p) != k or p[-1] != 100.0 or any(x >= y for x, y in zip(p, p[1:])):
        return "grid", (f"quantile k={k}: asks numpy for {len(p)} percentile points ending at {p[-1]!r} "
                        f"(the k percentile bands need {k} ascending points ending at 100.0)")
    # the k percentile bands: bins = distinct values of the percentiles 100*i/k (linear interpolation), exact
    n = len(fin)
    ideal = []
    for i in range(1, k + 1):
        hpos = Fraction((n - 1) * i, k)
        lo = hpos.numerator // hpos.denominator
        hi = min(lo + 1, n - 1)
        ideal.append(fin[lo] + (hpos - lo) * (fin[hi] - fin[lo]))
    bins = sorted(set(ideal))
    if not all(isfin(x) for x in np.asarray(q).ravel().tolist()):
        return "bands", f"quantile k={k}: non-finite percentile break in {np.asarray(q).tolist()}"
    real_bins = [fr(x) for x in np.asarray(q).tolist()]
    scale = max(abs(fin[0]), abs(fin[-1]), 1)
    tol = Fraction(1, 10 ** 9) * scale
    if any(x >= y for x, y in zip(real_bins, real_bins[1:])):
        return "bands", f"quantile k={k}: the percentile breaks {[float(x) for x in real_bins]} are not strictly ascending (de-duplicated)"
    if len(real_bins) != len(bins):
        return None          # a percentile that differs from its neighbour by rounding only: bands not comparable
    for rb, ib in zip(real_bins, bins):
        if abs(rb - ib) > tol:
            return "bands", f"quantile k={k}: bins {[float(x) for x in real_bins]} are not the percentiles {[float(x) for x in bins]}"
    for v, o in zip(flat, res):
        if not isfin(v):
            continue
        x = fr(v)
        if any(abs(x - b) <= tol for b in bins):
            continue
        exp = sum(1 for b in bins if b < x)
        if int(o) != exp:
            return "bands", f"quantile k={k}: cell {v!r} got class {o}, percentile band {exp} (bins {[float(b) for b in bins]})"
    return None


# ---------------------------------------------------------------------------------------------- Jenks
def dp_tol(xs):
    """resolution of the Jenks tables: they are float32 (24 bits), entries are of the order of n * max|x|^2, so two
    partitions whose within-class SSD differs by less than this are not distinguished by the code (DESIGN.md section 4:
    value comparisons carry the precision of the dtype the code computes in)"""
    m = max([abs(x) for x in xs] + [1])
    return Fraction(1, 10 ** 6) * m * m


def ssd(xs):
    if not xs:
        return Fraction(0)
    s = sum(xs)
    return sum(x * x for x in xs) - s * s / len(xs)


U32, U64 = Fraction(1, 2 ** 24), Fraction(1, 2 ** 53)


def f32q(x):
    """np.float32 of a rational, as a rational"""
    return Fraction(float(np.float32(float(x))))


def opt_tol(xs, k, best):
    """how far above the minimum the within-class SSD of the partition may be that a Jenks dynamic programme with *float32
    tables* returns for the sorted sample xs (exact rationals) -- derived from what the source computes, term by term:
      * every value enters as x~ = float32(x) and its square as float32(x~ * x~) (a float32 product), summed in float64: the
        cost of a class is its SSD on x~ plus the sum of its members' square errors e_i = float32(x~_i^2) - x~_i^2, so every
        partition of the first l values is shifted by the same E_l = e_1 + ... + e_l (|E_l| <= l * 2^-24 * max|x|^2 =: Esq) and the
        argmin is not affected -- except that the table row of the one-element prefix is the constant 0 instead of e_1:
        partitions whose first class is {x_1} are favoured / penalised by exactly e_1                     -> |e_1|
      * each table entry is stored as float32: relative error 2^-24 of an entry of size <= best + Esq, once per class on the
        chosen and on the optimal path ((1+u)^(2k) - 1 <= 4k u)                                          -> 4k * 2^-24 * (best + Ecast + Esq)
      * the float64 evaluation of sum(x^2) - sum(x)^2 / w: <= 2 (n+3) n 2^-53 max|x|^2 per class, both paths -> 8k (n+3) n 2^-53 max|x|^2
      * values that are not float32 numbers are classified by their float32 images: with d = max |x~_i - x_i| and R = max - min
        the SSD of any partition moves by at most 4n(R d + d^2), for the chosen and the optimal one         -> Ecast = 8n(R d + d^2)
    For float32-exact data with exact float32 squares (integers below 4096, small lattices) this is about 1e-6 * best; for
    elevations 2000..5000 it is at most 2^-24 * x_1^2 <= 1.5 (mostly ~0.3) against SSDs of hundreds; `dp_tol` (1e-6 max|x|^2, the
    resolution assumed before this derivation) is 17 times the largest possible |e_1|."""
    e1, ecast, table = tol_terms(xs, k, best)
    return e1 + ecast + table


def tol_terms(xs, k, best):
    """(|e_1|, Ecast, table rounding = float32 storage + float64 evaluation) of `opt_tol`"""
    n = len(xs)
    m = max(abs(x) for x in xs)
    rng_ = max(xs) - min(xs)
    d = max(abs(f32q(x) - x) for x in xs)
    ecast = 8 * n * (rng_ * d + d * d)
    esq = n * U32 * m * m
    x1 = f32q(xs[0])
    with np.errstate(over="ignore"):
        sq = float(np.float32(float(x1)) * np.float32(float(x1)))
    e1 = abs(Fraction(sq) - x1 * x1) if math.isfinite(sq) else m * m
    return e1, ecast, 4 * k * U32 * (best + ecast + esq) + 8 * k * (n + 3) * n * U64 * m * m


def resolvable(xs, k, best):
    """can a programme with float32 tables tell a k-class partition of this sample from a degenerate one at all?
    The tables' row of the one-element prefix is 0 in *every* column, i.e. {x_1} also counts as two, three ... classes at no
    cost; such a path has fewer real classes (its break extraction then reads data[-1], data[-2]: the classes it induces can be
    as bad as one class for everything) and is taken -- ties go to it -- as soon as the (k-1)-th class of x_2..x_n buys nothing
    the tables can see: when the float32 images have fewer than k distinct values (integers above 2^24 collapse in pairs:
    natural_breaks([[16777273, 16777259], [16777217, 16777271]], k=4) puts all four cells into class 0), or when
    best_{k-2}(x~_2..x~_n) - best_{k-1}(x~_2..x~_n) is below the tables' rounding.  For samples that are float32 numbers with at
    least k distinct values (every stream but `bigint` / `f32x` / non-float32 doubles) this is always true."""
    xt = sorted(f32q(x) for x in xs)
    if len(set(xt)) < k:
        return False
    if k >= 3 and len(xt) - 1 >= k - 1:
        gain = optimum(xt[1:], k - 2) - optimum(xt[1:], k - 1)
        if gain <= tol_terms(xs, k, best)[2]:
            return False
    return True


def exact_dp_min(xs, k):
    """minimum within-class SSD over all partitions of sorted xs into k non-empty contiguous classes, by the recurrence
    best(c, j) = min_i best(c-1, i) + SSD(xs[i:j]) in exact rational arithmetic (reference for samples too long for
    `brute_force_min`; the two are compared on every sample with n <= 7)"""
    n = len(xs)
    pre, pre2 = [Fraction(0)], [Fraction(0)]
    for x in xs:
        pre.append(pre[-1] + x)
        pre2.append(pre2[-1] + x * x)

    def cost(i, j):
        t = pre[j] - pre[i]
        return pre2[j] - pre2[i] - t * t / (j - i)

    prev = [Fraction(0)] + [None] * n
    for c in range(1, k + 1):
        cur = [None] * (n + 1)
        for j in range(c, n + 1):
            cur[j] = min(prev[i] + cost(i, j) for i in range(c - 1, j) if prev[i] is not None)
        prev = cur
    return prev[n]


def optimum(xs, k):
    """the reference optimum: brute force over all partitions for n <= 9, the exact recurrence above that (None: none exists)"""
    n = len(xs)
    if k > n:
        return None
    if n <= 9:
        best = brute_force_min(xs, k)
        if n <= 7 and best != exact_dp_min(xs, k):
            raise AssertionError(f"exact_dp_min disagrees with brute_force_min on {xs}, k={k}")
        return best
    return exact_dp_min(xs, k)


def brute_force_min(xs, k):
    """minimum within-class SSD over all partitions of sorted xs into k non-empty contiguous classes"""
    n = len(xs)
    best = None
    for cuts in itertools.combinations(range(1, n), k - 1):
        b = (0,) + cuts + (n,)
        c = sum(ssd(xs[b[i]:b[i + 1]]) for i in range(k))
        if best is None or c < best:
            best = c
    return best


def gen_jenks(rng, nmax):
    n = rng.randrange(2, nmax + 1)
    kind = rng.choice(["small", "ties", "half", "wide", "gaps", "offset", "offset"])
    if kind == "offset":
        xs, _ = gen_offset_values(rng, n, "float64", exact_squares=True)
    elif kind == "small":
        xs = [rng.randrange(0, 12) for _ in range(n)]
    elif kind == "ties":
        xs = [rng.choice([0, 1, 1, 2, 5, 5, 9]) for _ in range(n)]
    elif kind == "half":
        xs = [rng.randrange(-8, 24) / 2 for _ in range(n)]
    elif kind == "wide":
        xs = [rng.randrange(0, 500) for _ in range(n)]
    else:
        xs = [rng.choice([0, 100, 1000]) + rng.randrange(0, 6) for _ in range(n)]
    k = rng.randrange(1, 6)
    return dict(kind="jenks", xs=toks(sorted(xs)), k=k, gen=kind)


def check_jenks(r, c, rep_mat, rep_brk):
    import xrspatial.classify as cl
    xs = np.array([untok(t) for t in c["xs"]], dtype=np.float64)
    k = c["k"]
    n = len(xs)
    L, V = cl._run_numpy_jenks_matrices(xs.copy(), k)
    X = [Fraction(float(v)) for v in xs]
    vs, ls = rep_mat.split("|")
    MV = [[Fraction(t) for t in row.split(",")] for row in vs.split(";")]
    ML = [[int(t) for t in row.split(",")] for row in ls.split(";")]
    ties = 0
    for l in range(n + 1):
        for j in range(1, k + 1):
            if not close(float(V[l, j]), float(MV[l][j - 1]), rel=1e-5, abs_=1e-5):
                r.disagree("jenks_mat", c, f"V[{l}][{j}]={float(V[l, j])}", f"model {float(MV[l][j - 1])}")
                return
            if int(L[l, j]) != ML[l][j - 1]:
                b = int(L[l, j])
                # a tie broken by float rounding: the real choice must still be an argmin in exact arithmetic
                ok = j >= 2 and l >= 2 and 2 <= b <= l and ssd(X[b - 1:l]) + MV[b - 1][j - 2] <= MV[l][j - 1] + dp_tol(X)
                if not ok:
                    r.disagree("jenks_mat", c, f"L[{l}][{j}]={b}", f"model {ML[l][j - 1]}")
                    return
                ties += 1
    r.tag("jenks:tie-cells", ties)
    distinct = len(set(X))
    if distinct >= k:
        kc = cl._run_jenks(xs.copy(), k).tolist()
        # oracle: the breaks cut the sorted sample into a partition of minimal SSD
        bins = kc[1:]
        groups = {}
        for x in X:
            i = first_ge(bins, float(x))
            if i is None:
                r.fail("jenks:break-below-value", f"_run_jenks({[float(x) for x in X]}, {k}) = {kc}: value {float(x)} is above the last break", c)
                return
            groups.setdefault(i, []).append(x)
        cost = sum(ssd(g) for g in groups.values())
        best = optimum(X, k)
        if not resolvable(X, k, best):
            r.tag("jenks:not-resolvable-in-float32-tables")
        elif cost > best + opt_tol(X, k, best):
            r.fail("jenks:not-optimal", f"_run_jenks({[float(x) for x in X]}, {k}) = {kc}: within-class SSD {float(cost)}, "
                   f"the optimal partition has {float(best)}", c)
            return
        if MV[n][k - 1] != best:      # exact: the model's table entry is the brute-force (n > 9: exact-recurrence) minimum
            r.disagree("jenks_optimal", c, f"brute force {best}", f"model V[n][k] {MV[n][k - 1]}")
            return
        if rep_brk.startswith("err"):
            r.disagree("jenks_breaks", c, kc, rep_brk)
            return
        mk_ = [Fraction(t) for t in rep_brk.split(",")]
        if [Fraction(float(x)) for x in kc] != mk_:
            mg = {}
            for x in X:
                mg.setdefault(first_ge([float(b) for b in mk_[1:]], float(x)), []).append(x)
            if abs(sum(ssd(g) for g in mg.values()) - cost) > dp_tol(X):   # different but equally good: a float tie
                r.disagree("jenks_breaks", c, kc, rep_brk)
            else:
                r.tag("jenks:tie-breaks")


# ---------------------------------------------------------------------------------------------- natural_breaks
def gen_natural(rng, target=None):
    """every dtype class x every way of sampling: `num_sample` None / = size / > size (the whole raster is the sample),
    < size (a sub-sample); the cells are in no particular order (an already ascending raster hides a classifier that
    reorders its input)"""
    kind = target or rng.choice(["small", "ties", "half", "wide", "f32x", "bigint", "sampled", "fallback-sampled", "offset", "offset", "offset"])
    shape = (rng.randrange(1, 4), rng.randrange(2, 5))
    if kind == "offset":
        # offset-heavy rasters (float32 / float64 / integer), up to 4x6: the reference optimum is the exact recurrence above 9 cells
        shape = (rng.randrange(1, 5), rng.randrange(2, 7))
        a, _ = gen_raster(rng, kind="offset", shape=shape, dtype=rng.choice(["float64", "float64", "float32", "int32", "int64"]))
        ns = rng.choice([None, None, None, a.size, a.size + 5])
        k = rng.randrange(2, 6)
        return with_layout(rng, dict(kind="natural_breaks", raster=raster_json(a), k=k, num_sample=ns, gen=kind))
    if kind in ("sampled", "fallback-sampled"):
        a, _ = gen_raster(rng, kind="ties" if kind == "fallback-sampled" else "small", shape=shape,
                          dtype=rng.choice(["float64", "float32", "int32", "int64"] + NARROW_INTS))
        ns = rng.randrange(1, a.size)
    else:
        a, _ = gen_raster(rng, kind=kind, shape=shape)
        ns = rng.choice([None, None, a.size, a.size + 5, rng.randrange(1, a.size)])
    k = rng.randrange(1, 6)
    return with_layout(rng, dict(kind="natural_breaks", raster=raster_json(a), k=k, num_sample=ns, gen=kind))


def nb_sample(a, num_sample):
    """the sub-sample `_run_natural_break` draws (numpy RandomState recipe of the source; external)"""
    flat = a.flatten()
    if num_sample is not None and num_sample < a.size:
        gen = np.random.RandomState(1234567890)
        idx = np.linspace(0, a.size, a.size, endpoint=False, dtype=np.uint32)
        gen.shuffle(idx)
        flat = flat[idx[:num_sample]]
    return flat[np.isfinite(flat)]


def run_natural(c):
    from xrspatial.classify import natural_breaks
    a, keep = raster_pair(c)
    st, out = call(natural_breaks, mk(a), num_sample=c["num_sample"], k=c["k"])
    if st == "ok":
        out = compute(out)
    note_input(a, keep)
    return keep, st, out


def oracle_natural(c, a, st, out):
    k = c["k"]
    flat = a.ravel().tolist()
    fin = sorted(fr(v) for v in flat if isfin(v))
    sample = nb_sample(a, c["num_sample"])
    if not fin:
        return None
    branch = "jenks" if len(set(sample.tolist())) >= k else "fallback"
    if st != "ok":
        return f"{branch}:raises", f"natural_breaks raised {st}: {out}"
    res = out.ravel().tolist()
    bad = range_violation(flat, res, k, f"natural_breaks k={k} num_sample={c['num_sample']}")
    if bad:
        return f"{branch}:{bad[0]}", bad[1]
    mv = monotone_violation(flat, res)
    if mv:
        return f"{branch}:order", f"natural_breaks: {mv}"
    sampled = c["num_sample"] is not None and c["num_sample"] < a.size
    if branch == "jenks" and not sampled and len(fin) <= 40:
        groups = {}
        for v, o in zip(flat, res):
            if isfin(v):
                groups.setdefault(int(o), []).append(fr(v))
        cost = sum(ssd(g) for g in groups.values())
        best = optimum(fin, k)
        if not resolvable(fin, k, best):
            NOTES["unresolvable"] = NOTES.get("unresolvable", 0) + 1
        elif cost > best + opt_tol(fin, k, best):
            return "jenks:not-optimal", (f"natural_breaks k={k}: classes {res} of {flat} have within-class SSD {float(cost)}, "
                                         f"the optimal partition has {float(best)}")
    return None


def natural_request(c, a):
    sample = nb_sample(a, c["num_sample"])
    return f"natural_breaks cells={cells_tok(a)} sample={','.join(toks(sample.tolist()))} k={c['k']}"


def compare_classes(r, stream, c, real, rep, a, tie_ok=False):
    m = parse_res(rep)
    if m[0] != "ok":
        r.disagree(stream, c, "real ok", rep[:200])
        return
    res = real.ravel().tolist()
    if len(m[1]) == len(res) and all(same(x, y) for x, y in zip(res, m[1])):
        return
    if tie_ok:
        # an equally good partition chosen through a float tie in the DP is not a disagreement
        flat = a.ravel().tolist()

        sample = [fr(v) for v in nb_sample(a, c["num_sample"]).tolist()] if c["kind"] == "natural_breaks" \
            else [fr(v) for v in flat if isfin(v)]

        def cost_of(cls):
            # the DP optimises over the sample: cost of the partition the classes induce on the sample values
            cmap = {fr(v): int(o) for v, o in zip(flat, cls) if isfin(v) and o == o}
            g = {}
            for x in sample:
                g.setdefault(cmap.get(x), []).append(x)
            return sum(ssd(x) for x in g.values())
        fin = [fr(v) for v in flat if isfin(v)]
        if all((x != x) == (y != y) for x, y in zip(res, m[1])) and abs(cost_of(res) - cost_of(m[1])) <= dp_tol(fin):
            r.tag("natural_breaks:tie")
            return
    r.disagree(stream, c, [tok(x) for x in res], rep[:300])


# ---------------------------------------------------------------------------------------------- running one case
def fail_key(prefix, bad):
    if isinstance(bad, tuple):
        return f"{prefix}:{bad[0]}", bad[1]
    return prefix, bad


def eval_case(r, c, drv_reply=None, stream=None):
    """runs the real code + oracle (+ model comparison when a driver reply is given); returns True when it fails"""
    try:
        return eval_case_(r, c, drv_reply, stream)
    except Exception as ex:  # noqa: BLE001 -- an oracle that cannot digest the output: reported, never swallowed
        import traceback
        r.disagree("oracle-crash", c, repr(ex), traceback.format_exc()[-600:])
        return False


def eval_case_(r, c, drv_reply=None, stream=None):
    kind = c["kind"]
    if kind == "cpu_bin":
        return not check_bin_case(r, c, drv_reply, stream or "cpu_bin")
    if kind == "reclassify":
        a, bins, newv, st, out = run_reclass(c)
        bad = oracle_reclass(c, a, bins, newv, st, out)
        if bad:
            c, bad = shrink_reclass(c, bad)
            r.fail("reclassify:first-bin", bad, c)
            return True
        if input_failure(r, c):
            return True
        if drv_reply is not None and st == "ok":
            mo = [untok(t) for t in drv_reply.split(",")]
            if len(mo) != out.size or not all(same(x, y) for x, y in zip(out.ravel().tolist(), mo)):
                r.disagree("reclassify", c, toks(out.ravel().tolist()), drv_reply[:300])
        return False
    if kind == "binary":
        a, values, st, out = run_binary(c)
        bad = oracle_binary(c, a, values, st, out)
        if bad:
            r.fail("binary:membership", bad, c)
            return True
        if input_failure(r, c):
            return True
        if drv_reply is not None:
            body = drv_reply.split(":", 1)[1] if ":" in drv_reply else ""
            mo = [untok(t) for t in body.split(",")] if body else []
            if len(mo) != out.size or not all(same(x, y) for x, y in zip(out.ravel().tolist(), mo)):
                r.disagree("binary-kernel", c, toks(out.ravel().tolist()), drv_reply[:300])
        return False
    if kind == "equal_interval":
        a, st, out = run_equal_interval(c)
        bad = oracle_equal_interval(c, a, st, out)
        if bad:
            key, what = fail_key("equal_interval", bad)
            r.fail(key, what, c)
            return True
        if input_failure(r, c):
            return True
        if drv_reply is not None and c["gen"] == "exact":
            m = parse_res(drv_reply)
            if st != "ok":
                if m[0] != "err":
                    r.disagree("equal_interval", c, st, drv_reply[:200])
            else:
                compare_classes(r, "equal_interval", c, out, drv_reply, a)
        return False
    if kind == "quantile":
        a, rec, st, q, st2, out = run_quantile(c)
        bad = oracle_quantile(c, a, rec, st, q, st2, out)
        if bad:
            key, what = fail_key("quantile", bad)
            r.fail(key, what, c)
            return True
        if input_failure(r, c):
            return True
        return (a, rec, st, q, st2, out)
    if kind == "natural_breaks":
        a, st, out = run_natural(c)
        bad = oracle_natural(c, a, st, out)
        if NOTES.pop("unresolvable", 0):
            r.tag("natural_breaks:not-resolvable-in-float32-tables")
        if bad:
            key, what = fail_key("natural_breaks", bad)
            r.fail(key, what, c)
            return True
        if input_failure(r, c):
            return True
        if drv_reply is not None and st == "ok":
            compare_classes(r, "natural_breaks", c, out, drv_reply, a, tie_ok=True)
        return False
    if kind == "jenks":
        return False
    raise ValueError(kind)


def model_request(c):
    kind = c["kind"]
    if kind == "cpu_bin":
        return bin_request(c)
    a = raster_from(c["raster"]) if "raster" in c else None
    if kind == "reclassify":
        if len(c["bins"]) != len(c["newv"]) or not c["bins"]:
            return None
        # through `_run_numpy_bin`'s casts as read from the source (Gen.runBinCasts), for this raster dtype
        return f"bin bins={','.join(c['bins'])} newv={','.join(c['newv'])} vals={cells_tok(a)} ddt={a.dtype.name}"
    if kind == "binary":
        h, w = a.shape
        vals = [untok(t) for t in c["values"]]
        if np.issubdtype(a.dtype, np.integer):
            return None          # integer rasters: `values == data[y, x]` compares integers; checked by the oracle only
        vv = np.array(vals, dtype=np.float64) if vals else np.array([], dtype=np.float64)
        return (f"kernel name=binary_cpu rows={h} cols={w} a:data={h}x{w}:{cells_tok(a.astype(np.float64))} "
                f"v:values={','.join(toks(vv.tolist()))}")
    if kind == "equal_interval":
        return f"equal_interval cells={cells_tok(a)} k={c['k']}" if c["gen"] == "exact" else None
    if kind == "natural_breaks":
        if not any(isfin(v) for v in a.ravel().tolist()) or c["k"] < 1:
            return None
        return natural_request(c, a)
    return None


# ---------------------------------------------------------------------------------------------- the check
def stream_generic(r, drv, name, cases):
    reqs = [(c, model_request(c)) for c in cases]
    replies = iter(drv.ask([q for _, q in reqs if q is not None]))
    for i, (c, q) in enumerate(reqs):
        rep = next(replies) if q is not None else None
        a = c.get("raster", {})
        r.case(c, desc=c if i == 0 else None, nontrivial=True,
               tags=[f"{name}:gen={c.get('gen')}", f"{name}:dtype={a.get('dtype')}", f"{name}:backend={c.get('backend', 'numpy')}"]
               + ([f"{name}:k={c['k']}"] if "k" in c else [])
               + ([f"{name}:layout={a.get('layout', 'C')}"] if a else [])
               + ([f"{name}:num_sample=" + ("None" if c["num_sample"] is None else ">=size" if c["num_sample"] >= len(a["vals"])
                                            else "<size")] if "num_sample" in c else []))
        if a:
            vals = [untok(t) for t in a["vals"]]
            r.tag(f"{name}:cells-nonfinite", sum(1 for v in vals if v != v or math.isinf(v)))
            r.tag(f"{name}:cells-finite", sum(1 for v in vals if v == v and not math.isinf(v)))
        eval_case(r, c, rep, name)


def stream_quantile(r, drv, cases):
    pend, reqs = [], []
    for i, c in enumerate(cases):
        r.case(c, desc=c if i == 0 else None, nontrivial=True,
               tags=[f"quantile:gen={c['gen']}", f"quantile:k={c['k']}", f"quantile:dtype={c['raster']['dtype']}",
                     f"quantile:layout={c['raster'].get('layout', 'C')}"])
        res = eval_case(r, c)
        if res is True or res is False:
            continue
        a, rec, st, q, st2, out = res
        if rec.q is None:
            continue
        reqs.append(f"quantile cells={cells_tok(a)} qs={','.join(toks(np.asarray(rec.q, dtype=np.float64).tolist()))} k={c['k']}")
        pend.append((c, a, q, out))
    for (c, a, q, out), rep in zip(pend, drv.ask(reqs)):
        m = parse_res(rep)
        if m[0] == "ok" and [fr(x) for x in np.asarray(q).tolist()] != m[2]:
            r.disagree("quantile-bins", c, toks(np.asarray(q).tolist()), rep[:300])
            continue
        compare_classes(r, "quantile", c, out, rep, a)


def stream_jenks(r, drv, cases):
    reqs = []
    for c in cases:
        xs = ",".join(c["xs"])
        reqs += [f"jenks_mat xs={xs} k={c['k']}", f"jenks_breaks xs={xs} k={c['k']}"]
    reps = drv.ask(reqs)
    for i, c in enumerate(cases):
        r.case(c, desc=c if i == 0 else None, nontrivial=len(set(c["xs"])) > 1,
               tags=[f"jenks:gen={c['gen']}", f"jenks:n={len(c['xs'])}", f"jenks:k={c['k']}"])
        check_jenks(r, c, reps[2 * i], reps[2 * i + 1])


def stream_round32(r, drv, n):
    """the driver's `roundF32` (used when the source casts an operand to float32) against numpy's conversion"""
    rng = r.rng
    xs = []
    for _ in range(n):
        b = edge_base(rng)
        if not abs(b) < 3e38:
            continue
        x = float(np.float32(b))
        up = nx32(x, True)
        xs += [b, x] + ([(x + up) / 2, nx64((x + up) / 2, True), nx64((x + up) / 2, False)] if math.isfinite(up) else [])
    reps = drv.ask([f"round32 q={tok(x)}" for x in xs])
    for x, rep in zip(xs, reps):
        r.case(dict(kind="round32", x=tok(x)), nontrivial=True, tags=["round32"])
        try:
            ok = Fraction(rep) == Fraction(float(np.float32(x)))
        except ValueError:
            ok = False
        if not ok:
            r.disagree("round32", dict(kind="round32", x=tok(x)), tok(float(np.float32(x))), rep[:80])


def check_facts(r, drv):
    """the generated facts the theorems rely on must be what the driver was built with"""
    rep = drv.ask(["class_facts"])[0]
    r.extra["class_facts"] = rep
    want = ["shape_ok=true", "canonical=true", "kclass=float64", "nb_jenks=true", "nb_fallback=true", "qgrid=true",
            "eqint=true", "casts=true", "chain=true"]
    missing = [w for w in want if w not in rep.split()]
    if missing:
        r.notes.append("generated facts differ from what Props/C12.lean requires: " + ", ".join(missing))
    return missing


def run(r, scale=1):
    drv = Driver()
    n = {"quick": 3, "thorough": 48}[r.tier] * scale
    r.rule = ("_cpu_bin: exhaustive (all weakly ascending bin lists of length <= 8 over a small alphabet x all half-integer "
              "positions + NaN/inf, 5 dtype pairs) + random ascending/+-inf/unsorted/NaN bins; classifiers: rasters <= 4x5 on "
              "integer / half-integer / wide lattices, ties, NaN/+-inf cells, float32/float64/int32/int64 (+ int16/uint8 on the "
              "small lattices), memory layouts C / Fortran / strided / negative strides / window of a larger array, cells in no "
              "particular order, a private copy taken before the call (oracles judge against it; a raster that differs from it "
              "after the call is the failing input), natural_breaks with num_sample None / >= size / < size, values not "
              "representable in float32 (0.1, 1/3, 2^24+1, ...), numpy and dask backends, k in 1..12 (+23/29/31/36 for "
              "quantile), sampled natural_breaks; offset-heavy data (quantile, natural_breaks, Jenks tables): offset / spread ratio 10..1e4 "
              "with a spread of 5..100, uniform or plateaus + noise, float32 / float64 (eighths, or doubles that are not float32 numbers) / "
              "int32 / int64, rasters up to 4x6 -- optimality against brute force (n <= 9) or the exact rational recurrence (n <= 40) within "
              "opt_tol = what float32 tables resolve for that data (|e_1| + 4k 2^-24 (best + ...) + ...); the Jenks-table stream draws "
              "offset data whose squares are float32 numbers (integers below 4096 times 2^-6..2^4), where the exact model applies digit "
              "for digit; precision edges (reclassify, _cpu_bin): float32 / float64 / int32 / int64 "
              "cells with float64 bounds on, one ulp of either precision beside, and half way between the cells "
              "(decimals, thirds, integers beyond 2^24, subnormals, 1e38), through _run_numpy_bin's casts; "
              "il:cpuBin: the generated ILang program of _cpu_bin vs numba, fuel = nbins + 1 (ascending / tied / unsorted / "
              "+-inf / NaN bins, 1..130 bins, no bins with an all-non-finite raster, cells on / beside / between the bounds, "
              "empty rasters, float32 / float64); Jenks tables on sorted samples n <= 9 (12 thorough) against brute force. "
              "non-trivial = distinct case with at least two distinct finite values")
    try:
        check_facts(r, drv)
    except Exception as ex:  # an old driver without the command
        r.notes.append("class_facts: " + repr(ex))
    # corpus first
    for body in r.corpus():
        c = body["case"]
        r.case(c, nontrivial=True, tags=["corpus"])
        res = eval_case(r, c)
    stream_cpu_bin(r, drv)
    # layer T3: the program generated statement by statement from `_cpu_bin` (Gen.IL.cpuBin, the subject of the
    # refinement theorems `generated_cpu_bin_*`) against the numba-compiled function, run with fuel = nbins + 1
    il_corr.stream(r, ["cpuBin"], {"quick": 1000, "thorough": 10000}[r.tier] * scale, drv)
    rng = r.rng
    stream_round32(r, drv, 60 * n)
    stream_generic(r, drv, "reclassify", [gen_reclass(rng) for _ in range(250 * n)])
    stream_generic(r, drv, "binary", [gen_binary(rng) for _ in range(200 * n)])
    stream_generic(r, drv, "equal_interval", [gen_equal_interval(rng) for _ in range(250 * n)]
                   + [gen_equal_interval(rng, wild=True) for _ in range(120 * n)])
    stream_quantile(r, drv, [gen_quantile(rng) for _ in range(200 * n)] + [gen_quantile(rng, k) for k in (23, 29, 31, 36)])
    stream_jenks(r, drv, [gen_jenks(rng, 9 if r.tier == "quick" else 12) for _ in range(250 * n)])
    stream_generic(r, drv, "natural_breaks", [gen_natural(rng) for _ in range(250 * n)]
                   + [gen_natural(rng, t) for t in ("f32x", "bigint", "fallback-sampled") for _ in range(12)])
    r.exhaustive = True


def search(r):
    """a proof obligation or the correspondence broke: look for a failing input with the oracles on larger and
    targeted streams (the functions named by the broken facts first)"""
    rng = r.rng
    r.tier_backup = r.tier
    targeted = []
    targeted += [gen_natural(rng, t) for t in ("f32x", "bigint", "fallback-sampled", "sampled", "offset", "offset") for _ in range(150)]
    targeted += [gen_quantile(rng, k) for k in QUANTILE_KS for _ in range(6)]
    targeted += [gen_reclass(rng, edges=True) for _ in range(400)]
    targeted += [gen_equal_interval(rng) for _ in range(300)] + [gen_reclass(rng, edges=False) for _ in range(400)]
    targeted += [gen_binary(rng) for _ in range(300)]
    for c in targeted:
        r.case(c, nontrivial=True, tags=["search"])
        eval_case(r, c)
        if len({f["key"] for f in r.failures}) >= 6:
            return
    for c in gen_bin_exhaustive(r, 8, 4) + gen_bin_random(rng, 3000, 8):
        r.case(dict(kind="cpu_bin", bins=c["bins"]), nontrivial=True, tags=["search"])
        check_bin_case(r, c, None, "search")
        if any(f["key"].startswith("cpu_bin") for f in r.failures):
            return


def replay(r, body):
    c = body.get("case")
    if c is None or (isinstance(c, dict) and "prog" in c):
        # a translator-validation case of layer T3 (`il:cpuBin`): recorded as a disagreement
        ils = [c] if c is not None else [d["case"] for d in body.get("disagreements", [])
                                         if str(d.get("stream", "")).startswith("il:")]
        bad = sum(il_corr.replay_case(k) for k in ils)
        print("still disagrees: il:cpuBin" if bad else "does not fail on the current tree")
        return 1 if bad else 0
    before = len(r.failures)
    if c["kind"] == "jenks":
        drv = Driver()
        xs = ",".join(c["xs"])
        reps = drv.ask([f"jenks_mat xs={xs} k={c['k']}", f"jenks_breaks xs={xs} k={c['k']}"])
        check_jenks(r, c, reps[0], reps[1])
    else:
        eval_case(r, c)
    if len(r.failures) > before:
        print("still fails:", r.failures[-1]["what"])
        return 1
    print("does not fail on the current tree")
    return 0
