"""
Edge-value families for checks whose property speaks of *equality* or *order* of cell values
(C17 local operators, C18 trim / crop; written so that other checks can import it).

Principle: a harness draws candidate values from these families, stores them in an array of some dtype,
reads the STORED value back exactly (`exact`) and lets its oracle compare with real-number equality
(`Fraction`s; IEEE `==` for +-inf; NaN equal to nothing).  No tolerance anywhere: the families exist to
put values next to each other that a tolerance, a narrowing cast or an arithmetic shortcut would
confuse although they are different numbers -- and values that are the same number in different
clothes (-0.0 / 0.0, 3 / 3.0, one value in two dtypes).

  anchors(dtype)            base values representable in the dtype (small, dtype limits, >= 1e5, 2^24, 2^53 ..)
  neighbours(x, dtype)      values of the dtype that are near x but different: nextafter in float64 and
                            float32, relative 1e-5..1e-9, absolute 1e-8..1e-12, +-1 (+-2, +-|x|*5e-6) on integers
  specials(dtype)           +-inf, -0.0, 0.0, tiny / subnormal / huge magnitudes, the integer limits
  foreign(dtype)            list entries the dtype cannot hold: NaN, +-inf, limits +-1, negative for
                            unsigned, fractional, beyond 2^bits
  aliases(c, dtype)         values x != c which `np.asarray(x).astype(dtype)` maps onto the stored value c
                            (wrap-around, truncation, NaN/inf -> whatever this platform gives)
  store / exact / vtok / vuntok   exact transport of a value through JSON case files
"""
import math
import warnings
from fractions import Fraction

import numpy as np

INT_DTYPES = ["int8", "uint8", "int16", "uint16", "int32", "uint32", "int64", "uint64"]
FLOAT_DTYPES = ["float32", "float64"]
ALL_DTYPES = FLOAT_DTYPES + INT_DTYPES
EXACT_LIMIT = 2 ** 53          # every integer up to here is a float64: mixed int/float comparisons stay exact

REL_STEPS = [1e-5, 1e-6, 1e-7, 1e-8, 1e-9]
ABS_STEPS = [1e-8, 1e-9, 1e-10, 1e-11, 1e-12]


def is_float(dtype):
    return np.dtype(dtype).kind == "f"


def limits(dtype):
    """(lowest, highest) finite value of the dtype, exact (int for integer dtypes)"""
    dt = np.dtype(dtype)
    if dt.kind == "f":
        fi = np.finfo(dt)
        return float(fi.min), float(fi.max)
    ii = np.iinfo(dt)
    return int(ii.min), int(ii.max)


def bits(dtype):
    return np.dtype(dtype).itemsize * 8


# ---------------------------------------------------------------- exact transport
def exact(v):
    """numpy / python scalar -> Fraction | 'nan' | 'inf' | '-inf'  (-0.0 is the number 0)"""
    if isinstance(v, np.generic):
        v = v.item()
    if isinstance(v, bool):
        return Fraction(int(v))
    if isinstance(v, int):
        return Fraction(v)
    if isinstance(v, Fraction):
        return v
    v = float(v)
    if v != v:
        return "nan"
    if math.isinf(v):
        return "inf" if v > 0 else "-inf"
    return Fraction(v)


def vtok(v):
    """exact token of a scalar: nan | inf | -inf | -0.0 | <int> | <m>@<e>  (the value, not its type)"""
    if isinstance(v, np.generic):
        v = v.item()
    if isinstance(v, bool):
        return str(int(v))
    if isinstance(v, int):
        return str(v)
    v = float(v)
    if v != v:
        return "nan"
    if math.isinf(v):
        return "inf" if v > 0 else "-inf"
    if v == 0:
        return "-0.0" if math.copysign(1.0, v) < 0 else "0"
    if v == int(v) and abs(v) < 2 ** 63:
        return str(int(v))
    m, e = math.frexp(v)
    return f"{int(m * 2 ** 53)}@{e - 53}"


def vuntok(s):
    """token -> python int (integral values) or float; exact"""
    if s == "nan":
        return float("nan")
    if s == "inf":
        return float("inf")
    if s == "-inf":
        return float("-inf")
    if s == "-0.0":
        return -0.0
    if "@" in s:
        m, e = s.split("@")
        return math.ldexp(int(m), int(e))
    if "/" in s:
        return float(Fraction(s))
    return int(s)


def model_tok(s):
    """the token as the Lean driver reads it (`Wire.parseNum`): -0.0 is the number 0"""
    return "0" if s == "-0.0" else s


def store(x, dtype):
    """the numpy scalar of `dtype` holding exactly the number x, or None when the dtype cannot hold it
    (NaN / +-inf / -0.0 are held by the float dtypes only)"""
    dt = np.dtype(dtype)
    if isinstance(x, np.generic):
        x = x.item()
    if dt.kind == "f":
        try:
            with warnings.catch_warnings():
                warnings.simplefilter("ignore")
                v = dt.type(x)
        except OverflowError:
            return None
        if isinstance(x, float) and (x != x or math.isinf(x)):
            return v
        if math.isinf(float(v)):
            return None
        return v if exact(v) == exact(x) else None
    if isinstance(x, float):
        if x != x or math.isinf(x) or x != int(x):
            return None
        x = int(x)
    lo, hi = limits(dt)
    return dt.type(x) if lo <= x <= hi else None


def array(tokens2d, dtype):
    """grid of tokens -> C-contiguous array of `dtype` holding exactly those values (asserted)"""
    dt = np.dtype(dtype)
    h, w = len(tokens2d), len(tokens2d[0])
    a = np.empty((h, w), dtype=dt)
    for i, row in enumerate(tokens2d):
        for j, t in enumerate(row):
            v = store(vuntok(t), dt)
            if v is None:
                raise ValueError(f"{t} is not a {dt} value")
            a[i, j] = v
    return a


# ---------------------------------------------------------------- families
def anchors(dtype):
    """base values held by the dtype: ordinary ids, the dtype's limits, magnitudes where a relative
    tolerance spans several integers (>= 1e5), float32 / float64 integer limits"""
    lo, hi = limits(dtype)
    cand = [0, 1, 2, 3, 4, 7, 100, 127, 128, 255, 256, 1000, 5000, 32767, 32768, 65535, 65536,
            100000, 100001, 123456, 200000, 999999, 1234567, 2 ** 24 - 1, 2 ** 24, 2 ** 24 + 1,
            2 ** 31 - 1, 2 ** 31, 2 ** 32 - 1, 2 ** 32, 36061000100, 10 ** 11, 10 ** 15,
            EXACT_LIMIT - 1, EXACT_LIMIT]
    cand += [-c for c in cand if c] + [-129, -32769, -2 ** 31 - 1]
    if is_float(dtype):
        cand += [0.5, 0.25, 0.1, 0.3, 0.1 + 0.2, 1 / 3, 1000.004, 5000.04, 2.5, 1e-9, 1e-12, 1e-300, 5e-324,
                 1e30, 1e300, hi, -hi, float(np.finfo(np.dtype(dtype)).tiny)]
    else:
        cand += [lo, hi, hi - 1, lo + 1]
    out, seen = [], set()
    for c in cand:
        v = store(c, dtype)
        if v is None or (not is_float(dtype) and abs(int(v)) > EXACT_LIMIT):
            continue
        k = exact(v)
        if k not in seen:
            seen.add(k)
            out.append(v.item())
    return out


def neighbours(x, dtype):
    """values of `dtype` near the finite number x (held by the dtype) and different from it"""
    dt = np.dtype(dtype)
    xv = store(x, dt)
    if xv is None or (dt.kind == "f" and not math.isfinite(float(xv))):
        return []
    cand = []
    if dt.kind == "f":
        xf = float(xv)
        for d in (math.inf, -math.inf):
            cand.append(np.nextafter(dt.type(xf), dt.type(d)))
            cand.append(np.nextafter(np.float32(xf), np.float32(d)))        # a float64 holds every float32
        for r in REL_STEPS:
            cand += [xf * (1 + r), xf * (1 - r)]
        for a in ABS_STEPS:
            cand += [xf + a, xf - a]
    else:
        xi = int(xv)
        steps = [1, 2]
        if abs(xi) >= 100000:
            steps += [max(1, int(abs(xi) * 5e-6)), max(1, int(abs(xi) * 9e-6))]
        for s in steps:
            cand += [xi + s, xi - s]
    out, seen = [], {exact(xv)}
    with warnings.catch_warnings():
        warnings.simplefilter("ignore")
        for c in cand:
            if dt.kind == "f":
                v = dt.type(c)
                if not math.isfinite(float(v)):
                    continue
            else:
                v = store(c, dt)
                if v is None or abs(int(v)) > EXACT_LIMIT:
                    continue
            k = exact(v)
            if k not in seen:
                seen.add(k)
                out.append(v.item())
    return out


def specials(dtype):
    """values that behave specially under arithmetic or casts"""
    lo, hi = limits(dtype)
    if is_float(dtype):
        fi = np.finfo(np.dtype(dtype))
        t = np.dtype(dtype).type
        return [math.inf, -math.inf, 0.0, -0.0, float(fi.tiny), -float(fi.tiny), float(fi.smallest_subnormal),
                hi, lo, float(t(hi / 2)), float(t(1e30)), float(t(-1e30))]
    return [v for v in (lo, lo + 1, -1, 0, 1, hi - 1, hi) if lo <= v <= hi and abs(v) <= EXACT_LIMIT]


def foreign(dtype, as_float):
    """list entries (all float or all int, as numba wants homogeneous lists) that `dtype` cannot hold"""
    lo, hi = limits(dtype)
    if is_float(dtype):
        if as_float:
            out = [math.nan]
            if np.dtype(dtype) == np.float32:
                out += [0.1, 1 / 3, 1e300, 16777217.0, 1e-50]
            return out
        return [2 ** 24 + 1] if np.dtype(dtype) == np.float32 else []
    b = bits(dtype)
    ints = [hi + 1, hi + 2, lo - 1, 2 ** b, 2 ** b + 1, -(2 ** b), hi + 1 + 2 ** b] + ([-1, -2, -255, -256] if lo == 0 else [])
    ints = [v for v in ints if abs(v) <= EXACT_LIMIT and not (lo <= v <= hi)]
    if as_float:
        return [math.nan, math.inf, -math.inf, 0.5, -0.5, 1.5, 0.999999, 254.5] + [float(v) for v in ints]
    return ints


def cast_image(x, dtype):
    """what `np.asarray(x).astype(dtype)` gives on this platform (python scalar)"""
    with warnings.catch_warnings():
        warnings.simplefilter("ignore")
        try:
            return np.asarray([x]).astype(dtype)[0].item()
        except (OverflowError, ValueError):
            return None


def same_number(a, b):
    """real-number / IEEE equality of two scalars: NaN equals nothing, -0.0 == 0.0, 3 == 3.0"""
    ea, eb = exact(a), exact(b)
    return ea != "nan" and ea == eb


def aliases(c, dtype, as_float):
    """entries x, different from the stored value c, that a cast to `dtype` maps onto c"""
    cv = store(c, dtype)
    if cv is None:
        return []
    c0 = cv.item()
    cand = []
    if not is_float(dtype):
        b = bits(dtype)
        cand += [c0 + 2 ** b, c0 - 2 ** b, c0 + 2 ** (b + 1)]
        if as_float:
            cand = [float(v) for v in cand if abs(v) <= EXACT_LIMIT]
            cand += [c0 + 0.5, c0 - 0.5, c0 + 0.25, c0 + 0.999, math.nan, math.inf, -math.inf]
    elif np.dtype(dtype) == np.float32 and as_float:
        x = float(c0)
        cand += [float(np.nextafter(np.float64(x), np.float64(math.inf))), float(np.nextafter(np.float64(x), np.float64(-math.inf))),
                 x * (1 + 1e-9), x + 1e-12]
    out = []
    for x in cand:
        if isinstance(x, int) and abs(x) > EXACT_LIMIT:
            continue
        img = cast_image(x, dtype)
        if img is not None and same_number(img, c0) and not same_number(x, c0):
            out.append(x)
    return out


def layout(a, how):
    """the same values under another memory layout: C / F / strided / stridedF / neg"""
    a = np.ascontiguousarray(a)
    h, w = a.shape
    if how == "C":
        return a
    if how == "F":
        return np.asfortranarray(a)
    if how == "strided":
        big = np.zeros((2 * h, 3 * w), dtype=a.dtype)
        v = big[::2, ::3]
        v[...] = a
        return v
    if how == "stridedF":
        big = np.zeros((3 * w, 2 * h), dtype=a.dtype)
        v = big.T[::2, ::3]
        v[...] = a
        return v
    if how == "neg":
        big = np.ascontiguousarray(a[::-1, ::-1])
        return big[::-1, ::-1]
    raise ValueError(how)
