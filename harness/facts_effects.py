"""
T2 generator for C11: effect summaries of /repo's CURRENT source -> lean/XrsVerif/Gen/Effects.lean.

Only `ast` is used; nothing of /repo is imported.  For every function of every xrspatial module
(tests excluded) the generator extracts, in source order and keeping the if/for/while/try structure:

  * np.random.seed / np.random.<draw> / stdlib random / entropy sources (time, os.urandom, uuid ...),
    unseeded RandomState() / default_rng()                                 -> seed / draw atoms
  * module-level mutable objects (dict / list / set / array literals, comprehensions, constructor or
    unknown calls) and who reads / mutates them (subscript store, del, augmented assignment, mutator
    methods, passing them to a callee that mutates its parameter)          -> read / mutate table
  * mutable default arguments and who reads / mutates them                 -> read / mutate dflt
  * `global` statements (a module-level name rebound at run time) and every read of such a name
                                                                           -> read / mutate glob
  * functools.lru_cache / cache / memo decorators                          -> read + mutate of a memo table
  * numba functions: decorator options (parallel, cache, fastmath), prange use, racy prange bodies,
    free variables (module globals -> `Capture.cell`, variables of an enclosing function ->
    `Capture.arg`), and whether the dispatcher is created per call (jit applied to a nested def)
                                                                           -> jit atoms, KernelFacts
  * jit *call expressions* anywhere in a module -- `nb.jit(parallel=True)(f.py_func)`, `ngjit(f)`,
    `X = jit(...)(f)` at module level or inside a function: a second compilation of `f` with the
    options of that call                                                   -> KernelFacts, callee inlined
  * module-level random generator OBJECTS (`G = np.random.RandomState(123)`): mutable module state that
    every function drawing from it reads and advances                      -> seed / draw table
  * writes to attributes / items of a function's own PARAMETERS (`agg.attrs[k] = v`, `raster[x] = v`,
    `arrays[i].data = ...`, mutator methods, in-place numpy helpers), followed through helper calls
    per call site (only what is rooted in a parameter of the caller counts): for a PUBLIC function
    these are writes to state the *caller* owns and keeps after the call      -> mutate param;
    loads of `p.attrs / p.coords / p.name` of a parameter                  -> read param
  * functions handed to dask (map_blocks / map_overlap / delayed / blockwise / reduction)
  * for the seeded generators: which aspects of the template raster are read (shape / dtype / ... vs
    its cell *values* while they are still the caller's)

Helpers are inlined at every reference, so the summary of a public function is the whole call tree.
Anything that does not have the expected shape is emitted as an effect that cannot satisfy the
theorems (e.g. an unresolvable call through a shared table is a read of that table), never dropped.
"""
import ast
import builtins
import os

from translate import lean_str, str_list

SKIP_DIRS = {"tests", "datasets", "__pycache__"}
SKIP_FILES = {"_version.py", "__main__.py"}

MUTATORS = {"append", "extend", "insert", "pop", "remove", "clear", "update", "setdefault", "add", "discard",
            "sort", "reverse", "fill", "put", "resize", "popitem", "itemset", "__setitem__", "__delitem__",
            "setflags", "partition", "byteswap", "appendleft", "popleft", "extendleft", "rotate",
            "move_to_end", "subtract", "difference_update", "intersection_update",
            "symmetric_difference_update", "set", "store", "register", "write", "cache_clear"}
NP_INPLACE_FUNCS = {"put", "place", "copyto", "putmask", "fill_diagonal", "put_along_axis"}
CONTAINER_CALLS = {"dict", "list", "set", "defaultdict", "OrderedDict", "Counter", "deque", "bytearray",
                   "array", "zeros", "ones", "empty", "full", "arange", "asarray", "linspace", "eye",
                   "zeros_like", "ones_like", "empty_like", "full_like", "DataFrame", "Series", "DataArray"}
JIT_NAMES = {"jit", "njit", "vectorize", "guvectorize", "generated_jit", "stencil"}
MEMO_DECOS = {"lru_cache", "cache", "cached_property", "memoize", "memoized", "cached"}
DASK_TASK_CALLS = {"map_blocks", "map_overlap", "delayed", "blockwise", "reduction", "apply_gufunc", "from_delayed"}
RNG_SEED = {"seed", "set_state"}
RNG_READ = {"get_state"}
RNG_LOCAL = {"RandomState", "default_rng", "Generator", "SeedSequence", "PCG64", "MT19937", "Philox", "SFC64",
             "BitGenerator", "mtrand", "bit_generator"}
VIEW_FUNCS = {"asarray", "asanyarray", "ascontiguousarray", "ravel", "reshape", "squeeze", "view", "transpose", "atleast_1d",
              "atleast_2d", "atleast_3d", "swapaxes", "moveaxis", "get", "setdefault"}
RNG_OBJECTS = {"RandomState", "default_rng", "Generator", "Random"}
PARAM_ASPECTS = ("attrs", "coords", "name", "binding", "cells", "object")
ENTROPY = {("time", "time"), ("time", "time_ns"), ("time", "perf_counter"), ("time", "monotonic"),
           ("time", "process_time"), ("os", "urandom"), ("os", "getpid"), ("uuid", "uuid1"), ("uuid", "uuid4"),
           ("secrets", "token_bytes"), ("secrets", "randbits"), ("secrets", "token_hex"),
           ("datetime", "now"), ("datetime", "today"), ("datetime", "utcnow")}
META_ATTRS = {"shape", "dtype", "ndim", "size", "chunks", "chunksize", "nbytes", "itemsize", "numblocks", "npartitions"}
META_FUNCS = {"zeros_like", "empty_like", "ones_like", "full_like", "isinstance", "type", "len", "cuda_args"}
BUILTINS = set(dir(builtins))

SEEDED_GENERATORS = [("perlin", "perlin"), ("terrain", "generate_terrain")]


def mod_name(rel):
    """xrspatial/experimental/polygonize.py -> experimental.polygonize"""
    r = rel[len("xrspatial/"):] if rel.startswith("xrspatial/") else rel
    r = r[:-3]
    if r.endswith("/__init__"):
        r = r[:-len("/__init__")]
    if r == "__init__":
        r = ""
    return r.replace("/", ".")


def dotted(n):
    """a.b.c -> ['a','b','c'] or None"""
    parts = []
    while isinstance(n, ast.Attribute):
        parts.append(n.attr)
        n = n.value
    if isinstance(n, ast.Name):
        parts.append(n.id)
        return parts[::-1]
    return None


class Module:
    def __init__(self, rel, tree):
        self.rel, self.tree = rel, tree
        self.name = mod_name(rel)
        self.imports = {}      # local name -> ("mod", dotted external module) | ("from", module, name)
        self.assigns = {}      # module-level name -> value node (last assignment)
        self.funcs = {}        # name -> FunctionDef (module level)
        self.classes = {}      # name -> ClassDef
        self.kind = {}         # module-level name -> 'table' | 'const' | 'deco'
        self.global_written = set()
        for st in tree.body:
            self._top(st)

    def _top(self, st):
        if isinstance(st, (ast.If, ast.Try)):
            for sub in ast.iter_child_nodes(st):
                if isinstance(sub, ast.stmt):
                    self._top(sub)
                elif isinstance(sub, ast.ExceptHandler):
                    for s2 in sub.body:
                        self._top(s2)
            return
        if isinstance(st, ast.Import):
            for a in st.names:
                self.imports[(a.asname or a.name).split(".")[0]] = ("mod", a.name if a.asname else a.name.split(".")[0])
        elif isinstance(st, ast.ImportFrom):
            base = st.module or ""
            if st.level:
                pkg = ("xrspatial." + self.name).split(".")
                pkg = pkg[:-1] if not self.rel.endswith("__init__.py") else pkg
                pkg = pkg[:len(pkg) - (st.level - 1)]
                base = ".".join(pkg + ([base] if base else []))
            for a in st.names:
                self.imports[a.asname or a.name] = ("from", base, a.name)
        elif isinstance(st, (ast.FunctionDef, ast.AsyncFunctionDef)):
            self.funcs[st.name] = st
        elif isinstance(st, ast.ClassDef):
            self.classes[st.name] = st
        elif isinstance(st, (ast.Assign, ast.AnnAssign, ast.AugAssign)):
            targets = st.targets if isinstance(st, ast.Assign) else [st.target]
            for t in targets:
                for n in ast.walk(t):
                    if isinstance(n, ast.Name) and st.value is not None:
                        self.assigns[n.id] = st.value
                        self.kind[n.id] = classify_value(st.value)


def classify_value(v):
    if isinstance(v, (ast.Dict, ast.List, ast.Set, ast.ListComp, ast.DictComp, ast.SetComp)):
        return "table"
    if isinstance(v, ast.Call):
        d = dotted(v.func)
        last = d[-1] if d else None
        if last in JIT_NAMES or (d and "jit" in d):
            return "deco"
        if last in RNG_OBJECTS and d and ("random" in d or len(d) == 1):
            return "rng"         # a generator object with its own state, shared by everybody who draws from it
        if last in ("namedtuple", "TypeVar", "compile", "getLogger", "frozenset", "tuple", "float", "int", "str",
                    "dtype", "float32", "float64", "int32", "int64", "uint8", "uint32", "radians", "sqrt"):
            return "const"
        return "table"       # container constructors and every unknown call: an object somebody could mutate
    if isinstance(v, ast.IfExp):
        a, b = classify_value(v.body), classify_value(v.orelse)
        return "table" if "table" in (a, b) else "const"
    return "const"


def is_mutable_default(v):
    if isinstance(v, (ast.Dict, ast.List, ast.Set, ast.ListComp, ast.DictComp, ast.SetComp)):
        return True
    if isinstance(v, ast.Call):
        d = dotted(v.func)
        return bool(d) and d[-1] in CONTAINER_CALLS
    return False


class Repo:
    def __init__(self, repo):
        self.repo = repo
        self.mods = {}
        root = os.path.join(repo, "xrspatial")
        for dp, dns, fns in os.walk(root):
            dns[:] = sorted(d for d in dns if d not in SKIP_DIRS)
            for fn in sorted(fns):
                if fn.endswith(".py") and fn not in SKIP_FILES:
                    rel = os.path.relpath(os.path.join(dp, fn), repo)
                    try:
                        tree = ast.parse(open(os.path.join(repo, rel)).read())
                    except SyntaxError:
                        continue
                    m = Module(rel, tree)
                    self.mods[m.name] = m
        # pass 1: names rebound through `global`
        for m in self.mods.values():
            for node in ast.walk(m.tree):
                if isinstance(node, (ast.FunctionDef, ast.AsyncFunctionDef)):
                    gl = set()
                    for n in ast.walk(node):
                        if isinstance(n, ast.Global):
                            gl.update(n.names)
                    for n in ast.walk(node):
                        if isinstance(n, ast.Name) and isinstance(n.ctx, (ast.Store, ast.Del)) and n.id in gl:
                            m.global_written.add(n.id)

    def resolve(self, m, name, depth=0):
        """module-level meaning of `name` in module m:
           ('func', mod, fname) | ('class', mod, cname) | ('var', mod, vname, kind) | ('ext', dotted) | None"""
        if depth > 6:
            return None
        if name in m.funcs:
            return ("func", m.name, name)
        if name in m.classes:
            return ("class", m.name, name)
        if name in m.assigns:
            return ("var", m.name, name, m.kind.get(name, "const"))
        imp = m.imports.get(name)
        if imp is None:
            return None
        if imp[0] == "mod":
            return ("ext", imp[1])
        _, base, orig = imp
        if base == "xrspatial" or base.startswith("xrspatial."):
            sub = base[len("xrspatial"):].lstrip(".")
            if sub in self.mods:
                return self.resolve(self.mods[sub], orig, depth + 1) or ("ext", base + "." + orig)
            cand = (sub + "." + orig).lstrip(".")
            if cand in self.mods:
                return ("ext", "xrspatial." + cand)
            return ("ext", base + "." + orig)
        return ("ext", base + "." + orig)


# ------------------------------------------------------------------------------------------------ jit facts
def deco_info(R, m, func):
    """-> dict(kind='jit'|'cuda'|None, parallel, cache, fastmath, memo) for a FunctionDef"""
    info = dict(kind=None, parallel=False, cache=False, fastmath=False, memo=False, text=[])
    for d in func.decorator_list:
        info["text"].append(ast.unparse(d))
        call = d if isinstance(d, ast.Call) else None
        target = call.func if call else d
        parts = dotted(target) or []
        if parts and parts[-1] in MEMO_DECOS:
            info["memo"] = True
            continue
        kws = {}
        is_jit = False
        if parts and (parts[-1] in JIT_NAMES):
            is_jit = True
            if "cuda" in parts:
                info["kind"] = "cuda"
        elif len(parts) == 1:
            r = R.resolve(m, parts[0])
            if r and r[0] == "var" and r[3] == "deco":
                v = R.mods[r[1]].assigns[r[2]]
                vd = dotted(v.func) or []
                is_jit = True
                if "cuda" in vd:
                    info["kind"] = "cuda"
                for k in v.keywords:
                    kws[k.arg] = k.value
            elif r and r[0] == "func" and r[2] in JIT_NAMES:
                is_jit = True
        if is_jit:
            if info["kind"] is None:
                info["kind"] = "jit"
            if call:
                for k in call.keywords:
                    kws[k.arg] = k.value
            for opt in ("parallel", "cache", "fastmath"):
                if opt in kws:
                    v = kws[opt]
                    if isinstance(v, ast.Constant):
                        info[opt] = bool(v.value)
                    else:
                        info[opt] = True     # not a literal: assume the dangerous value
    return info


def jit_call_shape(node):
    """`J(opts...)(target)` or `J(target, opts...)` -> (J expression, keywords, target expression); purely syntactic"""
    if not isinstance(node, ast.Call):
        return None
    if isinstance(node.func, ast.Call) and len(node.args) >= 1 and isinstance(node.args[0], (ast.Name, ast.Attribute)):
        return node.func.func, list(node.func.keywords), node.args[0]
    if node.args and isinstance(node.args[0], (ast.Name, ast.Attribute)):
        return node.func, list(node.keywords), node.args[0]
    return None


def numba_jit_expr(R, m, fexpr):
    """is `fexpr` numba's jit / njit / ... (or a module-level decorator value such as `ngjit`)?  -> keywords of the
    decorator value (dict) or None"""
    parts = dotted(fexpr) or []
    if not parts:
        return None
    r = R.resolve(m, parts[0])
    if len(parts) == 1 and r and r[0] == "var" and r[3] == "deco":
        v = R.mods[r[1]].assigns[r[2]]
        return {k.arg: k.value for k in v.keywords}
    if parts[-1] in JIT_NAMES and r and r[0] == "ext" and r[1].split(".")[0] == "numba":
        return {}
    return None


def jit_opts(kws):
    out = {}
    for opt in ("parallel", "cache", "fastmath"):
        v = kws.get(opt)
        out[opt] = False if v is None else (bool(v.value) if isinstance(v, ast.Constant) else True)
    return out


def chain_root(node):
    """strip subscripts / attributes down to a Name: -> (name, steps from the root outwards; '[]' = a subscript)"""
    steps, b = [], node
    while True:
        if isinstance(b, ast.Subscript):
            steps.append("[]")
            b = b.value
        elif isinstance(b, ast.Attribute):
            steps.append(b.attr)
            b = b.value
        elif isinstance(b, ast.Starred):
            b = b.value
        elif isinstance(b, ast.Name):
            return b.id, steps[::-1]
        else:
            return None


def aspect_of(steps):
    """which part of a caller-owned object a store at the end of `steps` changes (None: nothing the caller can see)"""
    s = list(steps)
    if s and s[0] == "view":           # a sliced raster: a new object sharing the cells only
        rest = s[1:]
        if not rest or rest[0] == "[]" or (rest[0] in ("data", "values") and len(rest) > 1):
            return "cells"
        return None
    while s and s[0] == "[]" and any(x != "[]" for x in s):
        s.pop(0)                 # an element of a container parameter (`arrays[i].data = ...`)
    if not s or all(x == "[]" for x in s):
        return "cells"
    if s[0] in ("attrs", "coords"):
        return s[0]
    if s[0] in ("data", "values"):
        return "binding" if len(s) == 1 else "cells"
    if s[0] == "name" and len(s) == 1:
        return "name"
    return "object"


def is_prange_call(n):
    return isinstance(n, ast.Call) and (dotted(n.func) or [None])[-1] == "prange"


def bound_names(stmts):
    out = set()
    for st in stmts:
        for n in ast.walk(st):
            if isinstance(n, ast.Name) and isinstance(n.ctx, ast.Store):
                out.add(n.id)
    return out


def racy_prange(func):
    """(uses prange, racy): racy = the body of an *outermost* prange loop stores into an array bound
    outside the loop at an index that does not contain the loop variable as a plain component, calls a
    mutator method on such an array, or (re)assigns a scalar that is bound before the loop and read in it"""
    uses, racy, why = False, False, []
    params = {a.arg for a in func.args.args + func.args.kwonlyargs}

    def outer_loops(stmts, before):
        nonlocal uses, racy
        before = set(before)
        for st in stmts:
            if isinstance(st, ast.For) and is_prange_call(st.iter):
                uses = True
                check(st, before)
            else:
                for fld in ("body", "orelse", "finalbody"):
                    sub = getattr(st, fld, None)
                    if isinstance(sub, list) and sub and isinstance(sub[0], ast.stmt):
                        outer_loops(sub, before | bound_names([st]) - bound_names(sub))
                if isinstance(st, ast.Try):
                    for h in st.handlers:
                        outer_loops(h.body, before)
            before |= bound_names([st])

    def check(loop, before):
        nonlocal racy
        lv = {n.id for n in ast.walk(loop.target) if isinstance(n, ast.Name)}
        inner_first = {}   # names first bound inside the loop body
        for n in ast.walk(loop):
            if isinstance(n, ast.Name) and isinstance(n.ctx, ast.Store) and n.id not in before and n.id not in params:
                inner_first[n.id] = True
        outside = lambda nm: (nm in before or nm in params) and nm not in lv  # noqa: E731
        for n in ast.walk(loop):
            if isinstance(n, ast.Subscript) and isinstance(n.ctx, (ast.Store, ast.Del)):
                base = n.value
                while isinstance(base, ast.Subscript):
                    base = base.value
                if isinstance(base, ast.Name) and outside(base.id):
                    idx = n.slice
                    comps = idx.elts if isinstance(idx, ast.Tuple) else [idx]
                    own = any(isinstance(c, ast.Name) and c.id in lv for c in comps)
                    if not own:
                        racy = True
                        why.append(f"store {ast.unparse(n)} in prange over {sorted(lv)}")
            if isinstance(n, ast.Call) and isinstance(n.func, ast.Attribute) and n.func.attr in MUTATORS \
                    and isinstance(n.func.value, ast.Name) and outside(n.func.value.id):
                racy = True
                why.append(f"in-place {ast.unparse(n.func)} in prange")
            if isinstance(n, ast.AugAssign) and isinstance(n.target, ast.Name) and outside(n.target.id):
                racy = True
                why.append(f"reduction {n.target.id} in prange")
            if isinstance(n, ast.Assign):
                for t in n.targets:
                    for nm in ast.walk(t):
                        if isinstance(nm, ast.Name) and isinstance(nm.ctx, ast.Store) and outside(nm.id):
                            racy = True
                            why.append(f"carried {nm.id} in prange")

    outer_loops(func.body, set())
    return uses, racy, why


# ------------------------------------------------------------------------------------------------ effects
class Fn:
    """one function (module level, nested, or method)"""
    def __init__(self, fid, mod, node, parent=None):
        self.fid, self.mod, self.node, self.parent = fid, mod, node, parent
        self.nested = {}
        self.locals = set()
        self.deco = None
        self.items = None          # effect items, computed lazily
        self.mutated_params = set()


def local_names(func):
    names = {a.arg for a in func.args.args + func.args.kwonlyargs + func.args.posonlyargs}
    if func.args.vararg:
        names.add(func.args.vararg.arg)
    if func.args.kwarg:
        names.add(func.args.kwarg.arg)
    gl = set()
    stack = list(func.body)
    while stack:
        n = stack.pop()
        if isinstance(n, (ast.FunctionDef, ast.AsyncFunctionDef, ast.ClassDef)):
            names.add(n.name)
            continue
        if isinstance(n, ast.Lambda):
            continue
        if isinstance(n, ast.Global):
            gl.update(n.names)
        if isinstance(n, ast.Name) and isinstance(n.ctx, (ast.Store, ast.Del)):
            names.add(n.id)
        if isinstance(n, (ast.Import, ast.ImportFrom)):
            for a in n.names:
                names.add((a.asname or a.name).split(".")[0])
        if isinstance(n, ast.ExceptHandler) and n.name:
            names.add(n.name)
        stack.extend(ast.iter_child_nodes(n))
    return names - gl, gl


class Extractor:
    def __init__(self, repo):
        self.R = Repo(repo)
        self.fns = {}
        for m in self.R.mods.values():
            for name, node in m.funcs.items():
                self._add(f"{m.name}.{name}", m, node, None)
            for cname, c in m.classes.items():
                for st in c.body:
                    if isinstance(st, (ast.FunctionDef, ast.AsyncFunctionDef)):
                        self._add(f"{m.name}.{cname}.{st.name}", m, st, None)
        self.scan_jit_calls()
        self.param_write_fixpoint()
        # which parameters does a function mutate (directly or by handing them on)?  fixpoint
        for f in self.fns.values():
            f.mutated_params = self.direct_param_mutations(f)
        changed = True
        while changed:
            changed = False
            for f in self.fns.values():
                for call in [n for n in ast.walk(f.node) if isinstance(n, ast.Call)]:
                    tgt = self.callee_of(f, call.func)
                    if not tgt:
                        continue
                    g = self.fns.get(tgt)
                    if not g or not g.mutated_params:
                        continue
                    gp = [a.arg for a in g.node.args.args]
                    for i, a in enumerate(call.args):
                        if isinstance(a, ast.Name) and i < len(gp) and gp[i] in g.mutated_params \
                                and a.id in {x.arg for x in f.node.args.args} and a.id not in f.mutated_params:
                            f.mutated_params.add(a.id)
                            changed = True
                    for k in call.keywords:
                        if k.arg in g.mutated_params and isinstance(k.value, ast.Name) \
                                and k.value.id in {x.arg for x in f.node.args.args} and k.value.id not in f.mutated_params:
                            f.mutated_params.add(k.value.id)
                            changed = True

    # ---- jit call expressions: `X = nb.jit(parallel=True)(f.py_func)`, `ngjit(g)`, anywhere in a module
    def scan_jit_calls(self):
        """every call expression that compiles a function of /repo with numba outside a decorator list:
        self.jitcalls = [dict(name, mod, target, opts, lineno, owner, alias)]; a module-level `X = <such a call>`
        makes X a 'jitalias' (a reference to X is a call of the target through a second dispatcher)"""
        self.jitcalls, self.jitalias = [], {}
        for m in self.R.mods.values():
            owner_of, alias_of = {}, {}
            for f in self.fns.values():
                if f.mod is m:
                    for n in self.walk_own(f.node):
                        owner_of.setdefault(id(n), f)
            for st in ast.walk(m.tree):
                if isinstance(st, ast.Assign) and len(st.targets) == 1 and isinstance(st.targets[0], ast.Name):
                    alias_of[id(st.value)] = st.targets[0].id
            decos = set()
            for n in ast.walk(m.tree):
                if isinstance(n, (ast.FunctionDef, ast.AsyncFunctionDef, ast.ClassDef)):
                    for d in n.decorator_list:
                        decos.update(id(x) for x in ast.walk(d))
            for n in ast.walk(m.tree):
                if id(n) in decos:
                    continue
                sh = jit_call_shape(n)
                if not sh:
                    continue
                base = numba_jit_expr(self.R, m, sh[0])
                if base is None:
                    continue
                kws = dict(base)
                kws.update({k.arg: k.value for k in sh[1] if k.arg})
                t = sh[2]
                if isinstance(t, ast.Attribute) and t.attr == "py_func":
                    t = t.value
                tgt = None
                if isinstance(t, ast.Name):
                    r = self.R.resolve(m, t.id)
                    if r and r[0] == "func":
                        tgt = f"{r[1]}.{r[2]}"
                    own = owner_of.get(id(n))
                    if tgt is None and own is not None:
                        r2 = self.lookup(own, t.id)
                        if r2 and r2[0] == "nested":
                            tgt = r2[1].fid
                own = owner_of.get(id(n))
                alias = alias_of.get(id(n)) if own is None else None
                name = f"{m.name}.{alias}" if alias else f"{own.fid if own else m.name}.<jit@{n.lineno}>"
                jc = dict(name=name, mod=m.name, target=tgt, opts=jit_opts(kws), lineno=n.lineno,
                          owner=own.fid if own else None, alias=alias, text=ast.unparse(n)[:120])
                self.jitcalls.append(jc)
                if alias:
                    m.kind[alias] = "jitalias"
                    self.jitalias[(m.name, alias)] = jc

    # ---- writes to the caller's objects ------------------------------------------------------------
    def roots_of(self, f):
        """local name -> (parameter of f, attribute it is a view of | None): the parameters themselves and names
        bound exactly once to `p`, `p.attrs`, `p.coords`, `p.data`, `p.values`; a nested function also sees the
        roots of the enclosing function through its free variables"""
        if getattr(f, "_roots", None) is not None:
            return f._roots
        a = f.node.args
        roots = {x.arg: (x.arg, None) for x in a.posonlyargs + a.args + a.kwonlyargs}
        for x in (a.vararg, a.kwarg):
            if x is not None:
                roots[x.arg] = (x.arg, None)
        containers = {x.arg for x in (a.vararg, a.kwarg) if x is not None}
        count, first = {}, {}
        for n in self.walk_own(f.node):
            tg = []
            if isinstance(n, ast.Assign):
                tg = [(t, n.value) for t in n.targets]
            elif isinstance(n, (ast.AnnAssign, ast.AugAssign)):
                tg = [(n.target, n.value)]
            elif isinstance(n, (ast.For, ast.AsyncFor)):
                # `for x in p[1:]` / `for i, x in enumerate(p)`: x is an element of the caller's container
                it, t = n.iter, n.target
                if isinstance(it, ast.Call) and (dotted(it.func) or [None])[-1] in ("enumerate", "reversed", "list", "tuple", "sorted") \
                        and it.args:
                    if (dotted(it.func) or [None])[-1] == "enumerate" and isinstance(t, ast.Tuple) and len(t.elts) == 2:
                        t = t.elts[1]
                    it = it.args[0]
                tg = [(n.target, None)]
                if isinstance(t, ast.Name):
                    tg = [(t, ast.Subscript(value=it, slice=ast.Constant(value=0), ctx=ast.Load()))]
                    if t is not n.target:
                        tg.append((n.target.elts[0], None))
            elif isinstance(n, (ast.With, ast.AsyncWith)):
                tg = [(it.optional_vars, None) for it in n.items if it.optional_vars is not None]
            for t, v in tg:
                for nm in ast.walk(t):
                    if isinstance(nm, ast.Name) and isinstance(nm.ctx, ast.Store):
                        count[nm.id] = count.get(nm.id, 0) + 1
                        first.setdefault(nm.id, []).append(v if isinstance(t, ast.Name) and isinstance(n, (ast.Assign, ast.For, ast.AsyncFor))
                                                           else None)
        def alias_of(v):
            cr = chain_root(v) if isinstance(v, (ast.Name, ast.Attribute, ast.Subscript)) else None
            if not cr or cr[0] not in roots:
                return None
            steps = [x for x in cr[1] if x != "[]"]
            if not steps:
                if len(cr[1]) == 0 or roots[cr[0]][0].lstrip("^") in containers:
                    return roots[cr[0]]                   # the object itself / an element of a container parameter (`*arrays`)
                # `x = p[a:b]`: for a raster a NEW object (own name / attrs / coords) that shares only the cells
                return (roots[cr[0]][0], "view") if roots[cr[0]][1] in (None, "view", "data", "values") else None
            if len(steps) == 1 and roots[cr[0]][1] is None and steps[0] in ("attrs", "coords", "data", "values") and cr[1][-1] == steps[0]:
                return (roots[cr[0]][0], steps[0])
            return None
        changed = True
        while changed:
            changed = False
            for nm, vs in first.items():
                if nm in roots or any(v is None for v in vs):
                    continue
                al = {alias_of(v) for v in vs}           # every binding of the name is the same view of the same parameter
                if len(al) == 1 and None not in al:
                    roots[nm] = al.pop()
                    changed = True
        if f.parent is not None:
            for nm, r in self.roots_of(f.parent).items():
                if nm not in roots and nm not in f.locals:
                    roots[nm] = ("^" + r[0].lstrip("^"), r[1])      # a free variable: the enclosing function's object
        f._roots = roots
        return roots

    def rooted(self, f, expr):
        """(parameter, steps) when `expr` is a chain of attributes / subscripts starting at a root of f"""
        cr = chain_root(expr)
        if not cr:
            return None
        roots = self.roots_of(f)
        if cr[0] not in roots:
            return None
        p, via = roots[cr[0]]
        return p, ([via] if via else []) + cr[1]

    def direct_param_writes(self, f):
        """parameter -> aspects written by f's own statements.  Flow-sensitive in one respect: after
        `p = <fresh value>` in the same or an enclosing statement list, `p` no longer denotes the caller's object"""
        out = {}

        def add(expr, extra, rebound):
            cr = chain_root(expr)
            if not cr or cr[0] in rebound:
                return
            r = self.rooted(f, expr)
            if r:
                asp = aspect_of(list(r[1]) + list(extra))
                if asp:
                    out.setdefault(r[0], set()).add(asp)

        def fresh_value(v):
            if isinstance(v, ast.Call):
                d = dotted(v.func)
                return not (d and d[-1] in VIEW_FUNCS)
            return isinstance(v, (ast.BinOp, ast.UnaryOp, ast.Compare, ast.Constant, ast.List, ast.Tuple, ast.Dict, ast.Set,
                                  ast.ListComp, ast.DictComp, ast.SetComp, ast.JoinedStr, ast.BoolOp)) and not \
                (isinstance(v, ast.BoolOp) and any(isinstance(x, ast.Name) for x in v.values))

        def scan(n, rebound):
            """the writes of one statement's own expressions (nested statement lists are walked by `walk`)"""
            stack = [n]
            while stack:
                x = stack.pop()
                for ch in ast.iter_child_nodes(x):
                    if isinstance(ch, (ast.FunctionDef, ast.AsyncFunctionDef, ast.ClassDef, ast.Lambda)):
                        continue
                    if isinstance(ch, ast.stmt) and x is n and isinstance(n, (ast.If, ast.For, ast.AsyncFor, ast.While, ast.Try,
                                                                                 ast.With, ast.AsyncWith)):
                        continue
                    if isinstance(ch, ast.ExceptHandler):
                        continue
                    stack.append(ch)
                if isinstance(x, (ast.Subscript, ast.Attribute)) and isinstance(x.ctx, (ast.Store, ast.Del)):
                    add(x, (), rebound)
                elif isinstance(x, ast.AugAssign):
                    if not isinstance(x.target, ast.Name) or self.array_like(f, x.target.id):
                        add(x.target, ("[]",), rebound)
                elif isinstance(x, ast.Call):
                    d = dotted(x.func)
                    if isinstance(x.func, ast.Attribute) and x.func.attr in MUTATORS:
                        add(x.func.value, ("[]",), rebound)
                    if d and d[-1] in NP_INPLACE_FUNCS and d[0] in ("np", "numpy", "da", "cupy") and x.args:
                        add(x.args[0], ("[]",), rebound)
                    for k in x.keywords:
                        if k.arg == "out" and d and d[0] in ("np", "numpy", "da", "cupy"):
                            add(k.value, ("[]",), rebound)

        def walk(stmts, rebound):
            rebound = set(rebound)
            for st in stmts:
                if isinstance(st, (ast.FunctionDef, ast.AsyncFunctionDef, ast.ClassDef)):
                    continue
                scan(st, rebound)
                for fld in ("body", "orelse", "finalbody"):
                    sub = getattr(st, fld, None)
                    if isinstance(sub, list) and sub and isinstance(sub[0], ast.stmt):
                        walk(sub, rebound)
                if isinstance(st, ast.Try):
                    for h in st.handlers:
                        walk(h.body, rebound)
                if isinstance(st, ast.Assign) and fresh_value(st.value):
                    for t in st.targets:
                        if isinstance(t, ast.Name):
                            rebound.add(t.id)
        walk(f.node.body, set())
        return out

    def array_like(self, f, name):
        """`p += x` on a bare name is an in-place write only when p is an array: a parameter that is subscripted or
        whose array attributes are used somewhere in the function (numbers are re-bound, not written)"""
        for n in self.walk_own(f.node):
            if isinstance(n, ast.Subscript) and isinstance(n.value, ast.Name) and n.value.id == name:
                return True
            if isinstance(n, ast.Attribute) and isinstance(n.value, ast.Name) and n.value.id == name \
                    and n.attr in ("shape", "data", "values", "attrs", "dtype", "ndim", "T"):
                return True
        return False

    def param_write_fixpoint(self):
        """f.param_writes: parameter (or '^name' = object of the enclosing function) -> aspects written, directly or
        through a helper that receives something rooted in that parameter (per call site), through a nested
        function writing a free variable, or through a function that is only *referenced* (handed to a mapper /
        to dask) and has a parameter of the same name"""
        for f in self.fns.values():
            f.param_writes = self.direct_param_writes(f)
        changed = True

        def merge(f, p, aspects):
            nonlocal changed
            cur = f.param_writes.setdefault(p, set())
            if not aspects <= cur:
                cur |= aspects
                changed = True

        def through(steps, aspects):
            """aspects of the caller's object written when the callee writes `aspects` of what `steps` denotes"""
            s = [x for x in steps if x != "[]"]
            if "view" in s:
                return {"cells"} if aspects & {"cells"} else set()
            if not s:
                return set(aspects)
            if s[0] in ("attrs", "coords"):
                return {s[0]}
            if s[0] in ("data", "values"):
                return {"cells"} if aspects & {"cells", "binding", "object"} else set()
            return {"object"}
        rounds = 0
        while changed and rounds < 30:
            changed = False
            rounds += 1
            for f in self.fns.values():
                roots = self.roots_of(f)
                called = set()
                for n in self.walk_own(f.node):
                    if not isinstance(n, ast.Call):
                        continue
                    tgt = self.callee_of(f, n.func)
                    ja = None
                    if tgt is None and isinstance(n.func, ast.Name):
                        r = self.lookup(f, n.func.id)
                        if r and r[0] == "var" and r[3] == "jitalias":
                            ja = self.jitalias.get((r[1], r[2]))
                            tgt = ja["target"] if ja else None
                    g = self.fns.get(tgt) if tgt else None
                    if g is None:
                        continue
                    called.add(id(n.func))
                    if not g.param_writes:
                        continue
                    ga = g.node.args
                    gp = [a.arg for a in ga.posonlyargs + ga.args]
                    for i, a in enumerate(n.args):
                        q = gp[i] if i < len(gp) else (ga.vararg.arg if ga.vararg else None)
                        if q is None or q not in g.param_writes:
                            continue
                        r = self.rooted(f, a)
                        if r:
                            merge(f, r[0], through(r[1], g.param_writes[q]))
                    for k in n.keywords:
                        q = k.arg if k.arg is not None else (ga.kwarg.arg if ga.kwarg else None)
                        if q is None or q not in g.param_writes:
                            continue
                        r = self.rooted(f, k.value)
                        if r:
                            merge(f, r[0], through(r[1], g.param_writes[q]))
                # closures and bare references
                for n in self.walk_own(f.node):
                    if not (isinstance(n, ast.Name) and isinstance(n.ctx, ast.Load)):
                        continue
                    tgt = self.callee_of(f, n)
                    g = self.fns.get(tgt) if tgt else None
                    if g is None or not g.param_writes:
                        continue
                    for q, aspects in list(g.param_writes.items()):
                        if q.startswith("^"):
                            nm = q.lstrip("^")
                            own = {x.arg for x in f.node.args.posonlyargs + f.node.args.args + f.node.args.kwonlyargs}
                            merge(f, nm if nm in own else q, set(aspects))
                        elif id(n) not in called and q in roots:
                            merge(f, roots[q][0], through([roots[q][1]] if roots[q][1] else [], aspects))

    def references_alias(self, f, jc):
        for n in self.walk_own(f.node):
            if isinstance(n, ast.Name) and isinstance(n.ctx, ast.Load) and n.id == jc["alias"]:
                r = self.lookup(f, n.id)
                if r and r[0] == "var" and r[3] == "jitalias" and r[1] == jc["mod"]:
                    return True
        return False

    def caller_writes(self, f):
        """aspects of caller-owned objects a *public* function writes (its own parameters only)"""
        a = f.node.args
        own = {x.arg for x in a.posonlyargs + a.args + a.kwonlyargs} | {x.arg for x in (a.vararg, a.kwarg) if x is not None}
        out = set()
        for p, aspects in getattr(f, "param_writes", {}).items():
            if p in own:
                out |= aspects
        return sorted(out)

    def _add(self, fid, m, node, parent):
        f = Fn(fid, m, node, parent)
        f.locals, f.globals_decl = local_names(node)
        f.deco = deco_info(self.R, m, node)
        self.fns[fid] = f
        for n in self._nested_defs(node):
            child = self._add(f"{fid}.{n.name}", m, n, f)
            f.nested[n.name] = child
        return f

    @staticmethod
    def _nested_defs(func):
        out = []
        stack = list(func.body)
        while stack:
            n = stack.pop(0)
            if isinstance(n, (ast.FunctionDef, ast.AsyncFunctionDef)):
                out.append(n)
                continue
            if isinstance(n, (ast.ClassDef, ast.Lambda)):
                continue
            stack.extend(ast.iter_child_nodes(n))
        return out

    # ---- name resolution in a function context
    def lookup(self, f, name):
        """('nested', Fn) | ('local', owner Fn) | module-level resolution | ('builtin',) | None"""
        g = f
        while g is not None:
            if name in g.nested:
                return ("nested", g.nested[name])
            if name in g.locals:
                return ("local", g)
            g = g.parent
        r = self.R.resolve(f.mod, name)
        if r:
            return r
        if name in BUILTINS:
            return ("builtin",)
        return None

    def callee_of(self, f, node):
        """function id the expression denotes, if it is a plain reference"""
        if isinstance(node, ast.Name):
            r = self.lookup(f, node.id)
            if r and r[0] == "nested":
                return r[1].fid
            if r and r[0] == "func":
                return f"{r[1]}.{r[2]}"
        d = dotted(node)
        if d and len(d) == 2:
            r = self.lookup(f, d[0])
            if r and r[0] == "ext" and r[1].startswith("xrspatial."):
                sub = r[1][len("xrspatial."):]
                if sub in self.R.mods and d[1] in self.R.mods[sub].funcs:
                    return f"{sub}.{d[1]}"
        return None

    def direct_param_mutations(self, f):
        params = {a.arg for a in f.node.args.args + f.node.args.kwonlyargs}
        out = set()
        for n in ast.walk(f.node):
            nm = self.mutation_target(n)
            if nm in params:
                out.add(nm)
        return out

    @staticmethod
    def attr_root(n):
        """(root name, dotted text) of `a.b.c[...]`-like targets whose base is an attribute chain"""
        b = n
        while isinstance(b, ast.Subscript):
            b = b.value
        if isinstance(b, ast.Attribute):
            d = dotted(b)
            if d:
                return d[0], ".".join(d)
        return None

    @staticmethod
    def mutation_target(n):
        """name of the object a node mutates in place, or None"""
        if isinstance(n, ast.Subscript) and isinstance(n.ctx, (ast.Store, ast.Del)):
            b = n.value
            while isinstance(b, ast.Subscript):
                b = b.value
            if isinstance(b, ast.Name):
                return b.id
        if isinstance(n, ast.AugAssign):
            t = n.target
            while isinstance(t, ast.Subscript):
                t = t.value
            if isinstance(t, ast.Name):
                return t.id
        if isinstance(n, ast.Call) and isinstance(n.func, ast.Attribute) and n.func.attr in MUTATORS:
            b = n.func.value
            while isinstance(b, ast.Subscript):
                b = b.value
            if isinstance(b, ast.Name):
                return b.id
        if isinstance(n, ast.Call):
            d = dotted(n.func)
            if d and d[-1] in NP_INPLACE_FUNCS and d[0] in ("np", "numpy", "da", "cupy") and n.args \
                    and isinstance(n.args[0], ast.Name):
                return n.args[0].id
        if isinstance(n, ast.Attribute) and isinstance(n.ctx, (ast.Store, ast.Del)) and isinstance(n.value, ast.Name):
            return n.value.id
        return None

    # ---- cells
    def cell_of(self, f, name):
        """shared cell a name denotes in f's context: ('table'|'glob'|'dflt', id) or None"""
        r = self.lookup(f, name)
        if r is None or r[0] in ("nested", "builtin", "func", "class", "ext"):
            return None
        if r[0] == "local":
            owner = r[1]
            dfl = self.default_params(owner)
            if name in dfl:
                return ("dflt", f"{owner.fid}.{name}")
            return None
        _, mod, vname, kind = r
        if kind in ("table", "rng"):
            return ("table", f"{mod}.{vname}")
        if vname in self.R.mods[mod].global_written:
            return ("glob", f"{mod}.{vname}")
        return None

    def default_params(self, f):
        a = f.node.args
        out = {}
        pos = a.posonlyargs + a.args
        for p, d in zip(pos[len(pos) - len(a.defaults):], a.defaults):
            if is_mutable_default(d):
                out[p.arg] = d
        for p, d in zip(a.kwonlyargs, a.kw_defaults):
            if d is not None and is_mutable_default(d):
                out[p.arg] = d
        return out

    # ---- captured variables of a jitted function
    def captures(self, f):
        caps, seen = [], set()
        inner_locals = set(f.locals)
        for n in self.walk_own(f.node):
            if isinstance(n, ast.Name) and isinstance(n.ctx, ast.Load) and n.id not in inner_locals and n.id not in seen:
                seen.add(n.id)
                r = self.lookup(f, n.id)
                if r is None:
                    caps.append(("cell", ("glob", f"{f.mod.name}.?{n.id}")))
                elif r[0] == "local":
                    caps.append(("arg", n.id))
                elif r[0] == "var":
                    kind = "table" if r[3] in ("table", "rng") else "glob"
                    if r[3] not in ("deco", "jitalias"):
                        caps.append(("cell", (kind, f"{r[1]}.{r[2]}")))
        return caps

    @staticmethod
    def walk_own(func):
        """nodes of a function body, not descending into nested defs"""
        stack = list(func.body)
        while stack:
            n = stack.pop(0)
            yield n
            if isinstance(n, (ast.FunctionDef, ast.AsyncFunctionDef, ast.ClassDef)):
                continue
            stack[0:0] = list(ast.iter_child_nodes(n))

    def disp_of(self, f):
        return dict(name=f.fid, fresh=f.parent is not None, cache=bool(f.deco["cache"]), caps=self.captures(f))

    # ---- effect items of a function: list of ('atom', kind, cell) | ('jit', disp) | ('block', items) | ('call', fid)
    def items_of(self, f):
        if f.items is None:
            f.items = []      # cycle guard
            out = []
            self.stmts(f, f.node.body, out)
            f.items = out
        return f.items

    def stmts(self, f, body, out):
        for st in body:
            self.stmt(f, st, out)

    def block(self, f, body, out):
        sub = []
        self.stmts(f, body, sub)
        if sub:
            out.append(("block", sub))

    def stmt(self, f, st, out):
        if isinstance(st, (ast.FunctionDef, ast.AsyncFunctionDef, ast.ClassDef)):
            for d in getattr(st, "decorator_list", []):
                pass
            return
        if isinstance(st, ast.If):
            self.expr(f, st.test, out)
            self.block(f, st.body, out)
            self.block(f, st.orelse, out)
        elif isinstance(st, (ast.For, ast.AsyncFor)):
            self.expr(f, st.iter, out)
            self.block(f, st.body, out)
            self.block(f, st.orelse, out)
        elif isinstance(st, ast.While):
            sub = []
            self.expr(f, st.test, sub)
            self.stmts(f, st.body, sub)
            if sub:
                out.append(("block", sub))
            self.block(f, st.orelse, out)
        elif isinstance(st, ast.Try):
            self.block(f, st.body, out)
            for h in st.handlers:
                self.block(f, h.body, out)
            self.block(f, st.orelse, out)
            self.block(f, st.finalbody, out)
        elif isinstance(st, (ast.With, ast.AsyncWith)):
            for it in st.items:
                self.expr(f, it.context_expr, out)
            self.stmts(f, st.body, out)
        elif isinstance(st, ast.Assign):
            self.expr(f, st.value, out)
            for t in st.targets:
                self.expr(f, t, out)
        elif isinstance(st, ast.AugAssign):
            self.expr(f, st.value, out)
            self.expr(f, st.target, out)
            self.mutation(f, st, out)
        elif isinstance(st, ast.AnnAssign):
            if st.value is not None:
                self.expr(f, st.value, out)
            self.expr(f, st.target, out)
        else:
            for ch in ast.iter_child_nodes(st):
                if isinstance(ch, ast.expr):
                    self.expr(f, ch, out)
                elif isinstance(ch, ast.stmt):
                    self.stmt(f, ch, out)

    def mutation(self, f, node, out):
        nm = self.mutation_target(node)
        if nm is None:
            # f.cache[k] = v / mod.TABLE.update(...) / fn.attr += 1: state hung on a function, class or module
            tgt = node
            if isinstance(node, ast.AugAssign):
                tgt = node.target
            elif isinstance(node, ast.Call) and isinstance(node.func, ast.Attribute):
                tgt = node.func.value
            ar = self.attr_root(tgt) if isinstance(tgt, (ast.Subscript, ast.Attribute)) else None
            if ar:
                r = self.lookup(f, ar[0])
                if r and r[0] in ("func", "class", "nested", "var", "ext") and not (r[0] == "ext" and not r[1].startswith("xrspatial")):
                    out.append(("atom", "mutate", ("glob", f"{f.mod.name}.{ar[1]}")))
            return
        c = self.cell_of(f, nm)
        if c:
            out.append(("atom", "mutate", c))
        else:
            r = self.lookup(f, nm)
            if r and r[0] in ("func", "class", "ext", "nested") and isinstance(node, ast.Attribute):
                out.append(("atom", "mutate", ("glob", f"{f.mod.name}.{ast.unparse(node)}")))

    def expr(self, f, e, out):
        """effects of evaluating an expression, children first"""
        if e is None:
            return
        if isinstance(e, ast.Lambda):
            self.expr(f, e.body, out)
            return
        if isinstance(e, ast.Call):
            self.call(f, e, out)
            return
        if isinstance(e, ast.Name):
            self.name(f, e, out)
            return
        if isinstance(e, ast.Attribute):
            d = dotted(e)
            if d:
                r0 = self.lookup(f, d[0])
                ext0 = r0[1].split(".") if r0 and r0[0] == "ext" else []
                if ext0 and ext0[0] in ("numpy", "cupy") and "random" in (ext0 + d[1:]):
                    # `gen = np.random` / passing np.random.shuffle around: whoever gets it uses the GLOBAL generator
                    out.append(("atom", "draw", ("rng",) if ext0[0] == "numpy" else ("glob", ext0[0] + ".random")))
                    return
                if ext0 and ext0[0] == "random":
                    out.append(("atom", "draw", ("glob", "random")))
                    return
            if d and len(d) >= 2:
                # module.NAME of another xrspatial module
                r = self.lookup(f, d[0])
                if r and r[0] == "ext" and r[1].startswith("xrspatial"):
                    sub = r[1][len("xrspatial"):].lstrip(".")
                    m2 = self.R.mods.get(sub)
                    if m2 is not None:
                        if d[1] in m2.funcs:
                            out.append(("call", f"{sub}.{d[1]}"))
                        elif m2.kind.get(d[1]) == "table":
                            out.append(("atom", "read", ("table", f"{sub}.{d[1]}")))
                        elif m2.kind.get(d[1]) == "rng":
                            out.append(("atom", "draw", ("table", f"{sub}.{d[1]}")))
                        elif d[1] in m2.global_written:
                            out.append(("atom", "read", ("glob", f"{sub}.{d[1]}")))
                        if isinstance(e.ctx, (ast.Store, ast.Del)) and len(d) == 2:
                            out.append(("atom", "mutate", ("glob", f"{sub}.{d[1]}")))
                        return
            if e.attr in ("attrs", "coords", "name") and isinstance(e.ctx, ast.Load) and isinstance(e.value, ast.Name) \
                    and e.value.id in self.roots_of(f) and self.roots_of(f)[e.value.id][1] is None:
                out.append(("atom", "read", ("param", e.attr)))
            self.expr(f, e.value, out)
            if isinstance(e.ctx, (ast.Store, ast.Del)):
                self.mutation(f, e, out)
            return
        if isinstance(e, ast.Subscript):
            self.expr(f, e.value, out)
            self.expr(f, e.slice, out)
            if isinstance(e.ctx, (ast.Store, ast.Del)):
                self.mutation(f, e, out)
            return
        if isinstance(e, (ast.ListComp, ast.SetComp, ast.GeneratorExp, ast.DictComp)):
            for g in e.generators:
                self.expr(f, g.iter, out)
            sub = []
            for g in e.generators:
                for c in g.ifs:
                    self.expr(f, c, sub)
            if isinstance(e, ast.DictComp):
                self.expr(f, e.key, sub)
                self.expr(f, e.value, sub)
            else:
                self.expr(f, e.elt, sub)
            if sub:
                out.append(("block", sub))
            return
        if isinstance(e, (ast.BoolOp, ast.IfExp)):
            kids = list(ast.iter_child_nodes(e))
            first = [k for k in kids if isinstance(k, ast.expr)]
            if first:
                self.expr(f, first[0], out)
                sub = []
                for k in first[1:]:
                    self.expr(f, k, sub)
                if sub:
                    out.append(("block", sub))
            return
        for ch in ast.iter_child_nodes(e):
            if isinstance(ch, ast.expr):
                self.expr(f, ch, out)
            elif isinstance(ch, ast.keyword):
                self.expr(f, ch.value, out)
            elif isinstance(ch, ast.comprehension):
                self.expr(f, ch.iter, out)

    def name(self, f, n, out):
        if isinstance(n.ctx, (ast.Store, ast.Del)):
            if n.id in getattr(f, "globals_decl", ()):
                out.append(("atom", "mutate", ("glob", f"{f.mod.name}.{n.id}")))
            return
        r = self.lookup(f, n.id)
        if r is None:
            return
        if r[0] == "ext":
            parts = r[1].split(".")
            if parts[0] in ("numpy", "cupy") and "random" in parts[1:] and parts[-1] not in RNG_LOCAL:
                out.append(("atom", "draw", ("rng",) if parts[0] == "numpy" else ("glob", parts[0] + ".random")))
            elif parts[0] == "random" and parts[-1] not in ("Random", "SystemRandom"):
                out.append(("atom", "draw", ("glob", "random")))
            return
        if r[0] == "nested":
            out.append(("call", r[1].fid))
        elif r[0] == "func":
            out.append(("call", f"{r[1]}.{r[2]}"))
        elif r[0] == "class":
            c = self.R.mods[r[1]].classes[r[2]]
            for st in c.body:
                if isinstance(st, (ast.FunctionDef, ast.AsyncFunctionDef)):
                    out.append(("call", f"{r[1]}.{r[2]}.{st.name}"))
        elif r[0] == "var" and r[3] == "rng":
            # a module-level generator object handed around / aliased: whoever gets it draws from the shared state
            out.append(("atom", "draw", ("table", f"{r[1]}.{r[2]}")))
        elif r[0] == "var" and r[3] == "jitalias":
            self.jit_alias_ref(f, r, out)
        else:
            c = self.cell_of(f, n.id)
            if c:
                out.append(("atom", "read", c))

    def jit_alias_ref(self, f, r, out):
        """a reference to `X = jit(...)(g)`: a call of g through X's own module-level dispatcher"""
        jc = self.jitalias.get((r[1], r[2]))
        if not jc:
            return
        g = self.fns.get(jc["target"]) if jc["target"] else None
        if g is None:
            out.append(("atom", "read", ("glob", f"{r[1]}.{r[2]}.<unresolved jit target>")))
            out.append(("atom", "mutate", ("glob", f"{r[1]}.{r[2]}.<unresolved jit target>")))
            return
        caps = self.captures(g)
        if caps:
            out.append(("jit", dict(name=jc["name"], fresh=False, cache=bool(jc["opts"]["cache"]), caps=caps)))
        out.append(("call", g.fid))

    def call(self, f, e, out):
        d = dotted(e.func)
        # ---- a module-level generator object: G.seed(..) / G.get_state() / G.<anything else> = draw
        if d and len(d) == 2 and isinstance(e.func, ast.Attribute):
            r0 = self.lookup(f, d[0])
            if r0 and r0[0] == "var" and r0[3] == "rng":
                for a in e.args:
                    self.expr(f, a.value if isinstance(a, ast.Starred) else a, out)
                for k in e.keywords:
                    self.expr(f, k.value, out)
                cell = ("table", f"{r0[1]}.{r0[2]}")
                kind = "seed" if d[1] in RNG_SEED | {"setstate"} else "read" if d[1] in RNG_READ | {"getstate"} else "draw"
                out.append(("atom", kind, cell))
                return
        # arguments first
        if not isinstance(e.func, (ast.Name,)) and not d:
            self.expr(f, e.func, out)
        elif isinstance(e.func, ast.Attribute):
            # the object a method is called on (a dotted path into an imported module is not an object)
            r0 = self.lookup(f, d[0]) if d else None
            if not (r0 and r0[0] == "ext"):
                self.expr(f, e.func.value, out)
        for a in e.args:
            self.expr(f, a.value if isinstance(a, ast.Starred) else a, out)
        for k in e.keywords:
            self.expr(f, k.value, out)
        in_jit = f.deco["kind"] in ("jit", "cuda")
        if d:
            root = self.lookup(f, d[0]) if d else None
            ext = root[1] if root and root[0] == "ext" else None
            # ---- random number generators
            if ext and (ext.split(".")[0] in ("numpy", "cupy", "dask")) and "random" in (ext.split(".") + d[1:-1]):
                fn = d[-1]
                cell = ("glob", "numba.rng") if in_jit else (("rng",) if ext.split(".")[0] == "numpy" else ("glob", ext.split(".")[0] + ".random"))
                if fn in RNG_LOCAL:
                    if not e.args and not e.keywords:
                        out.append(("atom", "draw", ("glob", "entropy")))
                elif fn in RNG_SEED:
                    out.append(("atom", "seed", cell))
                elif fn in RNG_READ:
                    out.append(("atom", "read", cell))
                else:
                    out.append(("atom", "draw", cell))
                return
            if ext and ext.split(".")[0] == "random":
                fn = d[-1]
                cell = ("glob", "numba.pyrng") if in_jit else ("glob", "random")
                if fn in ("Random", "SystemRandom"):
                    if not e.args or fn == "SystemRandom":
                        out.append(("atom", "draw", ("glob", "entropy")))
                elif fn in ("seed", "setstate"):
                    out.append(("atom", "seed", cell))
                elif fn == "getstate":
                    out.append(("atom", "read", cell))
                else:
                    out.append(("atom", "draw", cell))
                return
            if ext and (ext.split(".")[-1], d[-1]) in ENTROPY or (len(d) >= 2 and (d[-2], d[-1]) in ENTROPY and ext):
                out.append(("atom", "draw", ("glob", "entropy")))
                return
            if d[-1] in ("hash", "id") and len(d) == 1 and root and root[0] == "builtin":
                out.append(("atom", "read", ("glob", "entropy.hashseed")))
            # ---- in-place numpy helpers, mutator methods
            if d[-1] in MUTATORS or (d[-1] in NP_INPLACE_FUNCS):
                self.mutation(f, e, out)
            # ---- a callee that mutates the parameter we pass a shared cell for
        tgt = self.callee_of(f, e.func)
        if tgt and tgt in self.fns:
            g = self.fns[tgt]
            gp = [a.arg for a in g.node.args.args]
            for i, a in enumerate(e.args):
                if isinstance(a, ast.Name) and i < len(gp) and gp[i] in g.mutated_params:
                    c = self.cell_of(f, a.id)
                    if c:
                        out.append(("atom", "mutate", c))
            for k in e.keywords:
                if k.arg in g.mutated_params and isinstance(k.value, ast.Name):
                    c = self.cell_of(f, k.value.id)
                    if c:
                        out.append(("atom", "mutate", c))
        # the function being called (a reference = a potential call, inlined)
        if isinstance(e.func, ast.Name):
            self.name(f, e.func, out)
        elif d and isinstance(e.func, ast.Attribute) and len(d) == 2:
            r = self.lookup(f, d[0])
            if r and r[0] == "ext" and r[1].startswith("xrspatial"):
                sub = r[1][len("xrspatial"):].lstrip(".")
                if sub in self.R.mods and d[1] in self.R.mods[sub].funcs:
                    out.append(("call", f"{sub}.{d[1]}"))

    # ---- flatten (inline callees) -------------------------------------------------------------
    def flat(self, fid, stack=()):
        """fully inlined effect tree of a function: list of ('atom', kind, cell) | ('jit', disp) | ('block', [...])"""
        f = self.fns.get(fid)
        if f is None or fid in stack:
            return []
        key = fid
        if key in self._flat_cache:
            return self._flat_cache[key]
        body = self._inline(self.items_of(f), stack + (fid,))
        pre = []
        if f.deco["kind"] in ("jit", "cuda"):
            dsp = self.disp_of(f)
            if dsp["caps"]:
                pre.append(("jit", dsp))
        if f.deco["memo"]:
            memo = ("table", f"{fid}.<memo>")
            res = [("atom", "read", memo), ("atom", "mutate", memo)] + pre + ([("block", body)] if body else [])
        else:
            res = pre + body
        if not any(s in stack for s in ()):  # results computed under a cycle cut are still sound (over-approx of one unrolling)
            self._flat_cache[key] = res
        return res

    def _inline(self, items, stack):
        out = []
        for it in items:
            if it[0] == "call":
                out.extend(self.flat(it[1], stack))
            elif it[0] == "block":
                sub = self._inline(it[1], stack)
                if sub:
                    out.append(("block", sub))
            else:
                out.append(it)
        return out

    _flat_cache = {}

    # ---- reachability, tasks ---------------------------------------------------------------------
    def reach(self, fid):
        seen, order = set(), []

        def go(x):
            if x in seen or x not in self.fns:
                return
            seen.add(x)
            order.append(x)
            for it in self._calls(self.items_of(self.fns[x])):
                go(it)
        go(fid)
        return order

    def _calls(self, items):
        for it in items:
            if it[0] == "call":
                yield it[1]
            elif it[0] == "block":
                yield from self._calls(it[1])

    def dask_tasks(self, f):
        """functions handed to dask inside f (resolved through `x = partial(F, ...)` / `x = F`)"""
        alias = {}
        for n in ast.walk(f.node):
            if isinstance(n, ast.Assign) and len(n.targets) == 1 and isinstance(n.targets[0], ast.Name):
                v = n.value
                if isinstance(v, ast.Call) and (dotted(v.func) or [None])[-1] == "partial" and v.args:
                    v = v.args[0]
                t = self.callee_of(f, v)
                if t:
                    alias[n.targets[0].id] = t
        out = []
        for n in ast.walk(f.node):
            if isinstance(n, ast.Call) and (dotted(n.func) or [None])[-1] in DASK_TASK_CALLS \
                    and (n.args or any(k.arg == "func" for k in n.keywords)):
                # the task function: first positional argument, or the keyword `func=` (x.map_overlap(func=f, ...))
                a = next((k.value for k in n.keywords if k.arg == "func"), None) or n.args[0]
                if isinstance(a, ast.Call) and isinstance(a.func, ast.Call) \
                        and (dotted(a.func.func) or [None])[-1] in DASK_TASK_CALLS and a.func.args:
                    a = a.func.args[0]      # from_delayed(delayed(F)(...), ...)
                if isinstance(a, ast.Call) and (dotted(a.func) or [None])[-1] == "partial" and a.args:
                    a = a.args[0]
                t = self.callee_of(f, a)
                if t is None and isinstance(a, ast.Name):
                    t = alias.get(a.id)
                if t is None and isinstance(a, ast.Name) and self.lookup(f, a.id) and self.lookup(f, a.id)[0] == "local":
                    t = f"{f.fid}.<param {a.id}>"
                if t is None:
                    t = f"<{ast.unparse(a)[:40]}>"
                if t not in out:
                    out.append(t)
        return out


# ------------------------------------------------------------------------------------------------ generator deps
def template_aspects(X, f, param):
    """which aspects of the template raster a backend function reads through `param`:
       metadata attributes, or its cell values while they are still the caller's ("values")"""
    aspects, live = set(), True

    def loads(node):
        """value reads of `param` inside node (metadata reads recorded in aspects)"""
        hit = False
        parents = {}
        for p in ast.walk(node):
            for ch in ast.iter_child_nodes(p):
                parents[id(ch)] = p
        for n in ast.walk(node):
            if isinstance(n, ast.Name) and n.id == param and isinstance(n.ctx, ast.Load):
                p = parents.get(id(n))
                if isinstance(p, ast.Attribute) and p.attr in META_ATTRS:
                    aspects.add(p.attr)
                    continue
                if isinstance(p, ast.Call) and (dotted(p.func) or [None])[-1] in META_FUNCS and n in p.args:
                    aspects.add("shape")
                    aspects.add("dtype")
                    continue
                if isinstance(p, ast.Subscript) and p.value is n and isinstance(p.ctx, ast.Store):
                    continue      # the target of a store, handled by the caller
                hit = True
        return hit

    def full_store(t):
        if isinstance(t, ast.Subscript) and isinstance(t.value, ast.Name) and t.value.id == param:
            s = t.slice
            if isinstance(s, ast.Slice) and s.lower is None and s.upper is None and s.step is None:
                return True
            if isinstance(s, ast.Constant) and s.value is Ellipsis:
                return True
        return False

    for st in f.node.body:
        if not live:
            break
        if isinstance(st, ast.Assign):
            if loads(st.value):
                aspects.add("values")
            for t in st.targets:
                if isinstance(t, ast.Name) and t.id == param:
                    live = False
                elif full_store(t):
                    live = False
                elif loads(t):
                    aspects.add("values")
        elif isinstance(st, (ast.If, ast.For, ast.While, ast.Try, ast.With)):
            if loads(st):
                aspects.add("values")
        else:
            if loads(st):
                aspects.add("values")
    return aspects


def generator_deps(X, mod, fname):
    fid = f"{mod}.{fname}"
    f = X.fns.get(fid)
    if f is None:
        return None
    params = [a.arg for a in f.node.args.args]
    if not params:
        return []
    tpl = params[0]
    deps = set(params[1:])
    parents = {}
    for p in ast.walk(f.node):
        for ch in ast.iter_child_nodes(p):
            parents[id(ch)] = p
    data_flows = False
    for n in ast.walk(f.node):
        if isinstance(n, ast.Name) and n.id == tpl and isinstance(n.ctx, ast.Load):
            p = parents.get(id(n))
            if isinstance(p, ast.Attribute):
                if p.attr in ("data", "values"):
                    data_flows = True
                else:
                    deps.add(f"{tpl}.{p.attr}")
            elif isinstance(p, ast.Call) and isinstance(p.func, ast.Name) and p.func.id == "mapper":
                deps.add(f"{tpl}.backend")
            else:
                deps.add(f"{tpl}.values")
    if data_flows:
        backends = []
        for n in ast.walk(f.node):
            if isinstance(n, ast.Call) and (dotted(n.func) or [None])[-1] == "ArrayTypeFunctionMapping":
                for k in n.keywords:
                    if k.arg in ("numpy_func", "dask_func"):
                        t = X.callee_of(f, k.value)
                        backends.append(t)
        if not backends:
            deps.add(f"{tpl}.values")
        for b in backends:
            g = X.fns.get(b) if b else None
            if g is None or not g.node.args.args:
                deps.add(f"{tpl}.values")
                continue
            for a in template_aspects(X, g, g.node.args.args[0].arg):
                deps.add(f"{tpl}.{a}")
    return sorted(deps)


# ------------------------------------------------------------------------------------------------ Lean emission
def lean_cell(c):
    if c[0] == "rng":
        return ".rng"
    return f"(.{c[0]} {lean_str(c[1])})"


def lean_cap(c):
    if c[0] == "arg":
        return f".arg {lean_str(c[1])}"
    return f".cell {lean_cell(c[1])}"


def lean_disp(d):
    return ("{ name := " + lean_str(d["name"]) + f", fresh := {str(d['fresh']).lower()}, cache := {str(d['cache']).lower()}, "
            "caps := [" + ", ".join(lean_cap(c) for c in d["caps"]) + "] }")


def lean_prog(items, indent=4):
    pad = " " * indent
    if not items:
        return ".nil"
    it, rest = items[0], items[1:]
    if it[0] == "atom":
        head = f".op (.{it[1]} {lean_cell(it[2])})"
    elif it[0] == "jit":
        head = f".op (.jit {lean_disp(it[1])})"
    else:
        head = f".block ({lean_prog(it[1], indent + 2)})"
    return f"{head}\n{pad}({lean_prog(rest, indent)})" if rest else f"{head} .nil"


def ident(fid):
    return "".join(ch if ch.isalnum() else "_" for ch in fid)


def writes_of(items, acc):
    for it in items:
        if it[0] == "atom" and it[1] in ("seed", "draw", "mutate"):
            if it[2] not in acc:
                acc.append(it[2])
        elif it[0] == "block":
            writes_of(it[1], acc)
    return acc


def reads_of(items, acc):
    """cells a summary reads, draws from or freezes into compiled code"""
    for it in items:
        if it[0] == "atom" and it[1] in ("read", "draw"):
            if it[2] not in acc:
                acc.append(it[2])
        elif it[0] == "jit":
            for c in it[1]["caps"]:
                if c[0] == "cell" and c[1] not in acc:
                    acc.append(c[1])
        elif it[0] == "block":
            reads_of(it[1], acc)
    return acc


def count_items(items):
    n = 0
    for it in items:
        n += 1
        if it[0] == "block":
            n += count_items(it[1])
    return n


def dedupe(items, seen_disp=None):
    """drop an atom that repeats the immediately preceding atom-run verbatim (same straight-line context):
    reading / mutating the same cell twice in a row changes neither check nor footprint.  A dispatcher
    that is *not* created per call is kept at its first occurrence only: what its compiled code observes
    is frozen, so a second observation adds nothing (and `atomOk` of such an atom does not depend on
    what was seeded before it)."""
    out = []
    seen_disp = set() if seen_disp is None else seen_disp
    for it in items:
        if it[0] == "jit" and not it[1]["fresh"]:
            if it[1]["name"] in seen_disp:
                continue
            seen_disp.add(it[1]["name"])
        if it[0] == "block":
            sub = dedupe(it[1], seen_disp)
            if not sub:
                continue
            it = ("block", sub)
            if out and out[-1] == it:
                continue
        elif it[0] in ("atom", "jit"):
            if it[0] == "atom" and it[1] in ("read", "mutate") and it in _tail_run(out):
                continue
            if it[0] == "jit" and it in _tail_run(out):
                continue
        out.append(it)
    return out


def _tail_run(out):
    run = []
    for it in reversed(out):
        if it[0] == "block" or (it[0] == "atom" and it[1] in ("seed", "draw")):
            break
        run.append(it)
    return run


def effects(repo):
    Extractor._flat_cache = {}
    X = Extractor(repo)
    pub = []
    for m in sorted(X.R.mods.values(), key=lambda m: m.name):
        if m.name.startswith("gpu_rtx") or m.name in ("", "esri"):
            continue
        for name in m.funcs:
            if not name.startswith("_"):
                pub.append(f"{m.name}.{name}")
    rep = dict(functions={}, kernels={}, tables=[], defaults=[], global_writes=[], public=pub,
               modules=sorted(m for m in X.R.mods if m and not m.startswith("gpu_rtx") and m != "esri"))
    out = ["import XrsVerif.Model.Effects",
           "/-! GENERATED by harness/facts_effects.py from the current /repo source -- do not edit.",
           "    Effect summaries (C11): shared-state reads / writes in source order, jitted closures and their",
           "    captured variables, jit options, dask task functions, argument aspects read by the seeded generators. -/",
           "namespace XrsVerif.Gen", "open XrsVerif.Effects", ""]
    # module-level tables, mutable defaults, global writes
    for m in sorted(X.R.mods.values(), key=lambda m: m.name):
        for nm, k in sorted(m.kind.items()):
            if k in ("table", "rng"):
                rep["tables"].append(f"{m.name}.{nm}")
            if k == "rng":
                rep.setdefault("rng_objects", []).append(f"{m.name}.{nm}")
        for nm in sorted(m.global_written):
            rep["global_writes"].append(f"{m.name}.{nm}")
    for fid, f in sorted(X.fns.items()):
        for p in sorted(X.default_params(f)):
            rep["defaults"].append(f"{fid}.{p}")
    # summaries
    names, volatile = [], []
    all_ids = sorted(X.fns)
    for fid in all_ids:
        f = X.fns[fid]
        if f.mod.name.startswith("gpu_rtx"):
            continue
        is_pub = fid in pub
        items = list(X.flat(fid))
        cw = X.caller_writes(f) if is_pub else []
        items = dedupe(items + [("atom", "mutate", ("param", a)) for a in cw])
        reach = X.reach(fid)
        tasks = []
        for g in reach:
            for t in X.dask_tasks(X.fns[g]):
                if t not in tasks:
                    tasks.append(t)
        kernels = [g for g in reach if X.fns[g].deco["kind"] == "jit"]
        for g in reach:
            for jc in X.jitcalls:
                if jc["name"] in kernels:
                    continue
                if jc["owner"] == g or (jc["alias"] and X.references_alias(X.fns[g], jc)):
                    kernels.append(jc["name"])
        if (f.mod.name, f.node.name) in SEEDED_GENERATORS and f.parent is None:
            deps = generator_deps(X, f.mod.name, f.node.name)
        else:
            deps = [a.arg for a in f.node.args.args + f.node.args.kwonlyargs]
        writes_of(items, volatile)
        lname = "summary_" + ident(fid)
        names.append((lname, is_pub, fid))
        out.append(f"/-- `{fid}` ({f.mod.rel}:{f.node.lineno}) -/")
        out.append(f"def {lname} : Summary := {{\n  name := {lean_str(fid)}\n  isPublic := {str(is_pub).lower()}\n"
                   f"  prog :=\n    {lean_prog(items)}\n  deps := {str_list(deps)}\n  tasks := {str_list(tasks)}\n"
                   f"  kernels := {str_list(kernels)}\n}}\n")
        rep["functions"][fid] = dict(public=is_pub, atoms=count_items(items), writes=[list(c) for c in writes_of(items, [])],
                                     reads=[list(c) for c in reads_of(items, [])], kernels=kernels, caller_writes=cw,
                                     deps=deps, tasks=tasks, n_kernels=len(kernels), jit=f.deco["kind"],
                                     fresh_dispatcher=(f.parent is not None and f.deco["kind"] is not None),
                                     captures=[list(c[1]) if c[0] == "cell" else ["arg", c[1]] for c in X.captures(f)]
                                     if f.deco["kind"] else [])
    out.append("def allSummaries : List Summary := [\n  " + ",\n  ".join(n for n, _, _ in names) + "\n]\n")
    # functions handed to dask (block functions, delayed tasks)
    by_fid = {fid: ln for ln, _, fid in names}
    resolved, unresolved = [], []
    for fid, v in rep["functions"].items():
        for t in v["tasks"]:
            if t in by_fid:
                if t not in resolved:
                    resolved.append(t)
            elif t not in unresolved:
                unresolved.append(t)
    out.append("/-- the functions handed to dask (map_blocks / map_overlap / delayed ...) that resolve to a function of /repo -/")
    out.append("def taskSummaries : List Summary := [" + ", ".join(by_fid[t] for t in resolved) + "]")
    out.append("/-- task expressions that are not a plain function reference (lambdas, table entries, parameters) -/")
    out.append("def unresolvedTasks : List String := " + str_list(unresolved) + "\n")
    rep["tasks_resolved"], rep["tasks_unresolved"] = resolved, unresolved
    out.append("/-- every shared cell some function of the library may write -/")
    out.append("def volatile : List Cell := [" + ", ".join(lean_cell(c) for c in volatile) + "]\n")
    # kernel facts (CPU numba functions)
    knames = []
    for fid in all_ids:
        f = X.fns[fid]
        if f.deco["kind"] != "jit" or f.mod.name.startswith("gpu_rtx"):
            continue
        uses, racy, why = racy_prange(f.node)
        kn = "kf_" + ident(fid)
        knames.append(kn)
        out.append(f"def {kn} : KernelFacts := {{ name := {lean_str(fid)}, parallel := {str(f.deco['parallel']).lower()}, "
                   f"prange := {str(uses).lower()}, racy := {str(racy).lower()}, cache := {str(f.deco['cache']).lower()}, "
                   f"fastmath := {str(f.deco['fastmath']).lower()} }}")
        rep["kernels"][fid] = dict(parallel=f.deco["parallel"], prange=uses, racy=racy, why=why[:4], cache=f.deco["cache"],
                                   fastmath=f.deco["fastmath"], decorators=f.deco["text"])
    # second compilations: jit call expressions (`X = nb.jit(parallel=True)(f.py_func)`)
    for jc in X.jitcalls:
        if jc["mod"].startswith("gpu_rtx"):
            continue
        g = X.fns.get(jc["target"]) if jc["target"] else None
        uses, racy, why = racy_prange(g.node) if g is not None else (True, True, ["the compiled function could not be resolved"])
        kn = "kf_" + ident(jc["name"])
        if kn in knames:
            continue
        knames.append(kn)
        o = jc["opts"]
        out.append(f"/-- jit call expression, {jc['mod']} line {jc['lineno']}: `{jc['text']}` -/")
        out.append(f"def {kn} : KernelFacts := {{ name := {lean_str(jc['name'])}, parallel := {str(o['parallel']).lower()}, "
                   f"prange := {str(uses).lower()}, racy := {str(racy).lower()}, cache := {str(o['cache']).lower()}, "
                   f"fastmath := {str(o['fastmath']).lower()} }}")
        rep["kernels"][jc["name"]] = dict(parallel=o["parallel"], prange=uses, racy=racy, why=why[:4], cache=o["cache"],
                                          fastmath=o["fastmath"], decorators=[jc["text"]], compiles=jc["target"],
                                          call_expression=True)
    out.append("\ndef allKernelFacts : List KernelFacts := [\n  " + ",\n  ".join(knames) + "\n]\n")
    # who writes / reads which shared cell (public functions): where a targeted search starts
    cells = {}
    for fid, v in rep["functions"].items():
        if not v["public"]:
            continue
        for c in v["writes"]:
            cells.setdefault(":".join(c), dict(writers=[], readers=[]))["writers"].append(fid)
        for c in v["reads"]:
            cells.setdefault(":".join(c), dict(writers=[], readers=[]))["readers"].append(fid)
    rep["cells"] = {k: v for k, v in sorted(cells.items()) if v["writers"]}
    rep["jit_calls"] = [{k: v for k, v in jc.items()} for jc in X.jitcalls]
    out.append("def moduleTables : List String := " + str_list(rep["tables"]))
    out.append("def mutableDefaults : List String := " + str_list(rep["defaults"]))
    out.append("def globalWrites : List String := " + str_list(rep["global_writes"]))
    out.append("\nend XrsVerif.Gen")
    rep["volatile"] = [list(c) for c in volatile]
    return "Effects.lean", "\n".join(out) + "\n", rep


POISON = """import XrsVerif.Model.Effects
/-! GENERATED by harness/facts_effects.py -- the extractor FAILED on the current source: {why}
    Every value below is poisoned so that no theorem of Props/C11.lean checks. -/
namespace XrsVerif.Gen
open XrsVerif.Effects
def poisoned : Summary := {{
  name := "extractor-failed"
  isPublic := true
  prog := .op (.mutate (.glob "extractor-failed")) .nil
  deps := ["agg.values"]
  tasks := []
  kernels := []
}}
def summary_perlin_perlin : Summary := poisoned
def summary_terrain_generate_terrain : Summary := poisoned
def summary_bump_bump : Summary := poisoned
def summary_proximity_proximity : Summary := poisoned
def allSummaries : List Summary := [poisoned]
def taskSummaries : List Summary := [poisoned]
def unresolvedTasks : List String := []
def volatile : List Cell := []
def kf_focal__apply_numpy : KernelFacts := {{ name := "extractor-failed", parallel := true, prange := true, racy := true, cache := true, fastmath := true }}
def allKernelFacts : List KernelFacts := [kf_focal__apply_numpy]
def moduleTables : List String := []
def mutableDefaults : List String := []
def globalWrites : List String := []
end XrsVerif.Gen
"""


def generate(repo):
    try:
        yield effects(repo)
    except Exception as ex:  # noqa: BLE001 -- the translator is shared by every property: never crash it
        import traceback
        why = (type(ex).__name__ + ": " + str(ex)).replace("-/", "- /")[:300]
        yield ("Effects.lean", POISON.format(why=why),
               dict(ok=False, why=why, trace=traceback.format_exc()[-1500:], functions={}, kernels={}, tables=[], defaults=[],
                    global_writes=[], public=[], modules=[], volatile=[], tasks_resolved=[], tasks_unresolved=[]))


if __name__ == "__main__":
    import json
    import sys
    fname, text, rep = effects(sys.argv[1] if len(sys.argv) > 1 else "/repo")
    print(json.dumps({k: v for k, v in rep.items() if k != "functions"}, indent=1)[:6000])
    for k, v in rep["functions"].items():
        if v["atoms"] or v["captures"]:
            print(k, v)
