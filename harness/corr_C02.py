"""
C02 -- zonal stats summarise exactly the valid cells of each zone.

Proof side (Props/C02.lean): the position-faithful model of `_sort_and_stride` / `_calc_stats` /
`_stats_numpy` (Model/Zonal.lean), instantiated with the structural fact `Gen.Zonal.stripIndices`
read from /repo's current source, produces for *every* sorting permutation exactly the table /
raster the property describes.

Tie: H -- the real `xrspatial.zonal.stats` (NumPy backend, DataFrame and DataArray form, built-in and
user reducers) against the Lean driver on the same rasters; the permutation `np.argsort` really
returned is handed to the model and checked against the assumed contract of argsort.
Oracle (search): group-by in plain Python over exact fractions, written from the property text.

Layer T3: stream `il:strides` -- the ILang program `Gen.IL.strides` (generated statement by statement from `_strides`; the subject
of the refinement theorems `il_strides_refines` / `il_strides_eq_model` / `il_zone_breaks`) is run by the Lean driver and compared
exactly (result array, both inputs after the call) with the numba-compiled `_strides` of /repo on generated arrays (il_corr.py).
"""
import math

import numpy as np

import il_corr
import zonal_common as Z
from common import Driver, tok

PROP = "C02"

CUSTOM = {
    # name: (python reducer, the built-in columns it is a function of, that function on exact values)
    # (the reducers compute in float64: a user reducer that overflows a narrow integer dtype is not the library's fault)
    "double_sum": (lambda z: float(z.astype("f8").sum()) * 2, ["sum"], lambda s: 2 * s["sum"]),
    "range": (lambda z: float(z.max()) - float(z.min()), ["max", "min"], lambda s: s["max"] - s["min"]),
    "n": (lambda z: len(z), ["count"], lambda s: s["count"]),
    "sumsq_over_n": (lambda z: float((z.astype("f8") ** 2).sum()) / len(z), ["var", "mean"],
                     lambda s: s["var"] + s["mean"] ** 2),
}


def classify(c):
    zs = Z.case_arrays(c)[0].astype(np.float64).ravel()
    if np.isneginf(zs).any() and not Z.source_facts().get("stripIndices"):
        return "stats:neg-inf-zone-cells-shift-slices"
    if np.isnan(zs).any() or np.isposinf(zs).any():
        return "stats:nonfinite-zone-cells"
    return "stats:zone-table"


def tags_of(c, kind):
    t = [f"stream:{kind}", f"shape:{c['h']}x{c['w']}", f"zdtype:{c['zdtype']}", f"vdtype:{c['vdtype']}",
         f"layout:{c.get('layout')}", f"nodata:{'none' if c.get('nodata') is None else 'set'}",
         f"zone_ids:{'none' if c.get('zone_ids') is None else 'list'}"]
    t += [f"zone-cells:{k}" for k in c.get("zkinds", [])] + [f"value-cells:{k}" for k in c.get("vkinds", [])]
    return t


def check_scale(r, c, kind="scale"):
    """overflow-scale size class (see zonal_common): one huge raster, judged by the histogram oracle only"""
    key = dict(c, kind=kind)
    r.case(key, desc=None, nontrivial=True, tags=[f"stream:{kind}", f"zdtype:{c['zdtype']}", f"vdtype:{c['vdtype']}",
                                                  "size:overflow-scale"])
    st, out, hist = Z.run_scale_stats(c, "dask" if kind.startswith("dask") else "numpy")
    bad = Z.oracle_scale_stats(c, st, out, hist)
    if bad:
        r.fail("stats:zone-table:overflow-scale", f"[{kind}] {c['h']}x{c['w']} raster: " + bad, key)


def check_case(r, c, kind, pending):
    """run one case on the real code, apply the oracle, queue the model request"""
    if c.get("scale"):
        return check_scale(r, c, kind)
    key = dict(c, kind=kind)
    nontriv = len(set(c["zones"])) > 1 or c["h"] * c["w"] > 1
    r.case(key, desc=key if r.evaluations < 3 else None, nontrivial=nontriv, tags=tags_of(c, kind))
    common = Z.req_common(c)
    if kind == "raster":
        st, out = Z.run_stats(c, return_type="xarray.DataArray")
        if st != "raster":
            r.fail(classify(c) + ":raises", f"stats(return_type='xarray.DataArray') raised {st}: {out}", key)
            return
        bad = Z.oracle_stats_raster(c, out)
        if bad:
            r.fail(classify(c), "DataArray form: " + bad, key)
        pending.append((key, out, "zraster " + " ".join(common + ["stats=" + ",".join(c["stats"]),
                                                                     "perm=" + Z.argsort_perm(c)])))
        return
    if kind == "custom":
        funcs = {nm: CUSTOM[nm][0] for nm in c["custom"]}
        st, out = Z.run_stats(c, stats_funcs=funcs)
        if st != "ok":
            r.fail(classify(c) + ":raises", f"stats with user reducers raised {st}: {out}", key)
            return
        want = Z.wanted_zones(c)
        bad = None if out["zone"] == want else f"rows {out['zone']} but the requested zones present are {want}"
        for k, z in enumerate(want if not bad else []):
            cells = Z.valid_cells(c, z)
            for nm in c["custom"]:
                if not cells:
                    exp = None
                else:
                    exp = CUSTOM[nm][2]({s: Z.exact_stat(s, cells) for s in CUSTOM[nm][1]})
                if not Z.stat_close("sum", out[nm][k], exp, c["vdtype"]):
                    bad = f"zone {z}: user reducer {nm} = {out[nm][k]}, on the zone's {len(cells)} valid cells it is " \
                          f"{'NaN' if exp is None else float(exp)}"
        if bad:
            r.fail(classify(c), bad, key)
        need = sorted({s for nm in c["custom"] for s in CUSTOM[nm][1]})
        pending.append((dict(key, need=need), out, "zstats " + " ".join(common + ["stats=" + ",".join(need),
                                                                                  "perm=" + Z.argsort_perm(c)])))
        return
    st, out = Z.run_stats(c)
    if st != "ok":
        r.fail(classify(c) + ":raises", f"stats raised {st}: {out}", key)
        return
    bad = Z.oracle_stats_table(c, out)
    if bad:
        r.fail(classify(c), bad, key)
    pending.append((key, out, "zstats " + " ".join(common + ["stats=" + ",".join(c["stats"]),
                                                             "perm=" + Z.argsort_perm(c)])))


def compare_with_model(r, pending):
    replies = Driver().ask([p[2] for p in pending])
    for (key, real, req), rep in zip(pending, replies):
        kind = key["kind"]
        if rep.startswith("err:") or rep.startswith("bad-"):
            r.disagree(f"stats-{kind}", key, "real code returned a result", f"driver said {rep}")
            continue
        if kind == "raster":
            kv = Z.parse_kv(rep)
            bad = None
            for s in key["stats"]:
                m = [None if t == "nan" else Z.untok_exact(t) for t in kv["std2" if s == "std" else s].split(",")]
                for i, (mv, gv) in enumerate(zip(m, real[s])):
                    if not Z.stat_close(s, gv, mv, key["vdtype"], cells=[mv] if mv is not None else None):
                        bad = f"{s} cell {i}: model {None if mv is None else float(mv)} real {gv}"
                        break
                if bad:
                    break
        elif kind == "custom":
            mt = Z.parse_stats_reply(rep, key["need"])
            bad = None if mt["zone"] == real["zone"] else f"zone column: model {mt['zone']} real {real['zone']}"
            for k in range(len(mt["zone"]) if not bad else 0):
                for nm in key["custom"]:
                    cols = {s: mt[s][k] for s in CUSTOM[nm][1]}
                    exp = None if any(v is None for v in cols.values()) else CUSTOM[nm][2](cols)
                    if not Z.stat_close("sum", real[nm][k], exp, key["vdtype"]):
                        bad = f"zone {mt['zone'][k]} {nm}: model {None if exp is None else float(exp)} real {real[nm][k]}"
        else:
            bad = Z.model_vs_real_table(Z.parse_stats_reply(rep, key["stats"]), real, key["stats"], key["vdtype"], key)
        if bad:
            r.disagree(f"stats-{kind}", key, bad, rep[:300])


def malformed(r):
    """what the real code rejects the model rejects"""
    from xrspatial.zonal import stats
    import xarray as xr
    cases = [
        ("shape", dict(zones=xr.DataArray(np.zeros((2, 3))), values=xr.DataArray(np.zeros((3, 2)))), "ValueError"),
        ("stat-name", dict(zones=xr.DataArray(np.zeros((2, 2))), values=xr.DataArray(np.ones((2, 2))),
                           stats_funcs=["mean", "median"]), "ValueError"),
        ("bool-zones", dict(zones=xr.DataArray(np.zeros((2, 2), dtype=bool)), values=xr.DataArray(np.ones((2, 2)))), "ValueError"),
        ("str-values", dict(zones=xr.DataArray(np.zeros((2, 2))), values=xr.DataArray(np.array([["a", "b"], ["c", "d"]]))), "ValueError"),
    ]
    lines = ["zstats zones=0,0,0,0,0,0 values=0,0,0,0,0 stats=mean", "zstats zones=0,0,0,0 values=1,1,1,1 stats=mean,median"]
    reps = Driver().ask(lines)
    for (nm, kw, exp), rep in zip(cases, reps + [None, None]):
        r.case(dict(kind="malformed", what=nm), nontrivial=True, tags=["stream:malformed"])
        try:
            stats(**kw)
            got = "accepted"
        except Exception as ex_:  # noqa: BLE001
            got = type(ex_).__name__
        if got != exp:
            r.fail("stats:validation", f"malformed input '{nm}': {got}, expected {exp}", dict(kind="malformed", what=nm))
        if rep is not None and rep != "err:ValueError":
            r.disagree("stats-malformed", dict(what=nm), got, rep)


def strides_stream(r, n):
    """the numba function `_strides` itself against the loop program translated from its source
    (Gen.Zonal.stridesProg, run by the interpreter of Model/ZonalLoop.lean) and against the model's `strides`"""
    from xrspatial.zonal import _strides
    cases, lines = [], []
    for _ in range(n):
        rng = r.rng
        pool = rng.choice([[0, 1, 2, 3, 4], [-3, -1, 0, 2, 5], [0.5, 1.5, 2.25, -0.75, 3]])
        m = rng.randint(0, 12)
        fz = sorted(rng.choice(pool) for _ in range(m)) if rng.random() < 0.8 else [rng.choice(pool) for _ in range(m)]
        uz = sorted(set(rng.sample(pool, rng.randint(0, len(pool))))) if rng.random() < 0.8 else \
            [rng.choice(pool) for _ in range(rng.randint(0, 5))]           # also unsorted / repeated: the pointer semantics
        dt = rng.choice(["float64", "float32", "int64"]) if all(float(x) == int(x) for x in fz + uz) else "float64"
        cases.append((fz, uz, dt))
        lines.append("zstrides fz=" + (",".join(tok(float(x)) for x in fz) or "-") + " uz=" + (",".join(tok(float(x)) for x in uz) or "-"))
    reps = Driver().ask(lines)
    for (fz, uz, dt), rep in zip(cases, reps):
        key = dict(kind="strides", fz=[tok(float(x)) for x in fz], uz=[tok(float(x)) for x in uz], dtype=dt)
        r.case(key, nontrivial=len(fz) > 0 and len(uz) > 0, tags=["stream:strides-program", f"dtype:{dt}"])
        real = [int(x) for x in _strides(np.array(fz, dtype=dt), np.array(uz, dtype=dt)).tolist()]
        kv = Z.parse_kv(rep) if "=" in rep else {}
        prog = [int(x) for x in Z.nums(kv.get("prog", "-"), int)] if kv else None
        model = [int(x) for x in Z.nums(kv.get("model", "-"), int)] if kv else None
        if kv.get("ok") != "1" or prog != real or model != real:
            r.disagree("strides-program", key, f"_strides returned {real}", rep[:200])


def corpus_cases(r):
    out = []
    for body in r.corpus():
        c = body.get("case", body)
        out.append(c)
    return out


def run(r, scale=1):
    n = {"quick": (260, 90, 50), "thorough": (2600, 900, 400)}[r.tier]
    n = tuple(int(k * scale) for k in n)
    r.rule = ("rasters 1x1..6x7 (incl. 1xN, Nx1); 1-5 zone ids from integer / negative / fractional pools laid out "
              "randomly, in runs, stripes, interleaved; NaN / +inf / -inf zone cells; values small ints / ints / dyadic "
              "quarters with NaN / inf cells, int32..float64; nodata none / a present value / a zone id / 0 / NaN; "
              "zone_ids none / shuffled subsets with absent ids; emptied zones; stat subsets in any order, user reducers; "
              "15 % of the value rasters clustered around the nodata value (nodata +- 1..3 for |nodata| up to 1e12, the "
              "neighbouring floats / a few ppm off, tiny values down to the smallest subnormal around nodata 0); zones also "
              "as rectangles on a NaN background; one overflow-scale raster (~4800x4800, small integer dtypes, a zone of "
              "more than 2^31/100 cells) judged by a bincount histogram; "
              "non-trivial = more than one cell or zone")
    r.assumptions += ["np.argsort returns a permutation that sorts the keys with NaN last (checked on every case by the driver)",
                      "np.unique / np.sort are modelled by verified insertion sorts",
                      "exact arithmetic: values are small integers or dyadic, statistics compared exactly (max, min, count) "
                      "or to float rounding (sum, mean, std, var)"]
    r.trusted += ["numpy (argsort, unique, fancy indexing, the reducers' float arithmetic), pandas DataFrame assembly, xarray"]
    pending = []
    for c in corpus_cases(r):
        check_case(r, {k: v for k, v in c.items() if k != "kind"}, c.get("kind", "table"), pending)
        r.tag("corpus")
    for _ in range(n[0]):
        check_case(r, Z.make_stats_case(r.rng), "table", pending)
    for _ in range(n[1]):
        check_case(r, Z.make_stats_case(r.rng), "raster", pending)
    for _ in range(n[2]):
        c = Z.make_stats_case(r.rng)
        c["custom"] = r.rng.sample(sorted(CUSTOM), r.rng.randint(1, len(CUSTOM)))
        check_case(r, c, "custom", pending)
    # overflow scale: a ~4800 x 4800 raster whose dominant zone holds more than 2^31 / 100 cells (the breaks are int32)
    for k in range(1 if r.tier == "quick" else 2):
        c = Z.make_scale_case(r.rng)
        c["stats"] = ["count", "sum"] + r.rng.sample(["mean", "max", "min", "var", "std"], 1 if r.tier == "quick" else 5)
        check_scale(r, c)
    compare_with_model(r, pending)
    strides_stream(r, 60 if r.tier == "quick" else 600)
    # layer T3: the generated ILang program of `_strides` (subject of il_strides_refines) against the numba function
    il_corr.stream(r, ["strides"], int((600 if r.tier == "quick" else 6000) * scale))
    malformed(r)


def search(r):
    """a proof obligation or the correspondence broke and the main run saw no failing input:
    many more cases, biased to the sort-and-stride corner (non-finite zone cells)"""
    run(r, scale=3)


def replay(r, body):
    c = body["case"]
    if "prog" in c:                       # a case of the il:strides stream (translator validation, layer T3)
        bad = il_corr.replay_case(c)
        print("still disagrees" if bad else "does not fail on the current tree")
        return bad
    kind = c.get("kind", "table")
    if kind == "malformed":
        malformed(r)
    else:
        check_case(r, {k: v for k, v in c.items() if k not in ("kind", "need")}, kind, [])
    if r.failures:
        print("still fails:", r.failures[0]["what"])
        return 1
    print("does not fail on the current tree")
    return 0
