"""
C06 -- proximity / allocation / direction name one real target, never underestimated.

Tie:  H  `lean/XrsVerif/Model/Proximity.lean` (four-sweep model over Nat, the theorems of Props/C06.lean are
         about it) is run by the Lean driver on the same rasters as the real `proximity()`, `allocation()`,
         `direction()`; the squared distance, the identity of the recorded target (rasters carry unique
         values) and the bearing are compared cell by cell.
      T3 `Gen.IL.proximityLine`, `Gen.IL.processNumpy`, `Gen.IL.calcDirection` (statement-by-statement translations of
         `_process_proximity_line`, the jitted closure `_process._process_numpy` and `_calc_direction`) are proved to
         refine the model (Proofs/ILProx*.lean) and validated against numba by the streams `il:<prog>` (il_corr.py).
      G  `Gen.calc_direction`, `Gen.euclidean_distance`, `Gen.manhattan_distance` (T1) and
         `Gen/ProximityFacts.lean` (T2: metric table, fallback, dispatch, process modes) are regenerated from
         /repo; the model's direction output *is* the generated `_calc_direction`.
Two executions of /repo's code: stream `jit` (numba-compiled, ~1 s per call because the closure is re-jitted on
every call, spread over worker processes) and stream `interp` (the same source run by CPython with
NUMBA_DISABLE_JIT=1, ~2 ms per call, used for the large case counts and the exhaustive small-grid tables).
Search / oracle (written from the property statement, independent of the model): brute-force nearest target
in exact rational arithmetic, zero iff target, recorded target is real and is the one all three outputs refer
to, never below the true nearest distance, never above max_distance, NaN in one output iff in all, no NaN when
unbounded with >= 1 target, exact for a single target and on grids with H,W <= 3.  35 % of the rasters carry affinely
re-scaled coordinates (offsets up to 1e7, cells 1e-6 .. 1e4: `gen_affine`); the oracle works on the float coordinates as given.
"""
import itertools
import json
import math
import os
import subprocess
import sys
import tempfile
from fractions import Fraction

HERE = os.path.dirname(os.path.abspath(__file__))
PROP = "C06"
MODES = ("proximity", "allocation", "direction")
SMALL_CELLS = [(1, 1), (1, 2), (2, 1), (1, 3), (3, 1)]


# ---------------------------------------------------------------- numbers
def tok(x):
    from common import tok as t
    return t(x)


def untok(s):
    from common import untok as u
    return u(s)


def max_value(mx, u):
    """the python value handed to max_distance=; `u` = coordinate unit"""
    kind, k = mx["kind"], mx.get("k", 0)
    if kind == "inf":
        return math.inf
    if kind == "none":
        return None
    if kind == "int":
        return float(k) * u
    if kind == "half":
        return (k + 0.5) * u
    if kind == "sqrth":
        return math.sqrt(k + 0.5) * u
    if kind == "sqrtq":
        return math.sqrt(k + 0.25) * u
    if kind == "raw":
        return float(k)
    raise ValueError(kind)


def max_sq_units(mx):
    """max^2 in units u^2 as an exact Fraction (None = unbounded)"""
    kind, k = mx["kind"], mx.get("k", 0)
    if kind in ("inf", "none"):
        return None
    return {"int": Fraction(k * k), "half": Fraction(2 * k + 1, 2) ** 2, "sqrth": Fraction(2 * k + 1, 2),
            "sqrtq": Fraction(4 * k + 1, 4)}[kind]


def max_model(mx):
    """ceil(2 max^2) in units u^2 -- what the model carries"""
    m2 = max_sq_units(mx)
    if m2 is None:
        return "inf"
    return str(math.ceil(2 * m2))


def threshold_tie(case):
    """2*max^2 is an integer that some lattice vector attains: `dist^2 < 2 max^2` is then decided by float
    rounding of sqrt -- the model comparison is skipped for such cases (the oracle still runs)"""
    m2 = max_sq_units(case["max"])
    if m2 is None or (2 * m2).denominator != 1:
        return False
    m = int(2 * m2)
    sx, sy = case["sx"], case["sy"]
    for a in range(case["W"]):
        for b in range(case["H"]):
            d = (a * sx + b * sy) ** 2 if case["metric_model"] == "m" else (a * sx) ** 2 + (b * sy) ** 2
            if d == m:
                return True
    return False


# ---------------------------------------------------------------- case generation
def coords(n, step_units, u, desc, off):
    """n coordinates with |step| = step_units*u, exact dyadic floats"""
    vals = [(off + i * step_units) * u for i in range(n)]
    return vals[::-1] if desc else vals


AFFINE_CLASSES = ["projected", "projected", "geographic", "far", "fine", "dyadic"]
DECIMALS = [0.0, 0.0, 0.5, 0.25, 0.37, 0.1, 1 / 3]


def gen_affine(rng):
    """an affine re-scaling of the coordinates: x_i = x0 + i * step_x * u, y_j = y0 + j * step_y * u (ascending or descending,
    step_x / step_y the integer cell shape of the case) -- the magnitude / scale classes real rasters come in:
      projected   metric grids far from the origin (UTM-like eastings 1.7e5..8.3e5, northings 1e6..9.9e6; cells 0.5 m .. 10 km)
      geographic  degrees (lon -180..180, lat -89..89) with cells of 1e-6 .. 1e-2 degrees
      far         offsets up to +-1e7 with cells 1e-2 .. 1e4
      fine        offsets within +-10 with cells 1e-6 .. 1e-3
      dyadic      cell = 2^e (e = -20..13), offsets integer multiples of the cell up to 1e7: every coordinate, difference and
                  squared distance is exact in float64, so the model comparison applies as on the unscaled grids (`exact`)
    The offset / cell ratio stays below 1e9: neighbouring coordinates are distinct float64 values and their differences carry
    a relative error below 1e-7 (the oracle works on the float coordinates as given, in rational arithmetic)."""
    cls = rng.choice(AFFINE_CLASSES)
    if cls == "projected":
        u = rng.choice([0.5, 1.0, 2.0, 2.0, 5.0, 10.0, 10.0, 25.0, 30.0, 100.0, 1000.0, 1e4])
        x0 = rng.randrange(170000, 830000) + rng.choice(DECIMALS)
        y0 = rng.randrange(1000000, 9900000) + rng.choice(DECIMALS)
    elif cls == "geographic":
        u = rng.choice([1e-6, 1e-6, 1e-5, 1e-4, 1e-3, 1e-2])
        x0 = round(rng.uniform(-179.0, 179.0), rng.choice([0, 2, 5]))
        y0 = round(rng.uniform(-89.0, 89.0), rng.choice([0, 2, 5]))
    elif cls == "far":
        u = rng.choice([1e-2, 0.1, 0.3, 1.0, 7.0, 10.0, 1e3, 1e4])
        x0 = rng.choice([-1, 1]) * (rng.randrange(10 ** 6, 10 ** 7) + rng.choice(DECIMALS))
        y0 = rng.choice([-1, 1]) * (rng.randrange(10 ** 6, 10 ** 7) + rng.choice(DECIMALS))
    elif cls == "fine":
        u = rng.choice([1e-6, 1e-5, 1e-4, 1e-3])
        x0 = rng.randrange(-10, 11) + rng.choice(DECIMALS)
        y0 = rng.randrange(-10, 11) + rng.choice(DECIMALS)
    else:
        u = 2.0 ** rng.randrange(-20, 14)
        top = int(min(1e7 / u, 2.0 ** 40))
        x0 = rng.randrange(-top, top + 1) * u
        y0 = rng.randrange(-top, top + 1) * u
    return dict(cls=cls, x0=x0, y0=y0, u=u, exact=(cls == "dyadic"))


def affine_coords(n, step_units, u, desc, x0):
    vals = [x0 + (i * step_units) * u for i in range(n)]
    return vals[::-1] if desc else vals


def gen_case(rng, hmax=12, metric=None, small=False):
    H = rng.choice([1, 2, 3, 4]) if (small or rng.random() < 0.15) else rng.randrange(2, hmax + 1)
    W = rng.choice([1, 2, 3, 4]) if (small or rng.random() < 0.15) else rng.randrange(2, hmax + 1)
    n = H * W
    affine = gen_affine(rng) if rng.random() < 0.35 else None
    dens = rng.choice([0.01, 0.02, 0.03, 0.05, 0.05, 0.1, 0.1, 0.2, 0.3, 0.6])
    ntg = min(n, max(0 if rng.random() < 0.06 else 1, int(round(dens * n)) + (1 if rng.random() < 0.4 else 0)))
    if rng.random() < (0.3 if affine else 0.12):
        ntg = 1
    cellsidx = list(range(n))
    rng.shuffle(cellsidx)
    tcells = set(cellsidx[:ntg])
    dtype = rng.choice(["float64", "float64", "float32", "int32", "int64", "uint8", "uint32"])
    # magnitude of the stored values: small labels (as before) / integer ids beyond float32 exactness (2^24 .. 2^53,
    # consecutive ids one apart) / float64 cells below float32's smallest subnormal or above its largest finite value
    mag = "small"
    if not small and dtype in ("int32", "int64", "uint32", "float64") and rng.random() < 0.3:
        mag = "bigint" if (dtype != "float64" or rng.random() < 0.6) else "extreme"
    scale = Fraction(1, 2) if (dtype.startswith("float") and rng.random() < 0.3) else Fraction(1)
    pool = list(range(1, n + 6))
    rng.shuffle(pool)
    explicit = rng.random() < (0.7 if mag == "bigint" else 0.4)
    dup = mag == "small" and rng.random() < 0.12           # a few rasters with repeated target values (oracle handles them)
    base = 0
    if mag == "bigint":
        scale = Fraction(1)
        top = {"int32": 2 ** 31 - 1, "uint32": 2 ** 32 - 1, "int64": 2 ** 53, "float64": 2 ** 53}[dtype]
        bases = [2 ** 24 - 3, 2 ** 24, 2 ** 24 + 1, 2 ** 25 - 1, 20230700, 2 ** 27 + 1, 2 ** 30 + 1, 2 ** 31 - 1 - (n + 6)]
        if top > 2 ** 31:
            bases += [2 ** 31 - 2, 2 ** 32 - 1 - (n + 6)]
        if top > 2 ** 32:
            bases += [2 ** 32 - 3, 2 ** 40 + 1, 2 ** 53 - (n + 6)]
        base = rng.choice([b for b in bases if b + n + 6 <= top])
    vals = []
    tv = []
    for i in range(n):
        v = pool[i] * scale + base
        if dup and i in tcells:
            v = (1 + (pool[i] % 2)) * scale
        if explicit:
            vals.append(v)
            if i in tcells:
                tv.append(v)
        else:
            vals.append(v if i in tcells else Fraction(0))
    if explicit:
        if dup:
            # every cell carrying a duplicated target value is a target
            tcells = {i for i in range(n) if vals[i] in tv}
        if rng.random() < 0.5:
            tv.append(Fraction(10 ** 6) if mag != "bigint" else Fraction(base + n + 6))   # a value that is not in the raster
        if rng.random() < 0.3 and dtype.startswith("float"):
            tv.append("nan")
        if rng.random() < 0.15:
            tv.append(Fraction(0))              # no cell carries 0 in this mode
        rng.shuffle(tv)
    vt = [tok(v) for v in vals]
    if mag == "extreme":
        # non-zero finite float64 values that float32 turns into 0 or inf: still targets under the default rule,
        # still equal only to themselves under an explicit list
        ext = [5e-324, 1e-310, 3e-60, 1e-46, -2e-50, 3.5e38, 3e39, -1e300, 1.7e308]
        rng.shuffle(ext)
        k = 0
        for i in sorted(tcells):
            x = ext[k % len(ext)]
            x = x * (1 + k // len(ext)) if abs(x) < 1 else x / (1 + k // len(ext))      # distinct, never 0, never inf
            k += 1
            vt[i] = tok(x)
        if explicit:
            tv = [vt[i] for i in sorted(tcells)] + [t for t in tv if isinstance(t, str)]
    if dtype.startswith("float"):
        for _ in range(rng.choice([0, 0, 1, 2])):     # NaN / inf cells: never targets
            i = rng.randrange(n)
            if i not in tcells:
                vt[i] = rng.choice(["nan", "inf", "-inf"])
    tvt = sorted({t if isinstance(t, str) else tok(t) for t in tv}) if explicit else []
    if explicit and not tvt:
        explicit = False        # empty target_values means "default rule"; rebuild the default raster
        vt = [tok(vals[i]) if i in tcells else "0" for i in range(n)]
    u = rng.choice([1.0, 1.0, 0.5, 2.0, 0.25])
    sx, sy = rng.choice([(1, 1), (1, 1), (1, 1), (1, 2), (2, 1), (1, 3), (3, 1), (2, 3), (3, 2)])
    if small:
        sx, sy = rng.choice(SMALL_CELLS)
    xs = coords(W, sx, u, rng.random() < 0.3, rng.randrange(-6, 7))
    ys = coords(H, sy, u, rng.random() < 0.5, rng.randrange(-6, 7))
    if affine:
        u = affine["u"]
        xs = affine_coords(W, sx, u, rng.random() < 0.3, affine["x0"])
        ys = affine_coords(H, sy, u, rng.random() < 0.5, affine["y0"])
    metric = metric or rng.choice(["EUCLIDEAN", "EUCLIDEAN", "MANHATTAN"])
    mname = metric
    if rng.random() < 0.04:
        mname = rng.choice(["bogus", "euclidean", "manhattan", "", "Manhattan"])    # falls back to EUCLIDEAN
        metric = "EUCLIDEAN"
    reach = max(1, (W - 1) * sx + (H - 1) * sy)
    kind = rng.choice(["inf", "inf", "inf", "none", "int", "int", "half", "half", "sqrth", "sqrtq"])
    k = rng.randrange(0, min(reach, 9) + 1)
    return dict(H=H, W=W, vals=[vt[i * W:(i + 1) * W] for i in range(H)], dtype=dtype, tv=tvt,
                xs=[tok(x) for x in xs], ys=[tok(y) for y in ys], sx=sx, sy=sy, u=u,
                metric=mname, metric_model={"EUCLIDEAN": "e", "MANHATTAN": "m"}[metric],
                max=dict(kind=kind, k=k), mag=mag, **({"affine": affine} if affine else {}),
                tv_int=bool(explicit and mag != "extreme" and scale == 1 and dtype != "float32" and rng.random() < 0.5
                            and all(t not in ("nan", "inf", "-inf") for t in tvt)))


def gen_gc_case(rng):
    """great-circle: lon/lat coordinates; oracle only (soundness).  Cell sizes from 10 degrees down to 1e-6 degrees (a
    decimetre), base longitudes / latitudes anywhere on the globe (decimal, not grid aligned), max_distance a few cells"""
    H, W = rng.randrange(1, 9), rng.randrange(1, 9)
    n = H * W
    ntg = max(1, int(n * rng.choice([0.05, 0.1, 0.3])))
    idx = list(range(n))
    rng.shuffle(idx)
    tcells = set(idx[:ntg])
    pool = list(range(1, n + 1))
    rng.shuffle(pool)
    vt = [tok(pool[i]) if i in tcells else "0" for i in range(n)]
    fine = rng.random() < 0.4
    if fine:
        dx = rng.choice([1e-6, 1e-5, 1e-4, 1e-3, 1e-2, 0.1])
        dy = dx * rng.choice([1, 1, 1, 2, 0.5])
        x0 = round(rng.uniform(-179.0, 179.0 - 10 * dx), rng.choice([0, 2, 5]))
        y0 = round(rng.uniform(-89.0, 89.0 - 10 * dy), rng.choice([0, 2, 5]))
    else:
        dx = rng.choice([0.5, 1.0, 2.0, 5.0, 10.0])
        dy = rng.choice([0.5, 1.0, 2.0, 5.0, 10.0])
        x0 = rng.choice([-170.0, -40.0, 0.0, 10.0, 90.0])
        y0 = rng.choice([-80.0, -30.0, 0.0, 5.0])
    xs = [x0 + i * dx for i in range(W)]
    ys = [y0 + i * dy for i in range(H)]
    if rng.random() < 0.5:
        ys = ys[::-1]
    if fine and rng.random() < 0.3:
        xs = xs[::-1]
    cell_m = 111319.5 * max(dx, dy)
    if rng.random() < 0.5:
        mx = dict(kind="inf")
    elif fine:
        mx = dict(kind="raw", k=cell_m * rng.choice([0.7, 1.6, 3.3, 8.2]))
    else:
        mx = dict(kind="raw", k=rng.choice([5e4, 1.1e5, 2.5e5, 6e5, 1.5e6, 4e6]))
    return dict(H=H, W=W, vals=[vt[i * W:(i + 1) * W] for i in range(H)], dtype="float64", tv=[],
                xs=[tok(x) for x in xs], ys=[tok(y) for y in ys], sx=0, sy=0, u=1.0,
                metric="GREAT_CIRCLE", metric_model=None, max=mx, gc_cell=max(dx, dy), gc_cell_m=min(1.0, 111319.5 * min(dx, dy) * 1e-3))


def layout_case(H, W, mask, sx=1, sy=1, metric="EUCLIDEAN", mx=None, u=1.0, ydesc=False, perm=0):
    """target layout `mask` (bit r*W+p) on an HxW grid, unique target values"""
    n = H * W
    vt = []
    for i in range(n):
        vt.append(tok(1 + (i + perm) % n) if (mask >> i) & 1 else "0")
    xs = coords(W, sx, u, False, 0)
    ys = coords(H, sy, u, ydesc, 0)
    return dict(H=H, W=W, vals=[vt[i * W:(i + 1) * W] for i in range(H)], dtype="float64", tv=[],
                xs=[tok(x) for x in xs], ys=[tok(y) for y in ys], sx=sx, sy=sy, u=u, metric=metric,
                metric_model={"EUCLIDEAN": "e", "MANHATTAN": "m"}[metric], max=mx or dict(kind="inf"))


# ---------------------------------------------------------------- the real code (worker processes)
def worker_main(path_in, path_out):
    import warnings
    warnings.filterwarnings("ignore")
    if os.environ.get("XRS_REPO"):
        sys.path.insert(0, os.environ["XRS_REPO"])
    sys.path.insert(0, HERE)
    import numpy as np
    import xarray as xr
    import importlib
    px = importlib.import_module("xrspatial.proximity")
    cases = json.load(open(path_in))
    out = []
    for c in cases:
        try:
            a = np.array([[untok(t) for t in row] for row in c["vals"]], dtype=np.float64).astype(c["dtype"])
            xs = np.array([untok(t) for t in c["xs"]], dtype=np.float64)
            ys = np.array([untok(t) for t in c["ys"]], dtype=np.float64)
            kw = dict(distance_metric=c["metric"])
            if c["tv"]:
                kw["target_values"] = [untok(t) for t in c["tv"]]
                if c.get("tv_int"):      # the caller passes python ints (np.asarray -> int64), not floats
                    kw["target_values"] = [int(v) for v in kw["target_values"]]
            if c["max"]["kind"] != "inf" or c.get("pass_inf"):
                kw["max_distance"] = max_value(c["max"], c["u"])
            res = {}
            for mode in c.get("modes", MODES):
                r = xr.DataArray(a.copy(), dims=["y", "x"], coords={"y": ys, "x": xs})
                o = getattr(px, mode)(r, **kw)
                d = np.asarray(o.data)
                res[mode] = dict(dtype=str(d.dtype), v=[[tok(float(v)) for v in row] for row in d.tolist()])
            out.append(dict(status="ok", **res))
        except Exception as ex:  # noqa
            out.append(dict(status=type(ex).__name__, msg=str(ex)[:300]))
    json.dump(out, open(path_out, "w"))


def run_real(cases, jit, nproc):
    """run the real functions on `cases` in `nproc` worker processes; returns results in order"""
    if not cases:
        return []
    from common import Infra, REPO
    nproc = max(1, min(nproc, len(cases)))
    tmp = tempfile.mkdtemp(prefix="c06-")
    procs = []
    env = dict(os.environ)
    env["NUMBA_DISABLE_JIT"] = "0" if jit else "1"
    if REPO != "/repo":
        env["XRS_REPO"] = REPO
    for w in range(nproc):
        chunk = cases[w::nproc]
        pin, pout = os.path.join(tmp, f"in{w}.json"), os.path.join(tmp, f"out{w}.json")
        json.dump(chunk, open(pin, "w"))
        p = subprocess.Popen([sys.executable, os.path.abspath(__file__), "--worker", pin, pout], env=env,
                             stdout=subprocess.PIPE, stderr=subprocess.PIPE, text=True)
        procs.append((p, pout, len(chunk)))
    results = [None] * len(cases)
    for w, (p, pout, n) in enumerate(procs):
        so, se = p.communicate(timeout=3000)
        if p.returncode != 0 or not os.path.exists(pout):
            raise Infra(f"proximity worker failed: {se[-1500:]}")
        got = json.load(open(pout))
        if len(got) != n:
            raise Infra("proximity worker returned a short result list")
        results[w::nproc] = got
    for f in os.listdir(tmp):
        os.unlink(os.path.join(tmp, f))
    os.rmdir(tmp)
    return results


# ---------------------------------------------------------------- the model (Lean driver)
def model_request(c):
    flat = ",".join(t for row in c["vals"] for t in row)
    # raster values as the real code sees them (cast to the dtype, then to float for comparison)
    return (f"prox H={c['H']} W={c['W']} sx={c['sx']} sy={c['sy']} metric={c['metric_model']} max={max_model(c['max'])} "
            f"vals={c['H']}x{c['W']}:{flat} tv={','.join(c['tv'])} xs={','.join(c['xs'])} ys={','.join(c['ys'])}")


def parse_reply(line):
    from common import parse_grid
    parts = dict(p.split("=", 1) for p in line.split(";"))
    P = parse_grid(parts["P"], conv=lambda t: None if t == "nan" else int(t))
    A = parse_grid(parts["A"], conv=int)
    D = parse_grid(parts["D"], conv=untok)
    return P, A, D


def f32(x):
    import numpy as np
    with np.errstate(over="ignore", under="ignore"):
        return float(np.float32(x))


def cast_vals(c):
    """raster values as floats after the dtype cast the worker applies"""
    import numpy as np
    a = np.array([[untok(t) for t in row] for row in c["vals"]], dtype=np.float64).astype(c["dtype"])
    return a.astype(np.float64)


def compare(c, real, reply):
    """model vs real: list of differences (empty = agree)"""
    from common import close
    P, A, D = parse_reply(reply)
    vals = cast_vals(c)
    H, W, u = c["H"], c["W"], c["u"]
    diffs = []
    rp, ra, rd = real["proximity"]["v"], real["allocation"]["v"], real["direction"]["v"]
    for r in range(H):
        for p in range(W):
            gp, ga, gd = untok(rp[r][p]), untok(ra[r][p]), untok(rd[r][p])
            mp = P[r][p]
            if mp is None:
                if gp == gp:
                    diffs.append(f"({r},{p}) proximity real={gp} model=NaN")
            else:
                exp = math.sqrt(mp) * u
                if gp != gp or not close(gp, exp, rel=1e-6, abs_=0.0):
                    diffs.append(f"({r},{p}) proximity real={gp} model=sqrt({mp})*{u}={exp}")
            ma = A[r][p]
            if ma < 0:
                if ga == ga:
                    diffs.append(f"({r},{p}) allocation real={ga} model=NaN")
                if gd == gd:
                    diffs.append(f"({r},{p}) direction real={gd} model=NaN")
            else:
                tr, tc = divmod(ma, W)
                ev = f32(vals[tr][tc])
                if ga != ev:
                    diffs.append(f"({r},{p}) allocation real={ga} model=value {ev} of target ({tr},{tc})")
                md = D[r][p]
                if gd != gd or abs(gd - md) > 2e-4:
                    diffs.append(f"({r},{p}) direction real={gd} model={md} (target ({tr},{tc}))")
            if len(diffs) >= 4:
                return diffs
    return diffs


# ---------------------------------------------------------------- the property oracle (no model involved)
def is_target(v, tv):
    if not tv:
        return v == v and not math.isinf(v) and v != 0
    return any(v == t for t in tv)


def gc_dist(x1, x2, y1, y2):
    la1, lo1, la2, lo2 = map(math.radians, (y1, x1, y2, x2))
    a = math.sin((la2 - la1) / 2) ** 2 + math.cos(la1) * math.cos(la2) * math.sin((lo2 - lo1) / 2) ** 2
    return 6378137 * 2 * math.asin(math.sqrt(min(1.0, a)))


def compass(x1, y1, x2, y2):
    """bearing from (x1,y1) to (x2,y2), +y is south (the library's convention), 0 = same point, north = 360"""
    if x1 == x2 and y1 == y2:
        return 0.0
    b = math.degrees(math.atan2(x2 - x1, -(y2 - y1))) % 360.0
    return 360.0 if b == 0 else b


def oracle(c, real):
    """returns (key, text) when the property fails on the real outputs, else None"""
    vals = cast_vals(c)
    H, W = c["H"], c["W"]
    tv = [untok(t) for t in c["tv"]]
    xs = [untok(t) for t in c["xs"]]
    ys = [untok(t) for t in c["ys"]]
    metric = c["metric"] if c["metric"] in ("EUCLIDEAN", "MANHATTAN", "GREAT_CIRCLE") else "EUCLIDEAN"
    planar = metric != "GREAT_CIRCLE"
    mxv = max_value(c["max"], c["u"])
    unbounded = mxv is None or math.isinf(mxv)
    for mode in MODES:
        if real[mode]["dtype"] != "float32":
            return "dtype", f"{mode}: output dtype {real[mode]['dtype']}"
    P = [[untok(t) for t in row] for row in real["proximity"]["v"]]
    A = [[untok(t) for t in row] for row in real["allocation"]["v"]]
    D = [[untok(t) for t in row] for row in real["direction"]["v"]]
    targets = [(r, p) for r in range(H) for p in range(W) if is_target(float(vals[r][p]), tv)]
    tset = set(targets)
    fx = [Fraction(x) for x in xs]
    fy = [Fraction(y) for y in ys]

    def d2(t, r, p):     # exact squared planar distance
        dx, dy = abs(fx[t[1]] - fx[p]), abs(fy[t[0]] - fy[r])
        return dx * dx + dy * dy if metric == "EUCLIDEAN" else (dx + dy) ** 2

    def dist(t, r, p):
        if planar:
            return math.sqrt(float(d2(t, r, p)))
        return gc_dist(xs[t[1]], xs[p], ys[t[0]], ys[r])

    if planar and not unbounded:
        m2 = max_sq_units(c["max"]) * Fraction(c["u"]) ** 2
    tol = 2e-6 if planar else 2e-5
    # absolute slack (only matters at distance 0): a thousand-millionth of a cell, not of a coordinate unit
    eps = 1e-9 * min(1.0, abs(c["u"])) if planar else 1e-9 * min(1.0, c.get("gc_cell_m", 1.0))
    # re-scaled coordinates that are not exactly representable (x0 + i*step*u rounded to float64): the lattice is regular up to
    # 1e-7 of a cell only, so a target that sits *on* the max_distance circle of the ideal lattice is inside or outside by
    # rounding, and which of two nominally equidistant targets wins is decided by rounding as well.  The oracle stays exact on the
    # coordinates as given; only the two clauses that presuppose the ideal lattice are restricted: "within max_distance" leaves a
    # relative margin of 1e-6 around the circle, and the exhaustively enumerated small grids are the exactly representable ones.
    inexact = bool(c.get("affine")) and not c["affine"].get("exact")
    small = planar and H <= 3 and W <= 3 and (c["sx"], c["sy"]) in SMALL_CELLS and not inexact
    for r in range(H):
        for p in range(W):
            gp, ga, gd = P[r][p], A[r][p], D[r][p]
            where = f"cell ({r},{p})"
            nanp, nana, nand = gp != gp, ga != ga, gd != gd
            if not (nanp == nana == nand):
                return "three-outputs:nan", f"{where}: proximity={gp} allocation={ga} direction={gd} (NaN in one but not all)"
            if ((r, p) in tset) != (gp == 0.0):
                return "zero-iff-target", f"{where}: target={(r, p) in tset} proximity={gp}"
            if unbounded and targets and nanp:
                return "nan-unbounded", f"{where}: NaN although {len(targets)} target(s) exist and max_distance is unbounded"
            dists = [dist(t, r, p) for t in targets]
            nearest = min(dists) if dists else None
            if planar and targets:
                n2 = min(d2(t, r, p) for t in targets)
            if not nanp:
                if not targets:
                    return "no-target", f"{where}: proximity={gp} on a raster without targets"
                if gp < nearest * (1 - tol) - eps:
                    return "underestimate", f"{where}: proximity={gp} < true nearest distance {nearest}"
                if not unbounded and gp > mxv * (1 + tol) + eps:
                    return "gt-max", f"{where}: proximity={gp} > max_distance={mxv}"
                # the target allocation names: same value, at the reported distance, at the reported bearing
                ok = False
                for t, dt in zip(targets, dists):
                    if f32(vals[t[0]][t[1]]) != ga:
                        continue
                    if abs(dt - gp) > tol * max(dt, gp) + eps:
                        continue
                    b = compass(xs[p], ys[r], xs[t[1]], ys[t[0]])
                    if (b == 0) != (gd == 0) or abs(b - gd) > 2e-3:
                        continue
                    ok = True
                    break
                if not ok:
                    return "three-outputs:target", (f"{where}: no target has value {ga} at distance {gp} and bearing {gd} "
                                                    f"(targets {targets[:6]}...)")
            if planar and (len(targets) == 1 or small):
                kind = "single-target" if len(targets) == 1 else "small-grid"
                if targets:
                    within = unbounded or n2 <= m2
                    if inexact and not unbounded and abs(n2 - m2) <= m2 * Fraction(1, 10 ** 6):
                        continue                    # on the circle up to coordinate rounding
                    if within and (nanp or abs(gp - nearest) > tol * nearest + eps):
                        return kind, f"{where}: proximity={gp}, exact nearest distance {nearest} (within max_distance)"
                    if not within and not nanp:
                        return kind, f"{where}: proximity={gp} although the nearest target is at {nearest} > max_distance {mxv}"
                elif not nanp:
                    return kind, f"{where}: proximity={gp} without target"
            if (not planar) and len(targets) == 1:
                # GREAT_CIRCLE, single target: the clause names every metric
                within = unbounded or nearest <= mxv * (1 - 1e-6)
                if within and nanp:
                    # known finding (KNOWN_FINDINGS.txt): the sweep forgets the target when the distance
                    # along the scan line first exceeds sqrt(2)*max_distance (great-circle is not monotone along a line)
                    return "gc-single-target:nan-within-max", (f"{where}: NaN although the single target is at great-circle "
                                                               f"distance {nearest} <= max_distance {mxv}")
                if within and abs(gp - nearest) > tol * nearest + 1e-6:
                    return "single-target", f"{where}: proximity={gp}, exact great-circle distance {nearest}"
    return None


# ---------------------------------------------------------------- streams
def cell_class(c):
    u = abs(c["u"]) if c["metric_model"] else c.get("gc_cell", 1.0)
    for lim, name in ((1e-5, "<=1e-5"), (1e-3, "<=1e-3"), (0.1, "<=0.1"), (4, "<=4"), (100, "<=100")):
        if u <= lim:
            return name
    return ">100"


def tags_of(c, stream):
    n = c["H"] * c["W"]
    nt = sum(1 for row in c["vals"] for t in row if t not in ("0", "nan", "inf", "-inf")) if not c["tv"] else len(c["tv"])
    return [f"stream:{stream}", f"metric:{c['metric']}", f"max:{c['max']['kind']}", f"dtype:{c['dtype']}",
            f"size:{'1-3' if max(c['H'], c['W']) <= 3 else '4-6' if max(c['H'], c['W']) <= 6 else '7-12'}",
            f"cells:{c['sx']}x{c['sy']}", f"targets:{'explicit' if c['tv'] else 'default'}", f"magnitude:{c.get('mag', 'small')}",
            f"coords:{c['affine']['cls'] if c.get('affine') else 'unscaled' if c['metric_model'] else 'lonlat'}",
            f"cell-size:{cell_class(c)}",
            f"density:{'0' if nt == 0 else '1' if nt == 1 else '<=10%' if nt <= 0.1 * n else '<=30%' if nt <= 0.3 * n else '>30%'}"]


def evaluate(r, stream, cases, results, use_model=True):
    """oracle on every real result + model comparison; returns number of disagreements"""
    from common import Driver
    reqs, idx, fails = [], [], []
    for i, (c, res) in enumerate(zip(cases, results)):
        r.case(c, desc=c if i == 0 else None, nontrivial=True, tags=tags_of(c, stream) + [f"status:{res['status']}"])
        if res["status"] != "ok":
            if c["metric"] == "GREAT_CIRCLE" and res["status"] == "ValueError":
                continue
            fails.append(("raises", f"{stream}: {res['status']}: {res.get('msg')}", c))
            continue
        bad = oracle(c, res)
        if bad:
            fails.append((bad[0], f"[{stream}] {bad[1]}", c))
            continue
        if use_model and c["metric_model"]:
            if c.get("affine") and not c["affine"].get("exact"):
                r.tag("model-skipped:inexact-coordinates(oracle only)")
                continue
            if threshold_tie(c):
                r.tag("model-skipped:threshold-tie")
                continue
            reqs.append(model_request(c))
            idx.append(i)
    for key, what, c in sorted(fails, key=lambda f: f[2]["H"] * f[2]["W"]):
        r.fail(key, what, c)
    replies = Driver().ask(reqs)
    nd = 0
    for i, rep in zip(idx, replies):
        if not rep.startswith("P="):
            r.disagree(stream, cases[i], "real outputs", f"driver said {rep[:200]}")
            nd += 1
            continue
        diffs = compare(cases[i], results[i], rep)
        if diffs:
            nd += 1
            r.disagree(stream, cases[i], diffs[:3], rep[:400])
    return nd


def facts_check(r):
    """T2 facts against the imported module (observed)"""
    from common import LEAN
    rep = json.load(open(os.path.join(LEAN, "XrsVerif", "Gen", "report.json")))
    f = rep.get("facts:ProximityFacts.lean")
    if f is None:
        r.broken.append("Gen/ProximityFacts.lean was not generated")
        return
    import importlib
    px = importlib.import_module("xrspatial.proximity")
    table = {k: int(v) for k, v in px.DISTANCE_METRICS.items()}
    if table != f["metric_table"]:
        r.disagree("facts", dict(fact="metric_table"), table, f["metric_table"])
    consts = dict(EUCLIDEAN=px.EUCLIDEAN, GREAT_CIRCLE=px.GREAT_CIRCLE, MANHATTAN=px.MANHATTAN,
                  PROXIMITY=px.PROXIMITY, ALLOCATION=px.ALLOCATION, DIRECTION=px.DIRECTION)
    if consts != f["constants"]:
        r.disagree("facts", dict(fact="constants"), consts, f["constants"])
    r.case(dict(fact="tables"), nontrivial=False, tags=["stream:facts"])


def gc_wraparound_observation(r):
    """informational (never a failure): GREAT_CIRCLE is not monotone along a line that spans more than half the
    globe, so the sweep forgets the target on the way and cells within max_distance 'around the back' stay NaN.
    Outside the domain the single-target theorem / oracle cover (planar metrics); recorded in the evidence."""
    xs = [float(x) for x in range(-170, 171, 10)]
    c = dict(H=1, W=len(xs), vals=[["1"] + ["0"] * (len(xs) - 1)], dtype="float64", tv=[], xs=[tok(x) for x in xs],
             ys=["0"], sx=0, sy=0, u=1.0, metric="GREAT_CIRCLE", metric_model=None, max=dict(kind="raw", k=3.0e6))
    x = run_real([c], jit=False, nproc=1)[0]
    if x["status"] != "ok":
        return
    P = [untok(t) for t in x["proximity"]["v"][0]]
    missed = [(j, round(gc_dist(xs[0], xs[j], 0.0, 0.0))) for j in range(len(xs))
              if P[j] != P[j] and gc_dist(xs[0], xs[j], 0.0, 0.0) <= 3.0e6]
    if missed:
        r.fail("gc-single-target:nan-within-max",
               f"GREAT_CIRCLE single target at lon -170 on a 1x35 raster lon -170..170, max_distance 3000 km: columns {missed} "
               "are within max_distance of the target but NaN", c)
    r.extra["observations"] = [dict(
        what="GREAT_CIRCLE, one target at lon -170, 1x35 raster lon -170..170, max_distance 3000 km: columns "
             "whose true distance is within max_distance but which are NaN (the path along the line leaves the 2*max^2 range)",
        columns_and_true_distance_m=missed, oracle_still_sound=oracle(c, x) is None)]
    r.case(c, nontrivial=False, tags=["stream:observation"])


def small_tables(r, rng, thorough):
    """interp: every target layout on every grid with H,W <= 3, every table cell size, both metrics, several maxima"""
    cases = []
    maxes = [dict(kind="inf"), dict(kind="half", k=0), dict(kind="half", k=1), dict(kind="sqrtq", k=2), dict(kind="int", k=2),
             dict(kind="sqrth", k=4), dict(kind="int", k=1), dict(kind="int", k=3), dict(kind="half", k=3)]
    if not thorough:
        maxes = maxes[:1] + [rng.choice(maxes[1:])]
    for H in (1, 2, 3):
        for W in (1, 2, 3):
            for (sx, sy) in SMALL_CELLS:
                for metric in ("EUCLIDEAN", "MANHATTAN"):
                    if not thorough and (sx, sy) != (1, 1) and rng.random() < 0.5:
                        continue
                    for mx in maxes:
                        for mask in range(2 ** (H * W)):
                            cases.append(layout_case(H, W, mask, sx, sy, metric, mx, ydesc=bool(mask & 1)))
    return cases


def run(r, scale=1):
    import time
    thorough = r.tier == "thorough"
    nproc = int(os.environ.get("C06_PROCS", "14"))
    rng = r.rng
    timing = r.extra.setdefault("timing_s", {})
    timing["proofs_done_at"] = round(time.time() - r.t0, 1)
    t_phase = time.time()
    r.rule = ("rasters 1x1..12x12 with unique target values (12% repeated; 23% with ids 2^24..2^53 one apart or subnormal/huge float64 cells), densities 0..60%, default and explicit "
              "target_values (incl. absent values / NaN, int or float lists), NaN/inf cells, 7 dtypes, coordinate unit in {1,1/2,2,1/4}, steps "
              "{1,2,3} per axis, ascending/descending; 35% of the rasters on affinely re-scaled coordinates x0 + i*step*u (projected: "
              "eastings 1.7e5..8.3e5 / northings 1e6..9.9e6 with cells 0.5 m..10 km; geographic: degrees with cells 1e-6..1e-2; far: "
              "offsets up to +-1e7 with cells 1e-2..1e4; fine: cells 1e-6..1e-3 near the origin; dyadic: cell 2^-20..2^13 at offsets up to "
              "1e7, exactly representable -- the only re-scaled class the model is compared on, the others are judged by the exact oracle "
              "on the float coordinates as given; 30% of them single-target rasters), EUCLIDEAN/MANHATTAN/unknown metric strings, max_distance in "
              "{inf, None, k, k+1/2, sqrt(k+1/2), sqrt(k+1/4)}; all three public functions per case; stream jit = "
              "numba-compiled code, stream interp = same source under NUMBA_DISABLE_JIT; small = every layout on "
              "H,W<=3; gc = GREAT_CIRCLE (oracle only; cells 10 degrees .. 1e-6 degrees, base points anywhere on the globe, max_distance a few "
              "cells); non-trivial = distinct case")
    facts_check(r)
    # corpus first
    corpus = [b["case"] for b in r.corpus() if "case" in b]
    if corpus:
        res = run_real(corpus, jit=True, nproc=nproc)
        evaluate(r, "corpus", corpus, res)
    # jit stream
    n_jit = int({"quick": 56, "thorough": 260}[r.tier] * scale)
    jit_cases = [gen_case(rng, small=(i % 4 == 0)) for i in range(n_jit)]
    n_gc = int({"quick": 8, "thorough": 40}[r.tier] * scale)
    gc_cases = [gen_gc_case(rng) for _ in range(n_gc)]
    if thorough:
        # every layout with H,W <= 3 on the compiled code (unit cells, Euclidean, unbounded): 682 rasters
        for H in (1, 2, 3):
            for W in (1, 2, 3):
                for mask in range(2 ** (H * W)):
                    jit_cases.append(layout_case(H, W, mask, perm=mask))
    res = run_real(jit_cases + gc_cases, jit=True, nproc=nproc)
    evaluate(r, "jit", jit_cases, res[:len(jit_cases)])
    evaluate(r, "gc", gc_cases, res[len(jit_cases):], use_model=False)
    gc_wraparound_observation(r)
    timing["jit_stream"] = round(time.time() - t_phase, 1)
    timing["jit_calls"] = 3 * (len(jit_cases) + len(gc_cases))
    t_phase = time.time()
    # interpreted stream: many more cases
    n_int = int({"quick": 1500, "thorough": 14000}[r.tier] * scale)
    int_cases = [gen_case(rng, small=(i % 5 == 0)) for i in range(n_int)]
    int_gc = [gen_gc_case(rng) for _ in range(n_int // 10)]
    small = small_tables(r, rng, thorough)
    res = run_real(int_cases + int_gc + small, jit=False, nproc=nproc)
    evaluate(r, "interp", int_cases, res[:n_int])
    evaluate(r, "interp-gc", int_gc, res[n_int:n_int + len(int_gc)], use_model=False)
    evaluate(r, "small", small, res[n_int + len(int_gc):])
    timing["interp_streams"] = round(time.time() - t_phase, 1)
    timing["interp_calls"] = 3 * (n_int + len(int_gc) + len(small))
    shrink_failures(r, nproc)
    # layer T3: the generated ILang programs against the numba-compiled functions (translator validation; the
    # refinement theorems of Props/C06.lean are about these generated programs)
    t_phase = time.time()
    import il_corr
    n_il = int({"quick": 600, "thorough": 6000}[r.tier] * scale)
    il_corr.stream(r, ["proximityLine", "calcDirection"], n_il)
    # the public functions re-jit the closure `_process_numpy` on every call (~1-2 s per case)
    il_corr.stream(r, ["processNumpy"], int({"quick": 25, "thorough": 250}[r.tier] * scale))
    timing["il_streams"] = round(time.time() - t_phase, 1)
    if thorough:
        r.exhaustive = ("every target layout on every grid with H,W<=3: 682 rasters on the compiled code (unit cells, "
                        "Euclidean, unbounded); x 5 cell sizes x 2 metrics x 9 max_distance values on the interpreted source")
    r.trusted += ["numba / numpy / xarray", "CPython execution of the same source for the `interp` stream"]
    r.assumptions += ["distances are exact squared naturals on a regular grid (float rounding of sqrt / squares is covered by "
                      "the correspondence run only)",
                      "great-circle distance enters the model as an arbitrary distance table (Metric.other)"]


def sub_case(c, rows, cols, clear=None):
    """restriction of a case to the given rows / columns, optionally with one cell made a non-target"""
    vals = [[c["vals"][i][j] for j in cols] for i in rows]
    d = dict(c, H=len(rows), W=len(cols), vals=vals, xs=[c["xs"][j] for j in cols], ys=[c["ys"][i] for i in rows])
    if clear is not None:
        i, j = clear
        d["vals"] = [list(row) for row in vals]
        d["vals"][i][j] = "0" if not c["tv"] else "nan"
    return d


def fails_with(c, key, jit):
    x = run_real([c], jit=jit, nproc=1)[0]
    if x["status"] != "ok":
        return ("raises", x["status"]) if key == "raises" else None
    bad = oracle(c, x)
    return bad if bad and bad[0] == key else None


def shrink(c, key, nproc):
    """greedy: drop a boundary row / column or clear a target while the same oracle still fails (interpreted source)"""
    for _ in range(24):
        H, W = c["H"], c["W"]
        cands = []
        if H > 1:
            cands += [sub_case(c, list(range(1, H)), list(range(W))), sub_case(c, list(range(H - 1)), list(range(W)))]
        if W > 1:
            cands += [sub_case(c, list(range(H)), list(range(1, W))), sub_case(c, list(range(H)), list(range(W - 1)))]
        if c["dtype"].startswith("float") or not c["tv"]:
            for i in range(H):
                for j in range(W):
                    if c["vals"][i][j] not in ("0", "nan"):
                        cands.append(sub_case(c, list(range(H)), list(range(W)), clear=(i, j)))
        cands = cands[:60]
        if not cands:
            break
        res = run_real(cands, jit=False, nproc=nproc)
        nxt = None
        for cand, x in zip(cands, res):
            if x["status"] == "ok":
                bad = oracle(cand, x)
                if bad and bad[0] == key:
                    nxt = cand
                    break
        if nxt is None:
            break
        c = nxt
    return c


def shrink_failures(r, nproc):
    """replace the first failing case of every oracle key by a minimised one that still fails on the compiled code"""
    seen = set()
    for f in r.failures:
        if f["key"] in seen or f["key"] == "raises" or not isinstance(f["case"], dict) or "vals" not in f["case"]:
            continue
        seen.add(f["key"])
        try:
            small = shrink(f["case"], f["key"], nproc)
            bad = fails_with(small, f["key"], jit=True)
            if bad:
                f["case"], f["what"] = small, f"[minimised, compiled code] {bad[1]}"
            else:
                bad0 = fails_with(f["case"], f["key"], jit=True)
                if bad0:
                    f["what"] = f"[compiled code] {bad0[1]}"
        except Exception as ex:  # noqa  -- minimisation is best effort
            r.notes.append("shrink failed: " + repr(ex))
        if len(seen) >= 3:
            break


def search(r):
    """a proof obligation or the correspondence broke: run the oracle on many more / targeted cases"""
    if r.failures:
        return
    nproc = int(os.environ.get("C06_PROCS", "14"))
    rng = r.rng
    # the cases model and code disagreed on, first on the compiled code
    dis = [d["case"] for d in r.disagreements if isinstance(d.get("case"), dict) and "vals" in d["case"]][:40]
    if dis:
        res = run_real(dis, jit=True, nproc=nproc)
        for c, x in zip(dis, res):
            if x["status"] == "ok":
                bad = oracle(c, x)
                if bad:
                    r.fail(bad[0], f"[search:disagreeing case] {bad[1]}", c)
                    return
    n = {"quick": 6000, "thorough": 30000}[r.tier]
    cases = [gen_case(rng, small=(i % 3 == 0)) for i in range(n)] + [gen_gc_case(rng) for _ in range(n // 10)]
    cases += small_tables(r, rng, True)
    res = run_real(cases, jit=False, nproc=nproc)
    best = None
    for c, x in zip(cases, res):
        r.case(c, nontrivial=True, tags=["stream:search"])
        if x["status"] != "ok":
            continue
        bad = oracle(c, x)
        if bad and (best is None or c["H"] * c["W"] < best[0]["H"] * best[0]["W"]):
            best = (c, bad)
    if best:
        c, bad = best
        # confirm on the compiled code
        x = run_real([c], jit=True, nproc=1)[0]
        b2 = oracle(c, x) if x["status"] == "ok" else ("raises", x["status"])
        if b2:
            r.fail(b2[0], f"[search, compiled code] {b2[1]}", c)
        else:
            r.fail(bad[0], f"[search, interpreted source only] {bad[1]}", c)
        shrink_failures(r, nproc)


def replay(r, body):
    c = body["case"]
    if isinstance(c, dict) and "prog" in c:          # a case of an il:<prog> stream
        import il_corr
        bad = il_corr.replay_case(c)
        print("still disagrees with the generated program" if bad else "does not fail on the current tree")
        return bad
    x = run_real([c], jit=True, nproc=1)[0]
    if x["status"] != "ok":
        print("still fails: raises", x["status"], x.get("msg"))
        return 1
    bad = oracle(c, x)
    if bad:
        print("still fails:", bad[0], bad[1])
        return 1
    print("does not fail on the current tree")
    return 0


if __name__ == "__main__":
    if len(sys.argv) >= 4 and sys.argv[1] == "--worker":
        worker_main(sys.argv[2], sys.argv[3])
