"""
C01 -- Dask-backed rasters give the NumPy result for every chunking and scheduler.

Tie:
  G  depths / boundaries / block functions / reduction scopes / index wiring / kernels are regenerated
     from /repo (Gen/Overlap, Gen/Blocks, Gen/Reductions, Gen/Indices, Gen/Kernels); Props/C01.lean
     proves Dask = NumPy for every chunking about those definitions.
  H  three library contracts the model assumes are *observed* here:
     (a) halo delivery: the blocks dask hands to a block function are compared with the model's
         `haloBlock` (driver) for the same chunking, depth and NaN boundary;
     (b) the model of the Dask path (`mapOverlap` over the generated kernel, driver) against the real
         Dask result and the real NumPy result;
     (c) every listed operation, Dask vs NumPy on the real code, over chunk compositions and
         schedulers -- this is also the failing-input search;
     (d) several lazy results computed *together* (one dask.compute, threads x {2,4,8}), each against
         its NumPy result: the only place where tasks of different calls share worker threads and
         process-global state, i.e. where an impure block function (global RNG, module table) shows.
         The purity itself is a proof obligation (Props/C01.lean `all_block_functions_pure`, decided on
         the generated effect summaries); this stream is its observation and its failing-input search.
     (e) several lazy results evaluated in ONE *graph* (dask.compute of all, xr.Dataset, a - b): calls that differ in exactly
         one place, or in nothing; each result against its own NumPy call.  dask merges the graphs into one dictionary:
         tasks of different calls that carry the same key replace each other, although every result computed alone is
         right.  That no call site of the library names its own graph key is a proof obligation (Props/C01.lean
         `no_call_site_names_its_graph_key`, decided on Gen/GraphKeys.lean + the key fields of Gen/Overlap, Gen/Blocks);
         this stream observes dask's side of the contract and is the failing-input search (harness/jointgraph.py).
"""
import itertools
import math

import dask
import dask.array as da
import numpy as np
import xarray as xr

from common import Driver, Infra, close, grid_tok, parse_grid, tok

PROP = "C01"
SCHEDULERS = [("synchronous", None), ("threads", 1), ("threads", 2), ("threads", 4), ("threads", 16)]
DTYPES = [np.int8, np.uint8, np.int16, np.int32, np.int64, np.uint32, np.uint64, np.float32, np.float64]


def compositions(n):
    """all ordered compositions of n"""
    if n == 0:
        yield ()
        return
    for first in range(1, n + 1):
        for rest in compositions(n - first):
            yield (first,) + rest


def random_composition(rng, n):
    out, left = [], n
    while left > 0:
        c = rng.randrange(1, left + 1) if rng.random() < 0.7 else 1
        out.append(c)
        left -= c
    return tuple(out)


def gen_data(rng, h, w, dtype, kind):
    if kind == "ints":
        a = np.array([rng.randrange(0, 9) for _ in range(h * w)], dtype=np.float64)
    elif kind == "dyadic":
        a = np.array([rng.randrange(-40, 80) / 8 for _ in range(h * w)], dtype=np.float64)
    elif kind == "ramp":
        a = np.arange(h * w, dtype=np.float64) * rng.choice([1, 2, 0.5])
    else:
        a = np.array([rng.random() * 100 for _ in range(h * w)], dtype=np.float64)
    a = a.reshape(h, w)
    if np.issubdtype(dtype, np.integer):
        a = np.abs(np.floor(a)) % 100
    a = a.astype(dtype)
    if np.issubdtype(dtype, np.floating):
        r = rng.random()
        if r < 0.45:
            for _ in range(rng.randrange(1, 3)):
                a[rng.randrange(h), rng.randrange(w)] = np.nan
        elif r < 0.55:
            a[rng.randrange(h), rng.randrange(w)] = rng.choice([np.inf, -np.inf])
    return a


def mk(a, chunks=None, res=None, coords=True):
    h, w = a.shape
    d = da.from_array(a, chunks=chunks) if chunks is not None else a
    attrs = {}
    if res is not None:
        attrs["res"] = res
    kw = {}
    if coords:
        sx, sy = (res if isinstance(res, tuple) else (1.0, 1.0)) if res is not None else (1.0, 1.0)
        kw["coords"] = {"y": np.arange(h, dtype=float) * sy, "x": np.arange(w, dtype=float) * sx}
    return xr.DataArray(d, dims=["y", "x"], attrs=attrs, **kw)


KERNEL_CLASSES = ["mask01", "mask01", "frac", "int>1", "negative", "nan", "mixed"]
KERNEL_DTYPES = ["float64", "float64", "float32", "int64", "int32", "bool"]
KERNEL_DTYPES_QUICK = ["float64", "float64", "float64", "int64", "bool"]    # every (kernel dtype, statistic) pair is a numba compilation
_TIER = {"quick": False}


def gen_kernel(rng, h, w, weighted=False, cls=None, dtype=None):
    """a kernel array of odd shape.  Entry classes (what the cells hold beside 0 and 1): `mask01` nothing, `frac`
    weights in (0, 1), `int>1` integers above 1, `negative`, `nan`, `mixed` all of them; dtypes float64 / float32 /
    int64 / int32 / bool (a class the dtype cannot hold degrades: bool -> mask01, int -> no fractions / NaN).
    focal.apply / focal_stats *select* the cells whose entry equals 1, hotspots / convolution_2d *weigh* with the
    entries: both readings must come out the same on the two backends, whatever the entries are."""
    kr = rng.choice([r for r in (1, 3, 5, 7) if r <= max(1, h + 2)])
    kc = rng.choice([c for c in (1, 3, 5, 7) if c <= max(1, w + 2)])
    if cls is None:
        cls = rng.choice(KERNEL_CLASSES + ["mixed"] * 5) if weighted else rng.choice(KERNEL_CLASSES)
    if dtype is None:
        dtype = rng.choice(KERNEL_DTYPES_QUICK if _TIER["quick"] else KERNEL_DTYPES)
    extra = {"mask01": [], "frac": [0.5, 0.25, 0.75], "int>1": [2, 3, 2], "negative": [-1, -1, -0.5],
             "nan": [float("nan")], "mixed": [2, 0.5, -1, 0.25]}[cls]
    if dtype == "bool":
        extra = []
    elif dtype.startswith("int"):
        extra = [e for e in extra if e == e and float(e).is_integer()]
    pool = [0, 1, 1] + extra + extra[:1]
    k = np.array([rng.choice(pool) for _ in range(kr * kc)], dtype=np.float64).reshape(kr, kc)
    if not (k == 1).any():
        k[kr // 2, kc // 2] = 1
    return k.astype(dtype)


def kernel_tags(op, k):
    f = k.astype(np.float64)
    other = f[(f != 0) & (f != 1)]
    tags = [f"kernel-dtype:{k.dtype.name}"]
    if other.size == 0:
        tags.append("kernel-entries:0/1")
    else:
        if np.isnan(other).any():
            tags.append("kernel-entries:nan")
        if ((other > 0) & (other < 1)).any():
            tags.append("kernel-entries:frac")
        if (other > 1).any():
            tags.append("kernel-entries:>1")
        if (other < 0).any():
            tags.append("kernel-entries:negative")
    return tags


# ---------------------------------------------------------------- operations
def ops_table():
    import xrspatial
    from xrspatial import classify, convolution, focal, multispectral
    from xrspatial.perlin import perlin
    from xrspatial.terrain import generate_terrain

    def one(f):
        return lambda agg, p: f(agg, **p)

    def idx(f, n):
        def call(aggs, p):
            return f(*aggs[:n], **p)
        return call

    T = {
        "slope": dict(call=one(xrspatial.slope), kind="stencil"),
        "aspect": dict(call=one(xrspatial.aspect), kind="stencil"),
        "curvature": dict(call=one(xrspatial.curvature), kind="stencil"),
        "hillshade": dict(call=one(xrspatial.hillshade), kind="stencil"),
        "mean": dict(call=one(focal.mean), kind="stencil"),
        "apply": dict(call=lambda agg, p: focal.apply(agg, p["kernel"]), kind="kernel"),
        "focal_stats": dict(call=lambda agg, p: focal.focal_stats(agg, p["kernel"], stats_funcs=p["stats"]), kind="kernel"),
        "hotspots": dict(call=lambda agg, p: focal.hotspots(agg, p["kernel"]), kind="kernel"),
        "convolution_2d": dict(call=lambda agg, p: convolution.convolution_2d(agg, p["kernel"]), kind="kernel"),
        "binary": dict(call=lambda agg, p: classify.binary(agg, p["values"]), kind="percell"),
        "reclassify": dict(call=lambda agg, p: classify.reclassify(agg, p["bins"], p["new_values"]), kind="percell"),
        "equal_interval": dict(call=lambda agg, p: classify.equal_interval(agg, p["k"]), kind="global"),
        "perlin": dict(call=lambda agg, p: perlin(agg, **p), kind="generator"),
        "generate_terrain": dict(call=lambda agg, p: generate_terrain(agg, **p), kind="generator"),
        "true_color": dict(call=lambda aggs, p: multispectral.true_color(*aggs[:3], **p), kind="bands", nb=3),
    }
    for nm, nb in [("arvi", 3), ("evi", 3), ("gci", 2), ("nbr", 2), ("nbr2", 2), ("ndvi", 2), ("ndmi", 2),
                   ("savi", 2), ("sipi", 3), ("ebbi", 3)]:
        T[nm] = dict(call=idx(getattr(multispectral, nm), nb), kind="bands", nb=nb)
    # the public function behind every operation (key of the generated effect summaries, Gen/Effects.lean)
    mods = dict(slope="slope", aspect="aspect", curvature="curvature", hillshade="hillshade", mean="focal", apply="focal",
                focal_stats="focal", hotspots="focal", convolution_2d="convolution", binary="classify",
                reclassify="classify", equal_interval="classify", perlin="perlin", generate_terrain="terrain")
    for nm in T:
        T[nm]["fid"] = mods.get(nm, "multispectral") + "." + nm
    return T


def stateful_ops(T):
    """operations whose generated effect summary (facts_effects.py -> Gen/report.json, regenerated by this run
    from the tree under test) writes process-global state (the global RNG, a module table, ...): these are the ones for which *which other task runs
    at the same time* can matter.  Falls back to the seeded generators when the report cannot be read."""
    import json
    import os
    from common import LEAN
    try:
        rep = json.load(open(os.path.join(LEAN, "XrsVerif", "Gen", "report.json")))["facts:Effects.lean"]["functions"]
        out = [nm for nm, v in T.items() if rep.get(v["fid"], {}).get("writes")]
    except (OSError, KeyError, ValueError):
        out = []
    return out or [nm for nm, v in T.items() if v["kind"] == "generator"]


def gen_params(rng, op, h, w):
    if op == "hillshade":
        return dict(azimuth=rng.choice([225, 0, 90, 315, 45]), angle_altitude=rng.choice([25, 45, 0, 90]))
    if op == "mean":
        return dict(passes=rng.choice([1, 1, 2, 3, 0]), excludes=rng.choice([[np.nan], [np.nan, 3.0], [0.0], []]))
    if op in ("apply", "hotspots"):
        return dict(kernel=gen_kernel(rng, h, w))
    if op == "focal_stats":
        stats = rng.sample(["mean", "max", "min", "range", "std", "var", "sum"], rng.randrange(1, 4))
        return dict(kernel=gen_kernel(rng, h, w), stats=stats)
    if op == "convolution_2d":
        return dict(kernel=gen_kernel(rng, h, w, weighted=True))
    if op == "binary":
        return dict(values=rng.sample([0, 1, 2, 3, 4, 5, 8, 50], rng.randrange(1, 4)))
    if op == "reclassify":
        n = rng.randrange(1, 6)
        bins = sorted(rng.sample(range(-2, 60), n))
        return dict(bins=bins, new_values=[rng.randrange(0, 9) for _ in range(n)])
    if op == "equal_interval":
        return dict(k=rng.choice([2, 3, 5, 7]))
    if op == "perlin":
        return dict(freq=rng.choice([(1, 1), (2, 3), (0.5, 4)]), seed=rng.randrange(0, 50))
    if op == "generate_terrain":
        return dict(x_range=rng.choice([(0, 500), (-20, 20)]), y_range=rng.choice([(0, 500), (0, 30)]),
                    seed=rng.randrange(0, 50), zfactor=rng.choice([4000, 1, 50]))
    if op == "true_color":
        return dict(nodata=rng.choice([1, 0, 2.5]))
    if op == "evi":
        return dict(c1=rng.choice([6.0, 1.0]), c2=rng.choice([7.5, 0.5]), soil_factor=rng.choice([1.0, 0.5, -0.5]),
                    gain=rng.choice([2.5, 1.0]))
    if op == "savi":
        return dict(soil_factor=rng.choice([1.0, 0.5, 0.0, -0.5]))
    return {}


def params_json(p):
    out = {}
    for k, v in p.items():
        if isinstance(v, np.ndarray):
            out[k] = dict(shape=list(v.shape), dtype=v.dtype.name, data=[tok(x) for x in v.astype(np.float64).ravel().tolist()])
        elif isinstance(v, (list, tuple)):
            out[k] = [tok(x) if isinstance(x, float) else x for x in v]
        else:
            out[k] = v
    return out


def params_from_json(j):
    from common import untok
    out = {}
    for k, v in j.items():
        if isinstance(v, dict) and "shape" in v:
            out[k] = np.array([untok(t) for t in v["data"]], dtype=np.float64).reshape(v["shape"]).astype(v.get("dtype", "float64"))
        elif isinstance(v, list):
            vals = [untok(x) if isinstance(x, str) and k == "excludes" else x for x in v]
            out[k] = tuple(vals) if k in ("freq", "x_range", "y_range") else vals
        else:
            out[k] = v
    return out


def case_json(c):
    return dict(op=c["op"], dtype=c["dtype"], res=c["res"], rch=list(c["rch"]), cch=list(c["cch"]),
                sched=list(c["sched"]), params=params_json(c["params"]),
                data=[dict(shape=list(a.shape), data=[tok(x) for x in a.ravel().tolist()]) for a in c["data"]])


def case_from_json(j):
    from common import untok
    data = [np.array([untok(t) for t in d["data"]], dtype=np.float64).reshape(d["shape"]).astype(j["dtype"])
            for d in j["data"]]
    return dict(op=j["op"], dtype=j["dtype"], res=tuple(j["res"]) if isinstance(j["res"], list) else j["res"],
                rch=tuple(j["rch"]), cch=tuple(j["cch"]), sched=tuple(j["sched"]),
                params=params_from_json(j["params"]), data=data)


def call_op(T, c, backend):
    """the public call itself (lazy for a Dask-backed raster): returns the DataArray; may raise"""
    op = T[c["op"]]
    chunks = (c["rch"], c["cch"]) if backend == "dask" else None
    aggs = [mk(a.copy(), chunks=chunks, res=c["res"]) for a in c["data"]]
    arg = aggs if op["kind"] == "bands" else aggs[0]
    params = {k: (v.copy() if isinstance(v, np.ndarray) else v) for k, v in c["params"].items()}
    return op["call"](arg, params)


def run_op(T, c, backend):
    """returns ('ok', ndarray, lazy?) or (exception name, message, None)"""
    try:
        out = call_op(T, c, backend)
        lazy = isinstance(out.data, da.Array)
        if backend == "dask":
            sched, nw = c["sched"]
            kw = dict(scheduler=sched)
            if nw:
                kw["num_workers"] = nw
            with dask.config.set(**kw):
                val = np.asarray(out.data.compute())
        else:
            val = np.asarray(out.data)
        return "ok", val, lazy
    except Exception as ex:  # noqa: BLE001 -- the exception *is* the observation
        return type(ex).__name__, str(ex)[:300], None


def compare(c, n_out, d_out):
    """None or description; exact for kernel results, tolerant where a global reduction is re-ordered"""
    if n_out.shape != d_out.shape:
        return f"shape {n_out.shape} vs {d_out.shape}"
    a, b = n_out.astype(np.float64), d_out.astype(np.float64)
    nan_a, nan_b = np.isnan(a), np.isnan(b)
    exact = np.where(nan_a | nan_b, nan_a & nan_b, a == b)
    if exact.all():
        return None
    op = c["op"]
    idxs = np.argwhere(~exact)
    if op in ("hotspots", "equal_interval", "perlin", "generate_terrain", "true_color"):
        # results that depend on a re-ordered global reduction: accept float rounding
        if op in ("perlin", "generate_terrain"):
            if (nan_a == nan_b).all() and np.allclose(a[~nan_a], b[~nan_b], rtol=1e-5, atol=1e-6 * max(1.0, float(np.nanmax(np.abs(a))))):
                return None
        if op == "true_color":
            if (np.abs(a - b) <= 1).all():
                return None
        if op in ("hotspots", "equal_interval"):
            # a class may flip only for a cell whose score sits on a threshold within rounding;
            # with the exactly representable inputs used here that does not happen, so report
            pass
    i = tuple(int(t) for t in idxs[0])
    return f"{op}: numpy {n_out[i]} vs dask {d_out[i]} at {i} ({len(idxs)} cells differ)"


def canon_grid(s):
    """canonical text of a grid reply/request (both sides print floats differently)"""
    if not s[:1].isdigit():
        return s
    g = parse_grid(s)
    return f"{len(g)}x{len(g[0]) if g else 0}:" + ",".join("nan" if v != v else repr(float(v)) for row in g for v in row)


# ---------------------------------------------------------------- halo delivery (contract a)
def halo_delivery(r, drv, n):
    reqs, expect = [], []
    for _ in range(n):
        h, w = r.rng.randrange(1, 7), r.rng.randrange(1, 7)
        rch, cch = random_composition(r.rng, h), random_composition(r.rng, w)
        dr, dc = r.rng.randrange(0, 3), r.rng.randrange(0, 3)
        if dr > min(rch) or dc > min(cch):
            r.tag("halo:depth>chunk(skipped: dask rechunks)")
            continue
        ids = np.arange(1, h * w + 1, dtype=np.float64).reshape(h, w)
        got = []

        def capture(block, block_info=None):
            got.append(np.array(block, dtype=np.float64))
            return block

        with dask.config.set(scheduler="synchronous"):
            da.from_array(ids, chunks=(rch, cch)).map_overlap(capture, depth=(dr, dc), boundary=np.nan,
                                                              meta=np.array(())).compute()
        got = [g for g in got if g.size > 0 and g.shape != (0, 0)]
        real = sorted(canon_grid(grid_tok(g)) for g in got)
        r0 = 0
        model_req = []
        for hh in rch:
            c0 = 0
            for ww in cch:
                model_req.append(f"haloblock a={grid_tok(ids)} dr={dr} dc={dc} r0={r0} hh={hh} c0={c0} ww={ww}")
                c0 += ww
            r0 += hh
        reqs.append((dict(h=h, w=w, rch=list(rch), cch=list(cch), dr=dr, dc=dc), real, model_req))
    flat = [q for _, _, mr in reqs for q in mr]
    replies = drv.ask(flat)
    k = 0
    for case, real, mr in reqs:
        model = sorted(canon_grid(x) for x in replies[k:k + len(mr)])
        k += len(mr)
        r.case(dict(stream="halo", **case), nontrivial=(case["dr"] + case["dc"] > 0 and len(mr) > 1), tags=["stream:halo-delivery"])
        # dask may call the block function extra times on tiny meta arrays; require every model block to be delivered
        missing = [m for m in model if m not in real]
        if missing:
            r.disagree("halo-delivery", case, f"dask delivered {real[:4]}", f"model expects {missing[:2]}")


# ---------------------------------------------------------------- model of the dask path (contract b)
def model_overlap(r, drv, n):
    import xrspatial
    reqs = []
    for _ in range(n):
        op = r.rng.choice(["slope", "aspect", "curvature"])
        h, w = r.rng.randrange(1, 7), r.rng.randrange(1, 7)
        rch, cch = random_composition(r.rng, h), random_composition(r.rng, w)
        a = gen_data(r.rng, h, w, np.float32, r.rng.choice(["ints", "dyadic"]))
        res = r.rng.choice([(1.0, 1.0), (2.0, 0.5), (0.5, 4.0)])
        c = dict(op=op, dtype="float32", res=res, rch=rch, cch=cch, sched=("synchronous", None), params={}, data=[a])
        kname = {"slope": "slope_cpu", "aspect": "aspect_cpu", "curvature": "curvature_cpu"}[op]
        scal = ""
        if op == "slope":
            scal = f" s:cellsize_x={tok(res[0])} s:cellsize_y={tok(res[1])}"
        elif op == "curvature":
            scal = f" s:cellsize={tok((res[0] + res[1]) / 2)}"
        line = (f"overlap name={kname} dr=1 dc=1 rch={'+'.join(map(str, rch))} cch={'+'.join(map(str, cch))}"
                f"{scal} a:data={grid_tok(a.astype(np.float64))}")
        reqs.append((c, line))
    replies = drv.ask([q for _, q in reqs])
    T = ops_table()
    for (c, line), rep in zip(reqs, replies):
        r.case(dict(stream="model-overlap", **case_json(c)), nontrivial=len(c["rch"]) * len(c["cch"]) > 1,
               tags=["stream:model-overlap", f"op:{c['op']}"])
        if not rep[:1].isdigit():
            r.disagree("model-overlap", case_json(c), "real dask", f"driver: {rep[:200]}")
            continue
        mg = parse_grid(rep)
        st, d_out, _ = run_op(T, c, "dask")
        if st != "ok":
            r.disagree("model-overlap", case_json(c), f"real dask raised {st}: {d_out}", "model has a value")
            continue
        h, w = d_out.shape
        bad = [(i, j) for i in range(h) for j in range(w) if not close(float(d_out[i, j]), mg[i][j], rel=3e-6, abs_=2e-5)]
        if bad:
            i, j = bad[0]
            r.disagree("model-overlap", case_json(c), f"real dask {float(d_out[i, j])} at {(i, j)}", f"model {mg[i][j]}")


# ---------------------------------------------------------------- all operations, dask vs numpy (contract c + oracle)
def gen_case(rng, T, op, exhaustive_chunks=None):
    kind = T[op]["kind"]
    h, w = rng.randrange(1, 8), rng.randrange(1, 8)
    if op in ("perlin", "generate_terrain"):
        h, w = rng.randrange(2, 8), rng.randrange(2, 8)
    if kind == "bands":
        dtype = rng.choice([np.uint8, np.uint16, np.int32, np.float32, np.float64])
    elif op in ("perlin", "generate_terrain"):
        dtype = rng.choice([np.float32, np.float64])
    else:
        dtype = rng.choice(DTYPES)
    nb = T[op].get("nb", 1)
    data = [gen_data(rng, h, w, dtype, rng.choice(["ints", "dyadic", "ramp", "float"])) for _ in range(nb)]
    if op in ("perlin", "generate_terrain"):
        data = [np.zeros((h, w), dtype=dtype)]
    res = rng.choice([None, (1.0, 1.0), (2.0, 0.5), (0.25, 3.0)])
    if exhaustive_chunks is not None:
        rch, cch = exhaustive_chunks(h, w)
    else:
        rch, cch = random_composition(rng, h), random_composition(rng, w)
    params = gen_params(rng, op, h, w)
    if op == "equal_interval" and rng.random() < 0.6:
        # cells sitting exactly on (and one ulp around) the interval edges, in single and double precision:
        # the two backends must lay out the *same* bins
        dtype = rng.choice([np.float32, np.float32, np.float64])
        lo, hi, k = float(rng.randrange(-3, 3)), float(rng.randrange(4, 12)), params["k"]
        vals = [lo, hi]
        for i in range(1, k):
            e32 = np.float32(lo) + np.float32(i) * ((np.float32(hi) - np.float32(lo)) * np.float32(1.0) / np.float32(k))
            e64 = lo + i * ((hi - lo) / k)
            for e in (e32, np.float32(e64), np.nextafter(np.float32(e32), np.float32(np.inf)),
                      np.nextafter(np.float32(e32), np.float32(-np.inf)), e64):
                vals.append(float(e))
        rng.shuffle(vals)
        n = h * w
        vals = (vals * (n // len(vals) + 1))[:n]
        if n >= 2:
            vals[0], vals[1] = lo, hi
        data = [np.array(vals, dtype=np.float64).reshape(h, w).astype(dtype)]
    return dict(op=op, dtype=np.dtype(dtype).name, res=res, rch=rch, cch=cch, sched=rng.choice(SCHEDULERS),
                params=params, data=data)


def known_domain_exclusion(c, st_n, st_d):
    """cases outside the property's domain: the NumPy call has no result the Dask result could equal.

    hotspots on a raster without deviation (one cell, constant): NumPy rejects it with ZeroDivisionError (the z-score is
    undefined).  The Dask path cannot know the deviation without computing, and the property itself requires the result to
    stay Dask-backed until computed, so it cannot reject at call time; /repo leaves the test out on purpose ("commented out
    to avoid early compute").  There is no NumPy result to compare with -> not judged (tagged in the evidence)."""
    return c["op"] == "hotspots" and st_n == "ZeroDivisionError" and st_d == "ok"


def check_case(r, T, c):
    st_n, out_n, _ = run_op(T, c, "numpy")
    st_d, out_d, lazy = run_op(T, c, "dask")
    key = case_json(c)
    r.case(dict(key, stream="dask-vs-numpy"), desc=None,
           nontrivial=(len(c["rch"]) * len(c["cch"]) > 1),
           tags=[f"op:{c['op']}", f"sched:{c['sched'][0]}{c['sched'][1] or ''}", f"dtype:{c['dtype']}",
                 f"status:{st_n}/{st_d}", f"blocks:{min(len(c['rch']) * len(c['cch']), 9)}"] +
                (kernel_tags(c["op"], c["params"]["kernel"]) if "kernel" in c["params"] else []))
    if st_n != "ok" and st_d != "ok":
        return  # rejected by both backends: no result to compare
    if known_domain_exclusion(c, st_n, st_d):
        r.tag("domain:hotspots-zero-deviation(numpy rejects, dask lazy)")
        return
    if st_n != "ok" or st_d != "ok":
        r.fail(f"{c['op']}:raises", f"{c['op']}: numpy -> {st_n} ({out_n if st_n != 'ok' else 'value'}), "
               f"dask -> {st_d} ({out_d if st_d != 'ok' else 'value'})", key)
        return
    if not lazy:
        r.fail(f"{c['op']}:eager", f"{c['op']}: result of the Dask-backed call is not Dask-backed", key)
        return
    bad = compare(c, out_n, out_d)
    if bad:
        r.fail(f"{c['op']}:differs", bad + f" chunks={c['rch']}x{c['cch']} sched={c['sched']}", key)


# ---------------------------------------------------------------- several results computed together (scheduler dimension)
JOINT_WORKERS = [2, 4, 8]
JOINT_REPEAT = 12      # how often a replay re-runs a recorded joint computation (a race may need a few attempts)


def gen_joint(rng, T, pool, stateful):
    """a *set* of public calls on Dask-backed rasters whose lazy results are computed by ONE `dask.compute(...)`:
    under a threaded scheduler their tasks share the worker threads and everything process-global.  `stateful`:
    all calls from the operations that touch global state (distinct seeds); otherwise any operations."""
    n = rng.randrange(3, 7)
    calls = []
    seeds = rng.sample(range(0, 200), n)
    # 16 permutation tables (128 MB, 0.6 s to build) per terrain graph: at most one per group, in about a third of the groups
    terrain_ok = rng.random() < 0.35
    for i in range(n):
        op = rng.choice(pool)
        if op == "generate_terrain" and (not terrain_ok or any(c["op"] == op for c in calls)):
            op = rng.choice([o for o in pool if o != op] or [op])
        c = gen_case(rng, T, op)
        if "seed" in c["params"]:
            c["params"]["seed"] = seeds[i]
        c["sched"] = ("synchronous", None)     # the scheduler of the group is recorded on the group
        calls.append(c)
    return dict(calls=calls, stateful=stateful)


def joint_json(calls, sched, rounds):
    return dict(stream="joint", calls=[case_json(c) for c in calls], sched=list(sched), rounds=rounds, repeat=JOINT_REPEAT,
                note="several lazy results computed together by one dask.compute(*results, scheduler=sched[0], "
                     "num_workers=sched[1]); each must equal the NumPy result of the same call.  A failure here can be a "
                     "race between tasks: a single run may pass, so the replay repeats the computation up to `repeat` times "
                     "and fails as soon as one repetition differs.")


def joint_once(T, calls, expected, sched):
    """build the lazy results afresh, compute them together, compare each with its NumPy result.
    -> list of (index, description)"""
    lazies = [call_op(T, c, "dask") for c in calls]
    kw = dict(scheduler=sched[0])
    if sched[1]:
        kw["num_workers"] = sched[1]
    got = dask.compute(*[z.data for z in lazies], **kw)
    bad = []
    for i, (c, e, g) in enumerate(zip(calls, expected, got)):
        d = compare(c, e, np.asarray(g))
        if d:
            bad.append((i, d))
    return bad


def check_joint(r, T, group, scheds, rounds):
    calls, expected = [], []
    for c in group["calls"]:
        st_n, out_n, _ = run_op(T, c, "numpy")
        if st_n != "ok":
            continue                           # rejected input: the single-call stream judges those
        try:
            lazy = call_op(T, c, "dask")
        except Exception:  # noqa: BLE001 -- likewise
            continue
        if not isinstance(lazy.data, da.Array):
            continue
        calls.append(c)
        expected.append(out_n)
    if len(calls) < 2:
        return
    for sched in scheds:
        r.case(dict(stream="joint", sched=list(sched), calls=[case_json(c) for c in calls]),
               nontrivial=True,
               tags=["stream:joint-compute", f"joint-sched:{sched[0]}{sched[1] or ''}", f"joint-size:{len(calls)}",
                     "joint:" + ("stateful-ops" if group["stateful"] else "mixed-ops")] +
                    sorted({f"joint-op:{c['op']}" for c in calls}))
        for rnd in range(rounds):
            try:
                bad = joint_once(T, calls, expected, sched)
            except (MemoryError, OSError) as ex:      # the machine, not the library
                raise Infra(f"joint compute: {type(ex).__name__}: {ex}")
            except Exception as ex:  # noqa: BLE001
                bad = [(0, f"joint compute raised {type(ex).__name__}: {str(ex)[:200]}")]
            if bad:
                i, d = bad[0]
                r.fail(f"{calls[i]['op']}:differs-joint",
                       f"{len(bad)} of {len(calls)} results computed together under scheduler={sched[0]} "
                       f"num_workers={sched[1]} differ from NumPy (round {rnd}); first: call #{i} {d}",
                       joint_json(calls, sched, rounds))
                return


def joint_stream(r, T, n_stateful, n_mixed, rounds):
    pool_s = stateful_ops(T)
    for nm in pool_s:
        r.tag(f"joint-stateful-pool:{nm}", 0)
    for k in range(n_stateful + n_mixed):
        stateful = k < n_stateful
        g = gen_joint(r.rng, T, pool_s if stateful else list(T), stateful)
        # every group under two or three worker counts; the synchronous scheduler as the control
        ws = JOINT_WORKERS if stateful else [r.rng.choice(JOINT_WORKERS)]
        scheds = [("threads", w) for w in ws]
        if r.rng.random() < 0.34:
            scheds.append(("synchronous", None))
        check_joint(r, T, g, scheds, rounds)


# ---------------------------------------------------------------- several results in ONE graph (graph-key dimension)
# operations whose Dask paths share a backend function (multispectral: one `_run_normalized_ratio_dask` behind four public
# functions) or a call shape (same rasters, same parameter names): a second call may swap the function for a sibling
SIBLINGS = [["ndvi", "ndmi", "nbr", "nbr2"], ["gci", "savi"], ["arvi", "sipi", "evi", "ebbi"],
            ["slope", "aspect", "curvature"], ["apply", "hotspots", "convolution_2d", "focal_stats"],
            ["perlin"], ["binary"], ["reclassify"], ["equal_interval"], ["mean"], ["hillshade"], ["generate_terrain"],
            ["true_color"]]


def same_value(a, b):
    if isinstance(a, np.ndarray) or isinstance(b, np.ndarray):
        a, b = np.asarray(a), np.asarray(b)
        return a.shape == b.shape and a.dtype == b.dtype and np.array_equal(a, b, equal_nan=True)
    return a == b or (a != a and b != b) or repr(a) == repr(b)


def variant(rng, T, base, dim):
    """a call that differs from `base` in exactly the place `dim` names (None when no different value was drawn)"""
    c = dict(base, data=list(base["data"]), params=dict(base["params"]))
    h, w = base["data"][0].shape
    if dim == "identical":
        return c
    if dim.startswith("band:"):
        i = int(dim[5:])
        if base["op"] in ("perlin", "generate_terrain"):
            return None                         # the raster only gives the shape
        for _ in range(8):
            a = gen_data(rng, h, w, np.dtype(base["dtype"]).type, rng.choice(["ints", "dyadic", "float"]))
            if not same_value(a, base["data"][i]):
                c["data"][i] = a
                return c
        return None
    if dim.startswith("param:"):
        k = dim[6:]
        for _ in range(12):
            v = gen_params(rng, base["op"], h, w).get(k)
            if not same_value(v, base["params"][k]):
                c["params"][k] = v
                return c
        return None
    if dim == "chunks":
        for _ in range(8):
            rch, cch = random_composition(rng, h), random_composition(rng, w)
            if (rch, cch) != (tuple(base["rch"]), tuple(base["cch"])):
                c["rch"], c["cch"] = rch, cch
                return c
        return None
    raise ValueError(dim)


def sibling_call(rng, T, c):
    """the same rasters and (as far as the names go) the same parameters handed to a sibling function"""
    sibs = [o for g in SIBLINGS if c["op"] in g for o in g if o != c["op"] and o in T]
    if not sibs:
        return c
    op = rng.choice(sibs)
    h, w = c["data"][0].shape
    fresh = gen_params(rng, op, h, w)
    params = {k: (c["params"][k] if k in c["params"] else v) for k, v in fresh.items()}
    nb = T[op].get("nb", 1)
    if nb > len(c["data"]):
        return c
    return dict(c, op=op, params=params, data=list(c["data"][:nb]))


def gen_jointgraph(rng, T, op, modes, max_variants=4):
    """calls of `op` (some swapped for a sibling function) on Dask-backed rasters: the first as generated, every other one
    differing from it in exactly one place.  The places are enumerated, not sampled: every band / the raster, then (as far as
    `max_variants` allows) parameters drawn without repetition, the chunking, and one call identical to the first"""
    base = gen_case(rng, T, op)
    base["sched"] = ("synchronous", None)
    bands = [f"band:{i}" for i in range(len(base["data"]))]
    rest = [f"param:{k}" for k in base["params"]] + ["chunks", "identical"]
    rng.shuffle(rest)
    if op == "generate_terrain":               # 16 permutation tables (128 MB) per lazy result
        max_variants = 2
    dims = (bands + rest)[:max_variants]
    calls, used = [base], []
    for d in dims:
        v = variant(rng, T, base, d)
        if v is None:
            continue
        if rng.random() < 0.35:
            v2 = sibling_call(rng, T, v)
            if v2 is not v:
                d, v = d + "+sibling", v2
        calls.append(v)
        used.append(d)
    return dict(calls=calls, dims=used, modes=modes, sched=rng.choice([("synchronous", None), ("threads", 4)]))


def jointgraph_json(calls, dims, mode, eff, sched):
    return dict(stream="joint-graph", calls=[case_json(c) for c in calls], dims=dims, mode=mode, effective_mode=eff,
                sched=list(sched),
                note="the lazy results of these public calls on Dask-backed rasters are evaluated in ONE graph -- mode "
                     "`compute`: dask.compute(a.data, b.data, ...); `dataset`: xr.Dataset({v0: a, v1: b, ...}).compute(); `minus`: "
                     "(a - b).data.compute() -- and each must equal the NumPy result of the same call (for `minus`: the "
                     "difference of the two NumPy results).  Each result computed on its own may well be right: tasks of "
                     "different calls that carry the same graph key replace each other only once the graphs are merged.")


def jointgraph_eval(T, calls, expected, mode, sched):
    """-> (effective mode, list of (index of the call, description))"""
    import jointgraph
    lazies = [call_op(T, c, "dask") for c in calls]
    eff = jointgraph.effective_mode(lazies, mode)
    kind, got = jointgraph.evaluate(lazies, eff, sched)
    bad = []
    if kind == "each":
        for i, (c, e, g) in enumerate(zip(calls, expected, got)):
            d = compare(c, e, g)
            if d:
                bad.append((i, d))
    else:
        for i, g in enumerate(got, start=1):
            d = jointgraph.minus_bad(expected[0], expected[i], g)
            if d:
                bad.append((i, f"call #0 minus call #{i}: " + d))
    return eff, bad


def usable_calls(T, calls):
    out, expected = [], []
    for c in calls:
        st_n, out_n, _ = run_op(T, c, "numpy")
        if st_n != "ok":
            continue                           # rejected input: the single-call stream judges those
        try:
            lazy = call_op(T, c, "dask")
        except Exception:  # noqa: BLE001 -- likewise
            continue
        if not isinstance(lazy.data, da.Array):
            continue
        out.append(c)
        expected.append(out_n)
    return out, expected


def check_jointgraph(r, T, g):
    import jointgraph
    calls, expected, dims = [], [], []
    for i, c in enumerate(g["calls"]):
        cs, es = usable_calls(T, [c])
        if not cs:
            if i == 0:
                r.tag("joint-graph:skipped(the first call is rejected)")
                return
            continue                            # a variant that one backend rejects: the single-call stream judges it
        calls.append(c)
        expected.append(es[0])
        if i > 0:
            dims.append(g["dims"][i - 1] if i - 1 < len(g["dims"]) else "?")
    if len(calls) < 2:
        r.tag("joint-graph:skipped(fewer than two usable calls)")
        return
    for mode in g["modes"]:
        try:
            eff, bad = jointgraph_eval(T, calls, expected, mode, g["sched"])
        except (MemoryError, OSError) as ex:
            raise Infra(f"joint graph: {type(ex).__name__}: {ex}")
        except Exception as ex:  # noqa: BLE001
            eff, bad = mode, [(0, f"joint evaluation raised {type(ex).__name__}: {str(ex)[:200]}")]
        key = jointgraph_json(calls, dims, mode, eff, g["sched"])
        r.case(key, nontrivial=jointgraph.distinct(expected),
               tags=["stream:joint-graph", f"jg-mode:{eff}", f"jg-size:{min(len(calls), 6)}", f"jg-op:{calls[0]['op']}"] +
                    sorted({f"jg-differs-in:{d.split(':')[0].split('+')[0]}" for d in dims}) +
                    (["jg-sibling-function"] if any("+sibling" in d for d in dims) else []) +
                    (["jg-results-distinct"] if jointgraph.distinct(expected) else ["jg-results-equal"]))
        if bad:
            i, d = bad[0]
            r.fail(f"{calls[min(i, len(calls) - 1)]['op']}:differs-joint-graph",
                   f"{len(bad)} result(s) of {len(calls)} calls ({', '.join(c['op'] for c in calls)}; each differing from the "
                   f"first in {dims}) evaluated in one graph [{eff}] differ from NumPy; first: call #{i} {d}", key)
            return


def jointgraph_stream(r, T, per_op, n_modes):
    import jointgraph
    k = r.rng.randrange(3)
    for op in T:
        for _ in range(per_op):
            modes = [jointgraph.MODES[(k + i) % 3] for i in range(n_modes)]
            k += 1
            check_jointgraph(r, T, gen_jointgraph(r.rng, T, op, modes))


def replay_jointgraph(r, T, j):
    calls = [case_from_json(c) for c in j["calls"]]
    check_jointgraph(r, T, dict(calls=calls, dims=j.get("dims", []), modes=[j["mode"]], sched=tuple(j["sched"])))


def run(r, scale=1):
    T = ops_table()
    drv = Driver()
    quick = r.tier == "quick"
    _TIER["quick"] = quick
    r.rule = ("streams: halo-delivery (dask blocks vs model haloBlock), model-overlap (model mapOverlap of generated "
              "kernels vs real dask), dask-vs-numpy for 26 operations on rasters 1..7 x 1..7, dtypes int8..float64, "
              "NaN/inf cells, res attrs, random chunk compositions (thorough: all compositions for small shapes), "
              "schedulers synchronous/threads x {1,2,4,16}; joint-compute: groups of 3-6 calls (all from the operations whose "
              "generated effect summary writes global state, distinct seeds; or mixed over all operations) whose lazy results are "
              "computed by one dask.compute under threads x {2,4,8} (synchronous as control), 2-3 rounds, each compared with its "
              "NumPy result; joint-graph: per operation a group of calls on Dask-backed rasters -- the first as generated, each other "
              "one differing from it in exactly one place, enumerated: every band / the raster, then parameters, the chunking, "
              "nothing (up to 4 variants; the function swapped for a sibling with the same call shape 35%) -- whose lazy results are "
              "evaluated in ONE graph in two (thorough three) of the ways dask.compute(all) / xr.Dataset / a - b, each judged against "
              "its own NumPy call; kernels of apply / focal_stats / hotspots / convolution_2d by entry class (0/1, weights in (0,1), "
              "integers > 1, negative, NaN, mixed) and dtype (float64, int64, bool; thorough also float32, int32); "
              "non-trivial = more than one block / a joint group / distinct expected results")
    for body in r.corpus():
        if body["case"].get("stream") == "joint":
            replay_joint(r, T, body["case"], repeat=2)
        elif body["case"].get("stream") == "joint-graph":
            replay_jointgraph(r, T, body["case"])
        else:
            check_case(r, T, case_from_json(body["case"]))
    halo_delivery(r, drv, (40 if quick else 300) * scale)
    model_overlap(r, drv, (30 if quick else 200) * scale)
    per_op = (10 if quick else 60) * scale
    for op in T:
        for _ in range(per_op):
            check_case(r, T, gen_case(r.rng, T, op))
    import time
    t0 = time.time()
    joint_stream(r, T, n_stateful=(4 if quick else 20) * scale, n_mixed=(4 if quick else 40) * scale, rounds=2 if quick else 3)
    r.extra["joint_stream_seconds"] = round(time.time() - t0, 1)
    t0 = time.time()
    jointgraph_stream(r, T, per_op=(1 if quick else 8) * scale, n_modes=2 if quick else 3)
    r.extra["jointgraph_stream_seconds"] = round(time.time() - t0, 1)
    if not quick:
        # every chunk composition of every shape up to 4x4 for the stencil / kernel operations
        r.exhaustive = True
        for op in ("slope", "aspect", "curvature", "hillshade", "mean", "apply", "convolution_2d", "hotspots"):
            for h in range(1, 5):
                for w in range(1, 5):
                    base = gen_case(r.rng, T, op)
                    a = gen_data(r.rng, h, w, np.float32, "dyadic")
                    base["data"], base["dtype"] = [a], "float32"
                    base["params"] = gen_params(r.rng, op, h, w)
                    for rch in compositions(h):
                        for cch in compositions(w):
                            c = dict(base, rch=rch, cch=cch, sched=("synchronous", None))
                            check_case(r, T, c)


def search(r):
    run(r, scale=4)


def replay_joint(r, T, j, repeat=None):
    """re-run a recorded joint computation: same calls, scheduler and worker count, up to `repeat` times"""
    calls = [case_from_json(c) for c in j["calls"]]
    sched = tuple(j["sched"])
    expected = []
    for c in calls:
        st, out, _ = run_op(T, c, "numpy")
        if st != "ok":
            r.fail(f"{c['op']}:raises", f"{c['op']}: numpy -> {st} ({out}) in a recorded joint computation", j)
            return
        expected.append(out)
    r.case(dict(j, stream="joint-replay"), nontrivial=True, tags=["stream:joint-replay"])
    for k in range(repeat or j.get("repeat", JOINT_REPEAT)):
        try:
            bad = joint_once(T, calls, expected, sched)
        except Exception as ex:  # noqa: BLE001
            bad = [(0, f"joint compute raised {type(ex).__name__}: {str(ex)[:200]}")]
        if bad:
            i, d = bad[0]
            r.fail(f"{calls[i]['op']}:differs-joint",
                   f"repetition {k}: {len(bad)} of {len(calls)} results computed together under scheduler={sched[0]} "
                   f"num_workers={sched[1]} differ from NumPy; first: call #{i} {d}", j)
            return


def replay(r, body):
    T = ops_table()
    before = len(r.failures)
    if body["case"].get("stream") == "joint":
        replay_joint(r, T, body["case"])
        if len(r.failures) > before:
            print("still fails:", r.failures[-1]["what"])
            return 1
        print(f"did not fail in {body['case'].get('repeat', JOINT_REPEAT)} repetitions on the current tree")
        return 0
    if body["case"].get("stream") == "joint-graph":
        replay_jointgraph(r, T, body["case"])
    else:
        check_case(r, T, case_from_json(body["case"]))
    if len(r.failures) > before:
        print("still fails:", r.failures[-1]["what"])
        return 1
    print("does not fail on the current tree")
    return 0
