"""
C19 -- distance metrics are metrics; circle / annulus kernels are the stated shapes; distance strings.

Tie:  G  the three distance functions (Gen/Kernels.lean) and the facts of convolution.py
         (Gen/MetricFacts.lean: regex, unit table, rejection test, ellipse predicate, linspace arguments,
         half-width expressions, pad widths, combination operator) are regenerated from /repo on every
         run; the theorems of Props/C19.lean are about those definitions.
      H  the hand models (Model/DistanceStr.lean scanner, Model/CircleKernels.lean array plumbing) and
         the translator are validated here: the real functions and the compiled Lean driver are run on
         the same generated inputs and compared.
Oracles (written from the property statement, independent of the model): metric laws with a float
tolerance, the range rejection, <= half the circumference; the ellipse equation evaluated with exact
fractions, flip symmetry, odd shape, annulus = outer - centred inner >= 0; documented unit spellings and
their standard factors, rejection of non-positive / malformed strings.
"""
import json
import math
import os
import re
from fractions import Fraction

import numpy as np
import xarray as xr

from common import close, tok, untok, parse_grid

PROP = "C19"

EARTH = 6378137.0

# ------------------------------------------------------------------------------------------------
# helpers
# ------------------------------------------------------------------------------------------------


def cps(s):
    return ",".join(str(ord(c)) for c in s)


def exc_name(ex):
    return type(ex).__name__


def conv():
    import importlib
    return importlib.import_module("xrspatial.convolution")


def prox():
    import importlib
    return importlib.import_module("xrspatial.proximity")


def plain_decimal(s):
    """str(number) without exponent notation (the domain in which a numeric radius is a distance string)"""
    return re.fullmatch(r"-?\d+(\.\d+)?", s) is not None


# ------------------------------------------------------------------------------------------------
# 1. the three distance functions
# ------------------------------------------------------------------------------------------------
METRICS = ["euclidean_distance", "manhattan_distance", "great_circle_distance"]
GC_MSG = {
    "x1": "Invalid x-coordinate of the first point",
    "x2": "Invalid x-coordinate of the second point",
    "y1": "Invalid y-coordinate of the first point",
    "y2": "Invalid y-coordinate of the second point",
}


def call_metric(name, p, q, radius=None):
    f = getattr(prox(), name)
    try:
        if name == "great_circle_distance" and radius is not None:
            return "ok", float(f(p[0], q[0], p[1], q[1], radius))
        return "ok", float(f(p[0], q[0], p[1], q[1]))
    except ValueError as ex:
        return "ValueError", str(ex)


def first_bad(p, q):
    """which range test must fire first (the order of the documentation: x1, x2, y1, y2)"""
    for nm, v, lim in (("x1", p[0], 180), ("x2", q[0], 180), ("y1", p[1], 90), ("y2", q[1], 90)):
        if v > lim or v < -lim:
            return nm
    return None


def dyadic(rng, lo, hi, bits=6):
    step = 2 ** bits
    return rng.randrange(int(lo * step), int(hi * step) + 1) / step


def gen_sphere_point(rng):
    k = rng.random()
    if k < 0.10:
        return (dyadic(rng, -180, 180), rng.choice([90.0, -90.0]))            # poles
    if k < 0.22:
        return (rng.choice([180.0, -180.0]), dyadic(rng, -90, 90))            # antimeridian
    if k < 0.30:
        return (rng.choice([0.0, 90.0, -90.0, 180.0, -180.0]), rng.choice([0.0, 45.0, -45.0, 90.0, -90.0]))
    if k < 0.40:
        return (dyadic(rng, -180, 180, 20), dyadic(rng, -90, 90, 20))          # fine grid
    return (dyadic(rng, -180, 180), dyadic(rng, -90, 90))


def antipode(p):
    lon = p[0] + 180.0 if p[0] <= 0 else p[0] - 180.0
    return (lon, -p[1])


TINY_LATS = [0.0, 45.0, -33.3, 60.0, 12.345678, 85.0, 89.9, 89.999999, -89.99, 90.0, -90.0, 1e-7]
TINY_LONS = [0.0, 12.5, -77.0365, 179.9999999, 180.0, -180.0, -179.99999999, 90.0, 1e-9]


def wrap_point(lon, lat):
    lat = max(-90.0, min(90.0, lat))
    if lon > 180.0:
        lon -= 360.0
    elif lon < -180.0:
        lon += 360.0
    return (max(-180.0, min(180.0, lon)), lat)


def gen_tiny_triple(rng):
    """points a hand's breadth to a street apart (1e-3 .. 1e-9 degrees, and neighbours one ulp apart), at several base
    latitudes incl. next to the poles and across the antimeridian; the third point mostly (nearly) in line with the two"""
    lat = rng.choice(TINY_LATS) if rng.random() < 0.7 else dyadic(rng, -90, 90, 20)
    lon = rng.choice(TINY_LONS) if rng.random() < 0.6 else dyadic(rng, -180, 180, 20)
    p = (lon, lat)
    k = rng.random()
    if k < 0.12:             # one-ulp neighbours
        q = wrap_point(math.nextafter(lon, rng.choice([-math.inf, math.inf])) if rng.random() < 0.5 else lon,
                       math.nextafter(lat, rng.choice([-math.inf, math.inf])) if rng.random() < 0.7 else lat)
        v = (q[0] - p[0], q[1] - p[1])
    else:
        s_ = 10.0 ** -rng.uniform(3, 9)
        th = rng.choice([0.0, math.pi / 2, math.pi, -math.pi / 2]) if rng.random() < 0.45 else rng.uniform(0, 2 * math.pi)
        v = (s_ * math.cos(th) if abs(math.cos(th)) > 1e-12 else 0.0, s_ * math.sin(th) if abs(math.sin(th)) > 1e-12 else 0.0)
        q = wrap_point(lon + v[0], lat + v[1])
    k = rng.random()
    if k < 0.55:             # collinear / nearly collinear
        t = rng.choice([2.0, 0.5, 3.0, -1.0, 1.5, 10.0])
        eps = 0.0 if rng.random() < 0.5 else rng.choice([1e-3, -1e-3, 1e-6])
        r_ = wrap_point(lon + t * v[0] - eps * v[1], lat + t * v[1] + eps * v[0])
    elif k < 0.8:            # a third point equally close, any direction
        s2 = 10.0 ** -rng.uniform(3, 9)
        th = rng.uniform(0, 2 * math.pi)
        r_ = wrap_point(lon + s2 * math.cos(th), lat + s2 * math.sin(th))
    else:
        r_ = rng.choice([p, q])
    pts = [p, q, r_]
    rng.shuffle(pts)
    return pts


def gen_dist_case(rng, kind):
    metric = rng.choice(METRICS)
    if kind == "wild":
        vals = [float("nan"), float("inf"), float("-inf"), 1e308, -1e308, 1e-320, 5e-324, 0.0, -0.0, 1e17 + 1,
                123456.789, -0.1, 180.00000000000003, -180.00000000000003, 90.00000000000001, 1e-9]
        pts = [(rng.choice(vals), rng.choice(vals)) if rng.random() < 0.6 else gen_sphere_point(rng) for _ in range(3)]
        return dict(kind="dist", sub="wild", metric=metric, pts=[[tok(v) for v in p] for p in pts], radius=tok(EARTH))
    if metric == "great_circle_distance" and kind == "valid" and rng.random() < 0.3:
        radius = rng.choice([EARTH, EARTH, EARTH, 1.0, 1737400.0])
        return dict(kind="dist", sub="tiny", metric=metric, pts=[[tok(v) for v in p] for p in gen_tiny_triple(rng)], radius=tok(radius))
    if metric == "great_circle_distance":
        p = gen_sphere_point(rng)
        k = rng.random()
        if k < 0.2:
            q = antipode(p)
            if rng.random() < 0.6:   # near-antipodal
                q = (max(-180.0, min(180.0, q[0] + rng.choice([-1, 1]) * 2.0 ** -rng.randrange(4, 30))), q[1])
        elif k < 0.3:
            q = p
        elif k < 0.4 and abs(p[0]) == 180.0:
            q = (-p[0], p[1])       # the other name of the same antimeridian point
        elif k < 0.5:
            q = (dyadic(rng, -180, 180), p[1]) if abs(p[1]) == 90 else (p[0], dyadic(rng, -90, 90))
        else:
            q = gen_sphere_point(rng)
        r_ = rng.choice([p, q, antipode(q), gen_sphere_point(rng), gen_sphere_point(rng)])
        pts = [p, q, r_]
        if kind == "invalid":
            i, j = rng.randrange(3), rng.randrange(2)
            lim = 180.0 if j == 0 else 90.0
            bad = rng.choice([lim + 2.0 ** -rng.randrange(0, 40), -lim - 2.0 ** -rng.randrange(0, 40),
                              math.nextafter(lim, math.inf), math.nextafter(-lim, -math.inf), lim * 2, -1e6, 1e300])
            pt = list(pts[i])
            pt[j] = bad
            pts[i] = tuple(pt)
        radius = rng.choice([EARTH, EARTH, 1.0, 0.5, 1737400.0, 0.0])
        return dict(kind="dist", sub=kind, metric=metric, pts=[[tok(v) for v in p] for p in pts], radius=tok(radius))
    # planar
    scale = rng.choice([1, 1, 8, 1024, 2 ** 20])

    def pt():
        return (dyadic(rng, -16, 16, 4) * scale, dyadic(rng, -16, 16, 4) * scale)
    p = pt()
    q = p if rng.random() < 0.15 else pt()
    if rng.random() < 0.15:
        q = (p[0], pt()[1])
    r_ = rng.choice([p, q, pt(), pt(), ((p[0] + q[0]) / 2, (p[1] + q[1]) / 2)])
    return dict(kind="dist", sub=kind if kind != "invalid" else "valid", metric=metric,
                pts=[[tok(v) for v in p] for p in (p, q, r_)], radius=tok(EARTH))


def same_sphere_point(p, q):
    if p[1] != q[1]:
        return False
    return p[0] == q[0] or abs(p[1]) == 90 or abs(p[0] - q[0]) == 360


def gc_reference(p, q, R):
    """the haversine distance evaluated from the EXACT coordinate differences (the subtraction of two close floats is
    exact; converting each coordinate to radians first and subtracting then is not): accurate to a few ulps also for
    points a millimetre apart.  Longitude differences are taken the short way round."""
    dlat = Fraction(q[1]) - Fraction(p[1])
    dlon = Fraction(q[0]) - Fraction(p[0])
    if dlon > 180:
        dlon -= 360
    elif dlon < -180:
        dlon += 360
    dla, dlo = math.radians(float(dlat)), math.radians(float(dlon))
    a = math.sin(dla / 2) ** 2 + math.cos(math.radians(p[1])) * math.cos(math.radians(q[1])) * math.sin(dlo / 2) ** 2
    return 2 * R * math.asin(min(1.0, math.sqrt(a)))


def oracle_dist(c):
    """the metric laws on the real functions; returns None or a description of the failure"""
    name = c["metric"]
    pts = [tuple(untok(t) for t in p) for p in c["pts"]]
    R = untok(c["radius"])
    p, q, r_ = pts
    finite = all(math.isfinite(v) for pt in pts for v in pt)
    if not finite:
        return None           # the property speaks about points of the plane / sphere
    is_gc = name == "great_circle_distance"

    def d(a, b):
        return call_metric(name, a, b, R if is_gc else None)
    pairs = {"pq": (p, q), "qp": (q, p), "pp": (p, p), "qq": (q, q), "pr": (p, r_), "qr": (q, r_), "rp": (r_, p)}
    res = {}
    for k, (a, b) in pairs.items():
        st, v = d(a, b)
        if is_gc:
            fb = first_bad(a, b)
            if fb is not None:
                if st != "ValueError":
                    return f"{name}{a}->{b}: coordinate {fb} outside the range but no ValueError (returned {v})"
                continue
            if st != "ok":
                return f"{name}{a}->{b}: in-range coordinates rejected: {v}"
        elif st != "ok":
            return f"{name}{a}->{b}: raised {st}: {v}"
        res[k] = v
    if is_gc:
        circ = 2 * math.pi * abs(R)
        tol = 1e-8 * circ
        big = max(abs(v) for pt in pts for v in pt)
    else:
        big = max([abs(v) for pt in pts for v in pt] + [1.0])
        if big > 1e150:
            return None       # squares overflow: outside the exactly computable plane
        tol = 1e-12 * big
    for k, v in res.items():
        if v != v:
            return f"{name} {k}: NaN for finite in-range points {pairs[k]}"
        if v < 0:
            return f"{name} {k}: negative distance {v}"
    for k in ("pp", "qq"):
        if k in res and res[k] != 0.0:
            return f"{name}: distance of {pairs[k][0]} to itself is {res[k]}"
    if "pq" in res and "qp" in res and abs(res["pq"] - res["qp"]) > tol * 1e-3:
        return f"{name}: not symmetric: d(p,q)={res['pq']} d(q,p)={res['qp']} p={p} q={q}"
    if "pq" in res:
        if is_gc:
            if R > 0:
                if same_sphere_point(p, q) and res["pq"] > tol:
                    return f"{name}: same point of the sphere {p} {q} at distance {res['pq']}"
                # clearly distinct points (more than 1e-6 degrees apart in latitude, or in longitude away from the poles)
                sep = abs(p[1] - q[1]) > 1e-6 or (min(abs(p[0] - q[0]), 360 - abs(p[0] - q[0])) > 1e-6
                                                 and abs(p[1]) < 89 and abs(q[1]) < 89)
                if sep and res["pq"] <= 0.0:
                    return f"{name}: distinct points {p} {q} at distance 0"
            if R >= 0 and res["pq"] > math.pi * R * (1 + 1e-12):
                return f"{name}: d={res['pq']} exceeds half the circumference {math.pi * R}"
        else:
            diffs = [abs(Fraction(p[0]) - Fraction(q[0])), abs(Fraction(p[1]) - Fraction(q[1]))]
            underflow = all(d == 0 or d < Fraction(1, 10 ** 150) for d in diffs)   # squares vanish in floats
            if (p == q) != (res["pq"] == 0.0) and not (p != q and underflow):
                return f"{name}: d(p,q)={res['pq']} for p={p} q={q} (zero iff coincident)"
    if is_gc and R > 0 and math.isfinite(R):
        # close points: the tolerance follows the separation (1e-8 of the circumference is 40 cm on the earth).  What float
        # evaluation of the documented formula costs: the radian conversion of each coordinate is off by an ulp, i.e. the
        # distance by some 1e-15 R; 1e-12 R (6 micrometres on the earth) is three orders above that.
        near_pole = any(abs(pt[1]) > 89.9 for pt in pts)
        tight = {}
        for k in ("pq", "pr", "qr"):
            if k in res:
                ref = gc_reference(*pairs[k], R)
                if ref < 1e-3 * R:
                    tight[k] = ref
                    t_abs, t_rel = 1e-12 * R, (1e-5 if near_pole else 1e-8)
                    if abs(res[k] - ref) > t_abs + t_rel * ref:
                        return (f"{name}: d={res[k]!r} for {pairs[k][0]} -> {pairs[k][1]}, {ref / R:.3e} R apart: the haversine formula "
                                f"on the exact coordinate differences gives {ref!r} (off by {abs(res[k] - ref):.3e}, allowed "
                                f"{t_abs + t_rel * ref:.3e})")
                    if ref > 1e-11 * R and res[k] == 0.0 and not same_sphere_point(*pairs[k]):
                        return f"{name}: distinct points {pairs[k][0]} {pairs[k][1]} ({ref!r} apart) at distance 0"
        if "pq" in tight and "qp" in res and abs(res["pq"] - res["qp"]) > 1e-12 * R:
            return f"{name}: not symmetric for close points: d(p,q)={res['pq']!r} d(q,p)={res['qp']!r} p={p} q={q}"
        if len(tight) == 3 and res["pr"] > res["pq"] + res["qr"] + 1e-12 * R + 1e-9 * (res["pq"] + res["qr"]):
            return (f"{name}: triangle inequality fails for close points: d(p,r)={res['pr']!r} > d(p,q)+d(q,r)="
                    f"{res['pq'] + res['qr']!r} p={p} q={q} r={r_}")
    if all(k in res for k in ("pr", "pq", "qr")):
        if res["pr"] > res["pq"] + res["qr"] + tol:
            return (f"{name}: triangle inequality fails: d(p,r)={res['pr']} > d(p,q)+d(q,r)="
                    f"{res['pq'] + res['qr']} p={p} q={q} r={r_}")
    if is_gc and "pq" in res and math.isfinite(R):
        # the great-circle distance itself: R times the angle between the two unit vectors,
        # computed another way (atan2 of |u x v| and u . v)
        def unit(pt):
            lo, la = math.radians(pt[0]), math.radians(pt[1])
            return (math.cos(la) * math.cos(lo), math.cos(la) * math.sin(lo), math.sin(la))
        u, v = unit(p), unit(q)
        cr = (u[1] * v[2] - u[2] * v[1], u[2] * v[0] - u[0] * v[2], u[0] * v[1] - u[1] * v[0])
        ang = math.atan2(math.sqrt(sum(t * t for t in cr)), sum(a * b for a, b in zip(u, v)))
        if not close(res["pq"], R * ang, rel=1e-9, abs_=tol):
            return f"{name}: d(p,q)={res['pq']} but R * angle(p, q) = {R * ang} for p={p} q={q} R={R}"
    if not is_gc and "pq" in res:
        dx, dy = Fraction(p[0]) - Fraction(q[0]), Fraction(p[1]) - Fraction(q[1])
        exp = float(abs(dx) + abs(dy)) if name == "manhattan_distance" else math.sqrt(float(dx * dx + dy * dy))
        if not close(res["pq"], exp, rel=1e-12, abs_=1e-300):
            return f"{name}: d(p,q)={res['pq']} but the formula gives {exp} for p={p} q={q}"
    return None


def dist_requests(c):
    pts = c["pts"]
    out = []
    for a, b in ((0, 1), (1, 0), (0, 2)):
        line = (f"kcell name={c['metric']} s:x1={pts[a][0]} s:x2={pts[b][0]} s:y1={pts[a][1]} s:y2={pts[b][1]}")
        if c["metric"] == "great_circle_distance":
            line += f" s:radius={c['radius']}"
        out.append(((a, b), line))
    return out


def compare_dist(r, c, pair, reply):
    pts = [tuple(untok(t) for t in p) for p in c["pts"]]
    a, b = pts[pair[0]], pts[pair[1]]
    R = untok(c["radius"])
    st, v = call_metric(c["metric"], a, b, R if c["metric"] == "great_circle_distance" else None)
    if reply.startswith("fail:"):
        msg = reply[5:].replace("_", " ")
        if st != "ValueError" or not any(m in msg and m in v for m in GC_MSG.values()):
            r.disagree("distance-kernel-vs-real", c, f"{pair}: {st} {v}", reply)
        return
    if st != "ok":
        r.disagree("distance-kernel-vs-real", c, f"{pair}: {st} {v}", reply)
        return
    try:
        m = untok(reply)
    except Exception:
        r.disagree("distance-kernel-vs-real", c, f"{pair}: {v}", reply)
        return
    tol_abs = 1e-8 * 2 * math.pi * abs(R) if (c["metric"] == "great_circle_distance" and math.isfinite(R)) else 1e-300
    if not close(v, m, rel=1e-9, abs_=tol_abs):
        r.disagree("distance-kernel-vs-real", c, f"{pair}: real={v!r}", f"model={m!r}")


# ------------------------------------------------------------------------------------------------
# 2. distance strings
# ------------------------------------------------------------------------------------------------
# spellings the library documents (text of its ValueError) with the standard factors to metres
DOC_UNITS = {"meter": Fraction(1), "meters": Fraction(1), "m": Fraction(1),
             "kilometer": Fraction(1000), "kilometers": Fraction(1000), "km": Fraction(1000),
             "foot": Fraction(3048, 10000), "feet": Fraction(3048, 10000), "ft": Fraction(3048, 10000),
             "mile": Fraction(1609344, 1000), "miles": Fraction(1609344, 1000), "ml": Fraction(1609344, 1000),
             "mls": Fraction(1609344, 1000)}
STAGE = {"invalid": "Invalid distance", "numeric": "positive numeric value", "positive": "should be a positive.",
         "unit": "Distance unit should be"}

NUMS = ["10", "5", "3", "2.5", ".5", "0.25", "0", "0.0", "-3", "-.5", "00012", "1.50", "7", "100", "0.001", "12.",
        "1e3", "1.2.3", "1..5", "+3", "--3", "3-4", "١٠", "1_0", "0x10", "1,5", "", "5e-05", "1e+16", "-0"]
UNIT_WORDS = list(DOC_UNITS) + ["KM", "Km", "M", "Miles", "FT", "k m", "mi les", "parsec", "mile s", "mm", "cm", "yd",
                                "metres", "kms", "Meter", "mi", ".", "-", "e", "\tkm", "km\n", "k-m", "km.", "µm", "ＫＭ"]
SPECIALS = ["inf", "nan", "Infinity", "-inf", "+inf", " nan ", "NaN", "iNf", "in f", "infinit", "nan1", "-nan", "\tinf\n",
            "abc", " ", "km", "ten", "-", ".", "-.", "True", "None"]


def gen_string(rng):
    k = rng.random()
    if k < 0.45:
        num = rng.choice(NUMS[:17]) if rng.random() < 0.7 else repr(rng.randrange(1, 4000) / rng.choice([1, 2, 4, 8, 10, 100]))
        sep = rng.choice(["", "", " ", "  ", " ", "\t"]) if rng.random() < 0.9 else rng.choice(["-", "_", "."])
        unit = rng.choice(list(DOC_UNITS)) if rng.random() < 0.7 else rng.choice(UNIT_WORDS)
        if rng.random() < 0.25:
            unit = "".join(ch.upper() if rng.random() < 0.5 else ch for ch in unit)
        if rng.random() < 0.15:
            unit = ""
        tail = rng.choice(["", "", "", " ", "5", " 2"]) if rng.random() < 0.15 else ""
        return num + sep + unit + tail
    if k < 0.60:
        return rng.choice(NUMS) + rng.choice(["", "", " ", "km", " m", "e3", "."])
    if k < 0.72:
        return rng.choice(SPECIALS) + rng.choice(["", "", "", " km", "m", "5"])
    if k < 0.80:
        return rng.choice([" ", "", "km "]) + rng.choice(NUMS) + rng.choice(UNIT_WORDS)
    alphabet = "0123456789..--+ ekmftilsr\t_"
    return "".join(rng.choice(alphabet) for _ in range(rng.randrange(0, 9)))


def real_get_distance(s):
    try:
        return "ok", conv()._get_distance(s)
    except ValueError as ex:
        return "ValueError", str(ex)
    except Exception as ex:  # anything else is itself reportable
        return exc_name(ex), str(ex)


def classify_string(s):
    """independent reading of a distance string: ('valid', metres) | ('invalid', why) | ('unknown', None).
    valid   = decimal literal > 0, optional blanks, optional documented unit (any case, blanks inside allowed)
    invalid = literal <= 0 with a fine unit; no digit at all; unit word not documented; junk around
    unknown = anything the property statement does not settle (other numeric notations, non-ASCII)"""
    if not s.isascii():
        return "unknown", None
    m = re.fullmatch(r"(-?)(\d+\.\d+|\d+|\.\d+)([^0-9.]*)", s)
    if m:
        sign, lit, unit = m.groups()
        u = unit.replace(" ", "").lower()
        if unit and (not re.fullmatch(r"[ A-Za-z]*", unit) or "-" in unit):
            return ("invalid", "unit with junk") if re.fullmatch(r"[ A-Za-z\t\n_,;:!?*/()-]*", unit) else ("unknown", None)
        val = Fraction(lit)
        if u == "" and unit != "":
            return "invalid", "blank unit"
        if u != "" and u not in DOC_UNITS:
            return "invalid", "unknown unit"
        if sign or val <= 0:
            return "invalid", "non-positive"
        return "valid", val * (DOC_UNITS[u] if u else 1)
    if not re.search(r"\d", s):
        return "invalid", "no number"
    if re.fullmatch(r"[ A-Za-z]+\d+(\.\d+)?", s) or re.fullmatch(r"\d+(\.\d+)?[ A-Za-z]+\d+(\.\d+)?[ A-Za-z]*", s):
        return "invalid", "number not in front / two numbers"
    return "unknown", None


def oracle_string(c):
    s = c["s"]
    st, v = real_get_distance(s)
    cls, exp = classify_string(s)
    if st not in ("ok", "ValueError"):
        return f"_get_distance({s!r}) raised {st}: {v}"
    if cls == "valid":
        if st != "ok":
            return f"_get_distance({s!r}) rejected a well-formed positive distance ({float(exp)} m expected): {v.splitlines()[0]}"
        if not close(float(v), float(exp), rel=1e-12, abs_=0.0):
            return f"_get_distance({s!r}) = {v!r}, expected {float(exp)!r} metres"
    elif cls == "invalid":
        if st == "ok":
            if isinstance(v, float) and math.isfinite(v):
                return f"_get_distance({s!r}) accepted a malformed / non-positive distance ({exp}): {v!r}"
            # a non-finite value leaves _get_distance; circle_kernel must still reject the radius
            try:
                conv().circle_kernel(1, 1, s)
                return f"circle_kernel(1, 1, {s!r}) accepted a malformed distance ({exp})"
            except (ValueError, OverflowError):
                pass
    else:
        if st == "ok" and isinstance(v, float) and math.isfinite(v) and v <= 0:
            return f"_get_distance({s!r}) returned the non-positive distance {v!r}"
    return None


def compare_string(r, c, reply, reply_split):
    s = c["s"]
    st, v = real_get_distance(s)
    if not s.isascii():
        return            # model domain: ASCII
    if reply.startswith("err:"):
        stage = reply[4:]
        if st != "ValueError" or STAGE.get(stage, "?") not in v:
            r.disagree("get_distance", c, f"{st}: {str(v)[:60]!r}", reply)
    elif reply.startswith("val:"):
        t = reply[4:]
        if st != "ok":
            r.disagree("get_distance", c, f"{st}: {str(v)[:60]!r}", reply)
        elif t in ("nan", "inf", "-inf"):
            if not close(float(v), float(t)):
                r.disagree("get_distance", c, repr(v), reply)
        elif float(v) != float(Fraction(t)):      # the model rounds like IEEE binary64: exact agreement
            r.disagree("get_distance", c, repr(v), reply)
    else:
        r.disagree("get_distance", c, f"{st}: {v!r}", reply)
    # the scanner against re.split itself (pattern read from the generated facts = the source)
    pieces = re.split(regex_from_source(), s)
    exp = "|".join(("n" if i % 2 else "t") + ".".join(str(ord(ch)) for ch in pc) for i, pc in enumerate(pieces))
    if exp != reply_split:
        r.disagree("re.split", c, exp, reply_split)


_REGEX = []


def regex_from_source():
    if not _REGEX:
        from common import LEAN
        rep = json.load(open(os.path.join(LEAN, "XrsVerif", "Gen", "report.json")))
        _REGEX.append(rep["facts:MetricFacts.lean"]["distance"]["regex"])
    return _REGEX[0]


# ------------------------------------------------------------------------------------------------
# 3. kernels
# ------------------------------------------------------------------------------------------------
CELLS = [1, 1, 2, 3, 5, 10, 0.5, 0.25, 1.5, 2.5, 0.1, 0.3, 7.25, 30, 0.3048, 100]
# cell sizes that binary floating point cannot hold exactly: radius / cellsize is then decided by rounding
INEXACT_CELLS = [0.1, 0.2, 0.3, 0.6, 0.7, 0.05, 0.15, 1.1, 2.2, 0.3048, 2.54, 1 / 3, 0.9, 1e-3, 12.7, 33.3, 1609.344]


def decimal_str(q):
    """a positive Fraction whose denominator divides a power of ten, as a plain decimal literal (else None)"""
    for digits in range(0, 31):
        if (10 ** digits) % q.denominator == 0:
            n = q.numerator * (10 ** digits // q.denominator)
            t = str(n).rjust(digits + 1, "0")
            return t[:len(t) - digits] + ("." + t[len(t) - digits:] if digits else "")
    return None


def whole_cells_radius(rng, cx, cy, big):
    """a radius that is a whole number n of cells (or one ulp beside it) along one axis, written the ways a
    caller writes it: the float product n * cellsize, the decimal product as a literal, n feet on a
    one-foot cell ...; whether int(radius / cellsize) is n or n - 1 is decided by the float quotient"""
    c_ = rng.choice([cx, cy])
    n = rng.randrange(1, max(1, min(big, int(big * min(cx, cy) / c_))) + 1)
    how = rng.choice(["product", "product", "decimal", "decimal", "ulp-below", "ulp-above", "unit"])
    if how == "product":
        v = n * c_
    elif how == "ulp-below":
        v = math.nextafter(n * c_, 0.0)
    elif how == "ulp-above":
        v = math.nextafter(n * c_, math.inf)
    else:
        dec = decimal_str(Fraction(repr(c_)) * n) if plain_decimal(repr(c_)) else None
        if how == "unit" and dec is not None:
            for u, f in (("ft", Fraction(3048, 10000)), ("km", Fraction(1000)), ("miles", Fraction(1609344, 1000))):
                lit = decimal_str(Fraction(repr(c_)) * n / f)
                if lit is not None and len(lit) < 18:
                    return lit + rng.choice(["", " "]) + u
        if dec is None:
            v = n * c_
        else:
            return dec if rng.random() < 0.5 else float(dec)
    if isinstance(v, float) and not plain_decimal(repr(v)):
        v = n * c_
    return v if rng.random() < 0.7 else repr(v)
RAD_UNITS = ["", "m", " meters", "km", "ft", " feet", "miles", " ml", " Km", "foot"]


def gen_radius(rng, cx, cy, big=24):
    """a radius (number or string) giving half widths <= big"""
    k = rng.random()
    lim = big * min(abs(cx), abs(cy))
    if k < 0.15 and cx > 0 and cy > 0:
        return whole_cells_radius(rng, cx, cy, big)
    if k < 0.35:
        v = rng.randrange(0, max(2, int(lim) + 1))
        return v if rng.random() < 0.8 else str(v)
    if k < 0.65:
        v = rng.randrange(1, 8 * big) / 8 * min(abs(cx), abs(cy))
        return v if rng.random() < 0.7 else repr(v)
    if k < 0.8:       # exact multiples of a cell size (the floor boundary); dyadic cells only, so that
        # float(str(radius)) / cellsize is exact and the real code sits exactly on the boundary too
        cand = [c for c in (cx, cy) if c != 0 and float(c * 64).is_integer()] or [1]
        c_ = rng.choice(cand)
        return rng.randrange(1, max(2, int(lim / abs(c_)) + 1)) * c_
    u = rng.choice(RAD_UNITS)
    f = float(DOC_UNITS.get(u.strip().lower(), 1))
    v = rng.randrange(1, 8 * big) / 8 * min(abs(cx), abs(cy)) / f
    v = float(f"{v:.4g}")
    s = repr(v) if rng.random() < 0.5 or v != int(v) else str(int(v))
    return s + u


def gen_kernel_case(rng, kind):
    cx, cy = rng.choice(CELLS), rng.choice(CELLS)
    if rng.random() < 0.3:
        cx = rng.choice(INEXACT_CELLS)
        cy = rng.choice(INEXACT_CELLS + [cx * 2, cx * 3, 1])
    if rng.random() < 0.4:
        cy = cx
    sub = "valid"
    if kind == "malformed":
        sub = rng.choice(["zero-cell", "neg-cell", "bad-radius", "inner>outer", "zero-radius", "exp-radius"])
        if sub == "zero-cell":
            if rng.random() < 0.5:
                cx = rng.choice([0, 0.0])
            else:
                cy = rng.choice([0, 0.0])
        elif sub == "neg-cell":
            if rng.random() < 0.5:
                cx = -cx
            else:
                cy = -cy
    fn = rng.choice(["circle", "circle", "annulus", "annulus", "ellipse"])
    if fn == "ellipse":
        hw, hh = rng.randrange(0, 14), rng.randrange(0, 14)
        if rng.random() < 0.3:
            hw = rng.choice([0, 0, 1, hh])
        if kind == "malformed":
            if rng.random() < 0.5:
                hw = -rng.randrange(1, 4)
            else:
                hh = -rng.randrange(1, 4)
        return dict(kind="ellipse", sub=sub if kind == "malformed" else "valid", hw=hw, hh=hh)
    ro = gen_radius(rng, cx, cy)
    if sub == "bad-radius":
        ro = rng.choice(["abc", "nan", "inf", "-2", "3 parsec", "1e3", "", "5 smile", True, float("nan"), float("inf"), -1.5, None])
    if sub == "zero-radius":
        ro = rng.choice([0, 0.0, "0", "0km"])
    if sub == "exp-radius":
        ro = rng.choice([1e-5, 5e-7, 1e16, 2.5e17])
    if fn == "circle":
        return dict(kind="circle", sub=sub, cx=cx, cy=cy, r=ro)
    ri = gen_radius(rng, cx, cy, big=12)
    try:
        if sub != "inner>outer" and isinstance(ro, (int, float)) and isinstance(ri, (int, float)) and ri > ro:
            ro, ri = ri, ro
        if sub == "inner>outer" and isinstance(ro, (int, float)) and isinstance(ri, (int, float)) and ri < ro:
            ro, ri = ri, ro
    except TypeError:
        pass
    if rng.random() < 0.1:
        ri = ro
    return dict(kind="annulus", sub=sub, cx=cx, cy=cy, ro=ro, ri=ri)


def too_big(c, limit=64):
    """keep the kernels small: the python oracle and the driver print every cell"""
    if c["kind"] == "ellipse":
        return max(abs(c["hw"]), abs(c["hh"])) > limit
    for key in ("r", "ro", "ri"):
        if key in c:
            rm = radius_metres(c[key])
            if isinstance(rm, Fraction):
                for cs in (c["cx"], c["cy"]):
                    if cs != 0 and abs(rm / Fraction(cs)) > limit:
                        return True
            elif rm == "unknown":
                try:
                    v = conv()._get_distance(str(c[key]))
                    if math.isfinite(v) and any(cs != 0 and abs(v / cs) > limit for cs in (c["cx"], c["cy"])):
                        return True
                except Exception:
                    pass
    return False


def call_kernel(c):
    m = conv()
    try:
        if c["kind"] == "ellipse":
            return "ok", m._ellipse_kernel(c["hw"], c["hh"])
        if c["kind"] == "circle":
            return "ok", m.circle_kernel(c["cx"], c["cy"], c["r"])
        return "ok", m.annulus_kernel(c["cx"], c["cy"], c["ro"], c["ri"])
    except Exception as ex:
        return exc_name(ex), str(ex)


def ellipse_mask(hw, hh):
    """the stated shape: offsets (x, y), |x| <= hw, |y| <= hh, with (x/hw)^2 + (y/hh)^2 <= 1;
    a zero half width leaves the single line x = 0 (resp. y = 0), which belongs to the kernel"""
    out = np.zeros((2 * hh + 1, 2 * hw + 1))
    for i in range(2 * hh + 1):
        for j in range(2 * hw + 1):
            x, y = j - hw, i - hh
            if hw == 0 or hh == 0:
                inside = True
            else:
                inside = Fraction(x, hw) ** 2 + Fraction(y, hh) ** 2 <= 1
            out[i, j] = 1.0 if inside else 0.0
    return out


def radius_metres(rad):
    """independent reading of a radius argument: Fraction of metres, or None when it is not a
    well-formed positive distance, or 'unknown'"""
    if isinstance(rad, bool) or rad is None:
        return None
    if isinstance(rad, (int, float)):
        if isinstance(rad, float) and not math.isfinite(rad):
            return None
        if rad <= 0:
            return None
        if not plain_decimal(str(rad)):
            return "unknown"        # exponent notation: see design_notes (numeric radii go through str())
        return Fraction(str(rad))
    cls, val = classify_string(rad)
    if cls == "valid":
        return val
    if cls == "invalid":
        return None
    return "unknown"


def fdiv(a, b):
    """the IEEE binary64 quotient of two python numbers, computed from their exact values (the correctly
    rounded `int / int` of CPython) -- what the expression `radius / cellsize` denotes"""
    q = Fraction(a) / Fraction(b)
    return q.numerator / q.denominator


def radius_floats(rad):
    """the float(s) a well-formed positive radius stands for in metres.  A number, or a literal without unit /
    in metres, is one float: float(literal).  With another unit the statement says "converts to metres" and
    nothing about how the product is rounded: the correctly rounded product and the float product
    float(literal) * float(factor) are both accepted (they differ by an ulp at most)."""
    if isinstance(rad, (int, float)):
        return {float(rad)}
    m = re.fullmatch(r"(\d+\.\d+|\d+|\.\d+)([^0-9.]*)", rad)
    lit, unit = m.groups()
    u = unit.replace(" ", "").lower()
    f = DOC_UNITS[u] if u else Fraction(1)
    if f == 1:
        return {float(lit)}
    prod = Fraction(lit) * f
    return {prod.numerator / prod.denominator, float(lit) * (f.numerator / f.denominator)}


def half_widths(rad, cx, cy):
    """the stated half widths: int(radius / cellsize_x), int(radius / cellsize_y) -- the floor of the float
    quotient of the radius in metres by the cell size (the set has one element unless the unit conversion
    itself is ambiguous in the last bit *and* the quotient sits on an integer)"""
    return {(int(fdiv(rf, cx)), int(fdiv(rf, cy))) for rf in radius_floats(rad)}


def exact_floor_note(rad, cx, cy, hw, hh):
    """for the evidence: does the float quotient round up to an integer that the quotient of the real numbers
    the two floats denote does not reach?  (1 / 0.1: the float quotient is 10.0, the real one 9.99999999999999944...)"""
    return all((math.floor(Fraction(rf) / Fraction(cx)), math.floor(Fraction(rf) / Fraction(cy))) != (hw, hh)
               for rf in radius_floats(rad))


def oracle_kernel(c, note=None, built=None):
    st, k = call_kernel(c) if built is None else built
    if c["kind"] == "ellipse":
        hw, hh = c["hw"], c["hh"]
        if hw < 0 or hh < 0:
            return None if st != "ok" else f"_ellipse_kernel({hw},{hh}) returned an array for a negative half width"
        if st != "ok":
            return f"_ellipse_kernel({hw},{hh}) raised {st}: {k}"
        return check_mask(k, hw, hh, f"_ellipse_kernel({hw},{hh})")
    cx, cy = c["cx"], c["cy"]
    if not (cx > 0 and cy > 0):
        return None       # cell sizes are positive (calc_cellsize); anything else is outside the statement
    if c["kind"] == "circle":
        rm = radius_metres(c["r"])
        if rm == "unknown":
            return None
        what = f"circle_kernel({cx},{cy},{c['r']!r})"
        if rm is None:
            return None if st != "ok" else f"{what} accepted a non-positive / malformed radius"
        if st != "ok":
            return f"{what} raised {st}: {str(k)[:80]}"
        if not isinstance(k, np.ndarray) or k.ndim != 2:
            return f"{what}: not a 2-D array"
        stated = half_widths(c["r"], cx, cy)
        got = ((k.shape[1] - 1) // 2, (k.shape[0] - 1) // 2)
        hw, hh = got if got in stated else sorted(stated)[0]
        if note is not None and exact_floor_note(c["r"], cx, cy, hw, hh):
            note("kernel:float-quotient-reaches-next-integer")
        return check_mask(k, hw, hh, what, quot=(c["r"], cx, cy))
    ro, ri = radius_metres(c["ro"]), radius_metres(c["ri"])
    if ro == "unknown" or ri == "unknown":
        return None
    what = f"annulus_kernel({cx},{cy},{c['ro']!r},{c['ri']!r})"
    if ro is None or ri is None:
        return None if st != "ok" else f"{what} accepted a non-positive / malformed radius"
    if ri > ro:
        return None       # inner radius beyond the outer one: not an annulus
    if st != "ok":
        return f"{what} raised {st}: {str(k)[:80]}"
    if not isinstance(k, np.ndarray) or k.ndim != 2:
        return f"{what}: not a 2-D array"
    outer_hw, inner_hw = half_widths(c["ro"], cx, cy), half_widths(c["ri"], cx, cy)
    got = ((k.shape[1] - 1) // 2, (k.shape[0] - 1) // 2)
    HW, HH = got if got in outer_hw else sorted(outer_hw)[0]
    if k.shape != (2 * HH + 1, 2 * HW + 1):
        return (f"{what}: shape {k.shape}, expected {(2 * HH + 1, 2 * HW + 1)} (outer half widths int({c['ro']!r} / {cx}) = {HW}, "
                f"int({c['ro']!r} / {cy}) = {HH})")
    if (k < 0).any():
        idx = tuple(int(t) for t in np.argwhere(k < 0)[0])
        return f"{what}: negative entry {k[idx]} at {idx}"
    outer = ellipse_mask(HW, HH)
    bad = None
    for hw, hh in sorted(inner_hw):
        if hw > HW or hh > HH:
            continue
        inner = np.zeros_like(outer)
        inner[HH - hh:HH + hh + 1, HW - hw:HW + hw + 1] = ellipse_mask(hw, hh)
        if np.array_equal(k, outer - inner):
            return None
        if bad is None:
            idx = tuple(int(t) for t in np.argwhere(k != outer - inner)[0])
            bad = (f"{what}: entry {idx} is {k[idx]}, outer (half widths {HW}, {HH}) - centred inner (half widths {hw}, {hh}) "
                   f"gives {(outer - inner)[idx]}")
    return bad


def check_mask(k, hw, hh, what, quot=None):
    if not isinstance(k, np.ndarray) or k.ndim != 2:
        return f"{what}: not a 2-D array"
    if k.shape[0] % 2 != 1 or k.shape[1] % 2 != 1:
        return f"{what}: even shape {k.shape}"
    if not np.isin(k, (0.0, 1.0)).all():
        return f"{what}: entries other than 0/1"
    if not (np.array_equal(k, k[::-1, :]) and np.array_equal(k, k[:, ::-1])):
        return f"{what}: not symmetric under the axis flips"
    if k.shape != (2 * hh + 1, 2 * hw + 1):
        why = f"half widths {hw}, {hh}"
        if quot is not None:
            rad, cx, cy = quot
            rf = sorted(radius_floats(rad))[0]
            why = f"half widths int({rf!r} / {cx!r}) = int({fdiv(rf, cx)!r}) = {hw}, int({rf!r} / {cy!r}) = int({fdiv(rf, cy)!r}) = {hh}"
        return f"{what}: shape {k.shape}, expected {(2 * hh + 1, 2 * hw + 1)} ({why})"
    exp = ellipse_mask(hw, hh)
    if not np.array_equal(k, exp):
        idx = tuple(int(t) for t in np.argwhere(k != exp)[0])
        return f"{what}: entry {idx} (offset x={idx[1] - hw}, y={idx[0] - hh}) is {k[idx]}, the ellipse equation gives {exp[idx]}"
    return None


def rad_str(rad):
    return str(rad)


def kernel_requests(c):
    if c["kind"] == "ellipse":
        return [f"ellipse hw={c['hw']} hh={c['hh']}"]
    cx, cy = tok(c["cx"]), tok(c["cy"])
    if c["kind"] == "circle":
        return [f"circle cx={cx} cy={cy} r={cps(rad_str(c['r']))}"]
    return [f"annulus cx={cx} cy={cy} ro={cps(rad_str(c['ro']))} ri={cps(rad_str(c['ri']))}"]


def compare_kernel(r, c, replies, built=None):
    """exact comparison: the model performs `float(number)`, `* UNITS[unit]` and `/ cellsize` with
    IEEE binary64 rounding, so even radii that are exact multiples of a cell size must agree"""
    st, k = call_kernel(c) if built is None else built
    rep = replies[0]
    strs = [rad_str(c[key]) for key in ("r", "ro", "ri") if key in c]
    if not all(s.isascii() for s in strs):
        return
    if rep.startswith("err:"):
        kind = rep[4:]
        if st == "ok" or kind not in ("ValueError", "OverflowError", "ZeroDivisionError") or st != kind:
            r.disagree("kernel-vs-real", c, f"{st}: {str(k)[:80]}", rep)
        return
    if st != "ok":
        r.disagree("kernel-vs-real", c, f"{st}: {str(k)[:80]}", rep[:120])
        return
    mg = np.array(parse_grid(rep)) if not rep.endswith(":") else np.zeros((0, 0))
    if mg.shape != k.shape or not np.array_equal(mg, k):
        r.disagree("kernel-vs-real", c, f"shape {k.shape} {k.tolist() if k.size < 60 else ''}",
                   f"shape {mg.shape} {mg.tolist() if mg.size < 60 else ''}")


# ------------------------------------------------------------------------------------------------
# 3b. kernel-builder histories: build, the caller edits what it was handed, build again with equal half sizes
# ------------------------------------------------------------------------------------------------
EDITS = ["fill", "centre0", "normalise", "negate", "none"]


def spell_radius(rng, r):
    """the same distance written differently: number, decimal string, metres, kilometres, feet"""
    how = rng.choice(["num", "num", "str", "m", "km", "ft", "int"])
    if how == "int" and r == int(r):
        return int(r)
    if how == "str":
        return repr(float(r))
    if how == "m":
        return f"{float(r)!r} m" if rng.random() < 0.5 else f"{float(r)!r}meters"
    if how == "km" and plain_decimal(repr(r / 1000.0)):
        return f"{r / 1000.0!r}km"
    if how == "ft" and plain_decimal(repr(r / 0.3048)):
        return f"{r / 0.3048!r} ft"
    return float(r)


def gen_khist(rng):
    """a caller's session with the kernel builders: every step asks for a kernel with the SAME integer half sizes as
    the step before (other cell sizes / radius / unit spelling), and between the steps the caller edits the arrays it
    was handed in place (zero the centre for a neighbours-only kernel, normalise, negate, overwrite).  Every build
    must still be the stated shape."""
    hw, hh = rng.randrange(1, 6), rng.randrange(1, 6)
    steps = []
    for _ in range(rng.randrange(3, 7)):
        if rng.random() < 0.25:
            hw, hh = rng.randrange(1, 6), rng.randrange(1, 6)       # now and then another size
        c = rng.choice([1, 1, 2, 0.5, 10, 0.25, 30])
        cx = c
        r = c * (hw + rng.choice([0.5, 0.25, 0.75]))
        cy = r / (hh + rng.choice([0.5, 0.25, 0.75]))
        if rng.random() < 0.3 and hw == hh:
            cy = cx
        fn = rng.choice(["circle", "circle", "annulus", "ellipse"])
        if fn == "ellipse":
            call = dict(kind="ellipse", sub="valid", hw=hw, hh=hh)
        elif fn == "circle":
            call = dict(kind="circle", sub="valid", cx=cx, cy=cy, r=spell_radius(rng, r))
        else:
            call = dict(kind="annulus", sub="valid", cx=cx, cy=cy, ro=spell_radius(rng, r), ri=spell_radius(rng, r * rng.choice([0.25, 0.5])))
        steps.append(dict(call=call, edit=rng.choice(EDITS)))
    return dict(kind="khist", sub="caller-edits", steps=steps)


def apply_edit(k, edit):
    if not isinstance(k, np.ndarray) or k.ndim != 2 or not k.size or not k.flags.writeable or edit == "none":
        return
    if edit == "fill":
        k[...] = -7.5
    elif edit == "centre0":
        k[k.shape[0] // 2, k.shape[1] // 2] = 0
    elif edit == "normalise" and k.sum() != 0:
        k /= k.sum()
    elif edit == "negate":
        k *= -1


def run_khist(c):
    """-> (first failure or None, [(status, copy of the array as returned) per step])"""
    bad, builds = None, []
    for n, st in enumerate(c["steps"]):
        status, k = call_kernel(st["call"])
        builds.append((status, k.copy() if isinstance(k, np.ndarray) else k))
        if bad is None:
            b = oracle_kernel(st["call"], built=(status, k))
            if b:
                edits = [f"{m}:{s_['edit']}" for m, s_ in enumerate(c["steps"][:n]) if s_["edit"] != "none"]
                bad = f"step {n} of a kernel-builder session (the caller edited in place the arrays returned by steps {edits}): {b}"
        apply_edit(k, st["edit"])
    return bad, builds


# ------------------------------------------------------------------------------------------------
# 4. calc_cellsize
# ------------------------------------------------------------------------------------------------
def gen_cellsize_case(rng):
    how = rng.choice(["res-tuple", "res-tuple", "res-scalar", "coords", "coords"])
    unit = rng.choice([None, None, "meter", "m", "km", "kilometers", "ft", "feet", "foot", "miles", "ml", "mls", "meters",
                       "kilometer", "KM", "mile", "cm", " km", ""])
    h, w = rng.randrange(2, 6), rng.randrange(2, 6)
    c = dict(kind="cellsize", how=how, unit=unit, h=h, w=w)
    if how == "res-tuple":
        c["res"] = [rng.choice([1, 2, 0.5, 30, 0.25, 10.0, 3]), rng.choice([1, -1, 2, -0.5, 30, -30.0, 0.25])]
    elif how == "res-scalar":
        c["res"] = rng.choice([1, 2, 0.5, 30.0, 0.125])
    else:
        c["x0"], c["dx"] = rng.choice([0, 1, -8, 100.5]), rng.choice([1, 2, 0.5, 30, 0.25])
        c["y0"], c["dy"] = rng.choice([0, 1, -8, 100.5]), rng.choice([1, -1, 2, -0.5, 30, -30, 0.25])
    return c


def build_raster(c):
    data = np.zeros((c["h"], c["w"]))
    attrs = {}
    if c["unit"] is not None:
        attrs["unit"] = c["unit"]
    if c["how"] == "res-tuple":
        attrs["res"] = tuple(c["res"])
        return xr.DataArray(data, dims=["y", "x"], attrs=attrs), Fraction(c["res"][0]), Fraction(c["res"][1])
    if c["how"] == "res-scalar":
        attrs["res"] = c["res"]
        return xr.DataArray(data, dims=["y", "x"], attrs=attrs), Fraction(c["res"]), Fraction(c["res"])
    xs = c["x0"] + c["dx"] * np.arange(c["w"])
    ys = c["y0"] + c["dy"] * np.arange(c["h"])
    ra = xr.DataArray(data, dims=["y", "x"], coords={"y": ys, "x": xs}, attrs=attrs)
    return ra, abs(Fraction(c["dx"])), abs(Fraction(c["dy"]))      # (max - min) / (n - 1)


def call_cellsize(c):
    ra, rx, ry = build_raster(c)
    try:
        out = conv().calc_cellsize(ra)
        return "ok", (float(out[0]), float(out[1])), rx, ry
    except Exception as ex:
        return exc_name(ex), str(ex), rx, ry


def oracle_cellsize(c):
    st, out, rx, ry = call_cellsize(c)
    unit = c["unit"]
    if unit is None:
        f = Fraction(1)
    elif unit in DOC_UNITS:
        f = DOC_UNITS[unit]
    else:
        return None       # an undocumented unit attribute: the statement says nothing
    if st != "ok":
        return f"calc_cellsize(unit={unit!r}) raised {st}: {out}"
    ex, ey = float(rx * f), float(abs(ry * f))
    if not (close(out[0], ex, rel=1e-12, abs_=0) and close(out[1], ey, rel=1e-12, abs_=0)):
        return f"calc_cellsize(unit={unit!r}, resolution=({float(rx)},{float(ry)})) = {out}, expected ({ex}, {ey}) metres"
    return None


def compare_cellsize(r, c, reply):
    st, out, rx, ry = call_cellsize(c)
    if reply.startswith("err:"):
        if st != reply[4:]:
            r.disagree("calc_cellsize", c, f"{st}: {out}", reply)
        return
    if st != "ok":
        r.disagree("calc_cellsize", c, f"{st}: {out}", reply)
        return
    mx, my = (float(Fraction(t)) for t in reply.split(","))
    if not (out[0] == mx and out[1] == my):
        r.disagree("calc_cellsize", c, repr(out), reply)


def cellsize_request(c):
    _, rx, ry = build_raster(c)
    if c["how"] == "res-tuple":
        ry = Fraction(c["res"][1])
    u = "none" if c["unit"] is None else cps(c["unit"])
    return f"cellsize unit={u} rx={tok(rx)} ry={tok(ry)}"


# ------------------------------------------------------------------------------------------------
# the check
# ------------------------------------------------------------------------------------------------
def gen_round_case(rng):
    """a rational to be rounded to binary64: ordinary quotients, exact ties, subnormals, huge / tiny"""
    k = rng.random()
    if k < 0.4:
        n, d = rng.randrange(-10 ** 6, 10 ** 6), rng.randrange(1, 10 ** 6)
    elif k < 0.6:     # a tie between two neighbouring doubles, and its close neighbours
        m = rng.randrange(2 ** 52, 2 ** 53)
        e = rng.randrange(-60, 60)
        n, d = (2 * m + 1) * 10 ** 30 + rng.choice([0, 0, 1, -1]), 2 * 10 ** 30
        n, d = (n * 2 ** e, d) if e >= 0 else (n, d * 2 ** (-e))
    elif k < 0.75:    # subnormal range
        n, d = rng.randrange(1, 2 ** 60), 2 ** rng.randrange(1075, 1135)
        if rng.random() < 0.3:
            n, d = (2 * rng.randrange(1, 2 ** 20) + 1), 2 ** 1075
    elif k < 0.9:
        n, d = rng.randrange(1, 10 ** 18) * 10 ** rng.randrange(0, 200), rng.randrange(1, 10 ** 18) * 10 ** rng.randrange(0, 200)
    else:
        n, d = rng.randrange(-10 ** 30, 10 ** 30), 10 ** rng.randrange(0, 40)
    return dict(kind="round", sub="gen", n=str(n), d=str(d))


def compare_round(r, c, reply):
    exp = Fraction(int(c["n"]), int(c["d"]))
    try:
        f = float(exp)             # correctly rounded by CPython
    except OverflowError:
        return
    if reply != tok(Fraction(f)):
        r.disagree("roundF64-vs-python", c, tok(Fraction(f)), reply)


ORACLES = {"round": lambda c: None, "dist": oracle_dist, "string": oracle_string, "circle": oracle_kernel, "annulus": oracle_kernel,
           "ellipse": oracle_kernel, "cellsize": oracle_cellsize, "khist": lambda c: run_khist(c)[0]}


def mile_singular(c):
    """the case turns on the documented spelling `mile` (finding D25)"""
    for key in ("s", "r", "ro", "ri"):
        v = c.get(key)
        if isinstance(v, str) and re.fullmatch(r"(\d+\.\d+|\d+|\.\d+)mile", v.replace(" ", "").lower()):
            return True
    return c["kind"] == "cellsize" and c.get("unit") == "mile"


def fail_key(c, what):
    if mile_singular(c):
        return "units:mile-singular"
    return c["kind"] + ":" + (c.get("metric") or c.get("sub") or c.get("how") or "value")


def corpus_cases(r):
    return [b["case"] for b in r.corpus() if isinstance(b, dict) and "case" in b]


def counts(tier, scale=1):
    base = {"quick": dict(dist=6000, wild=1000, string=15000, kernel=3000, malformed=600, cellsize=600, round=1500, khist=300),
            "thorough": dict(dist=150000, wild=20000, string=400000, kernel=60000, malformed=12000, cellsize=10000, round=30000,
                             khist=6000)}[tier]
    return {k: int(v * scale) for k, v in base.items()}


def exhaustive_small(r, cases):
    """thorough: every (cx, cy, radius) on a small grid, every ellipse with half widths <= 12,
    every annulus with integer radii <= 6 and cell sizes in {1, 2, 3}"""
    for hw in range(0, 13):
        for hh in range(0, 13):
            cases.append(dict(kind="ellipse", sub="valid", hw=hw, hh=hh))
    cells = [1, 2, 3, 0.5, 1.5]
    for cx in cells:
        for cy in cells:
            for rr in [0.5, 1, 1.5, 2, 2.5, 3, 4, 4.5, 5, 6, 7.5]:
                cases.append(dict(kind="circle", sub="valid", cx=cx, cy=cy, r=rr))
    for cx in (1, 2, 3):
        for cy in (1, 2, 3):
            for ro in range(1, 7):
                for ri in range(1, ro + 1):
                    cases.append(dict(kind="annulus", sub="valid", cx=cx, cy=cy, ro=ro, ri=ri))


def run(r, scale=1, oracle_only=False):
    from common import Driver
    n = counts(r.tier, scale)
    rng = r.rng
    r.rule = ("distances: point triples on a dyadic grid of the plane (scales 1..2^20) / the sphere incl. poles, "
              "antimeridian twins, antipodes and near-antipodes, coincident points, out-of-range coordinates by 1 ulp .. 1e300, "
              "30% of the valid sphere triples at tiny separations (1e-3 .. 1e-9 degrees and one-ulp neighbours; base latitudes "
              "0 .. 89.999999 and the poles, longitudes incl. both sides of the antimeridian; third point collinear, nearly "
              "collinear or anywhere equally close) checked with a tolerance that follows the separation (1e-12 R + 1e-8 d), "
              "and a wild stream (nan, inf, subnormals); strings: literal x separator x unit spelling products, numeric "
              "notations, inf/nan spellings, random strings over digits . - + blanks and unit letters; kernels: cell sizes "
              "from {1..100, dyadics, 0.1, 0.3, 0.3048} with cx != cy, radii as ints / floats / exact multiples of a cell "
              "size / unit strings, malformed (zero / negative cell size, bad radius, inner > outer, zero radius); "
              "kernel-builder sessions: 3..6 builds (circle / annulus / _ellipse_kernel) with the same integer half sizes from "
              "different cell sizes, radii and unit spellings, the caller editing every returned array in place between the "
              "builds (overwrite, zero the centre, normalise, negate), each build checked against the stated shape and the model; "
              "calc_cellsize: res tuple / scalar / coordinates x unit attribute; non-trivial = distinct case json, "
              "excluding identical-point planar triples and all-zero inputs")
    cases = corpus_cases(r)
    n_corpus = len(cases)
    for _ in range(n["dist"]):
        cases.append(gen_dist_case(rng, "invalid" if rng.random() < 0.2 else "valid"))
    for _ in range(n["wild"]):
        cases.append(gen_dist_case(rng, "wild"))
    fixed = ["10", "10km", "5 miles", "3ft", "2.5 m", ".5km", "0", "-3", "abc", "1e3", "5.", "1.2.3", "10 parsec",
             "5 mile", "1 mile", "inf", "nan", "", " 10", "10 ", "1 0", "10 K M", "0.0001ml"]
    for s in fixed:
        cases.append(dict(kind="string", sub="fixed", s=s))
    for _ in range(n["string"]):
        cases.append(dict(kind="string", sub="gen", s=gen_string(rng)))
    for _ in range(n["kernel"]):
        cases.append(gen_kernel_case(rng, "valid"))
    for _ in range(n["malformed"]):
        cases.append(gen_kernel_case(rng, "malformed"))
    for _ in range(n["khist"]):
        cases.append(gen_khist(rng))
    for _ in range(n["cellsize"]):
        cases.append(gen_cellsize_case(rng))
    for _ in range(n["round"]):
        cases.append(gen_round_case(rng))
    if r.tier == "thorough" and not oracle_only and scale == 1:
        exhaustive_small(r, cases)
        r.exhaustive = ("all _ellipse_kernel half widths 0..12 x 0..12; circle_kernel on 5x5 cell sizes x 11 radii; "
                        "annulus_kernel on 3x3 cell sizes x all integer radii 1 <= inner <= outer <= 6")
    # --- oracles on the real code + request lines for the model
    requests, owners = [], []
    for idx, c in enumerate(cases):
        kind = c["kind"]
        if kind in ("circle", "annulus", "ellipse") and too_big(c):
            r.tag("kernel:skipped-large")
            continue
        trivial = (kind == "dist" and c["pts"][0] == c["pts"][1] == c["pts"][2])
        tags = [f"kind:{kind}", f"sub:{kind}:{c.get('sub', c.get('how', ''))}"]
        if kind == "dist":
            tags.append(f"metric:{c['metric']}")
        r.case(c, desc=c if idx % 97 == 0 else None, nontrivial=not trivial, tags=tags)
        builds = None
        try:
            if kind == "khist":
                bad, builds = run_khist(c)
            else:
                bad = oracle_kernel(c, note=r.tag) if kind == "circle" else ORACLES[kind](c)
        except Exception as ex:          # an oracle crash must not hide a problem
            bad = None
            r.notes.append(f"oracle crashed on {c}: {ex!r}")
            r.tag("oracle-crash")
        if bad:
            r.fail(fail_key(c, bad), bad, c)
            r.tag("property-failure")
        if oracle_only:
            continue
        if kind == "dist":
            for pair, line in dist_requests(c):
                requests.append(line)
                owners.append((idx, "dist", pair))
        elif kind == "string":
            requests.append(f"getdist s={cps(c['s'])}")
            owners.append((idx, "string", 0))
            requests.append(f"resplit s={cps(c['s'])}")
            owners.append((idx, "string", 1))
        elif kind in ("circle", "annulus", "ellipse"):
            for k_, line in enumerate(kernel_requests(c)):
                requests.append(line)
                owners.append((idx, "kernel", k_))
        elif kind == "khist":
            for k_, st in enumerate(c["steps"]):
                if builds is not None and not too_big(st["call"]):
                    requests.append(kernel_requests(st["call"])[0])
                    owners.append((idx, "khist", (k_, builds[k_])))
        elif kind == "round":
            requests.append(f"round q={c['n']}/{c['d']}")
            owners.append((idx, "round", 0))
        else:
            requests.append(cellsize_request(c))
            owners.append((idx, "cellsize", 0))
    if oracle_only:
        return
    replies = Driver().ask(requests)
    by_case = {}
    for (idx, what, k_), rep in zip(owners, replies):
        by_case.setdefault(idx, []).append((what, k_, rep))
    before = len(r.disagreements)
    for idx, lst in by_case.items():
        c = cases[idx]
        what = lst[0][0]
        try:
            if what == "dist":
                for _, pair, rep in lst:
                    compare_dist(r, c, pair, rep)
            elif what == "string":
                compare_string(r, c, lst[0][2], lst[1][2])
            elif what == "kernel":
                compare_kernel(r, c, [x[2] for x in lst])
            elif what == "khist":
                for _, (k_, built), rep_ in lst:
                    compare_kernel(r, c["steps"][k_]["call"], [rep_], built=built)
            elif what == "round":
                compare_round(r, c, lst[0][2])
            else:
                compare_cellsize(r, c, lst[0][2])
        except Exception as ex:
            r.disagree("harness", c, "comparison crashed", repr(ex))
    r.extra["corpus_cases"] = n_corpus
    r.extra["model_requests"] = len(requests)
    r.tag("disagreements", len(r.disagreements) - before)


def search(r):
    """a proof obligation or the correspondence broke: run the oracles on many more generated cases"""
    for d in r.disagreements[:50]:
        c = d["case"]
        try:
            bad = ORACLES[c["kind"]](c)
        except Exception:
            bad = None
        if bad:
            r.fail(fail_key(c, bad), bad, c)
            return
    run(r, scale={"quick": 4, "thorough": 3}[r.tier], oracle_only=True)


def replay(r, body):
    c = body["case"]
    bad = ORACLES[c["kind"]](c)
    if bad:
        print("still fails:", bad)
        return 1
    print("does not fail on the current tree")
    return 0
