"""
T2 generator for C10: compiles every public NumPy-backend wrapper of /repo/xrspatial/*.py, together with
the helpers / numba kernels it reaches (inlined), into a buffer program of `Model/BufProg.lean`, and
extracts where the returned DataArray takes coords / dims / attrs / name from.

Only `ast` is used; nothing of /repo is imported.  Unknown constructs become `Op.unknown` (which makes
`safe` false) or the conservative treatment "writes every argument, result may alias every argument";
never a silent `alloc`.  The primitive table below (PRIMS / METHODS) is trusted and is probed with
`np.shares_memory` by harness/corr_C10.py on every run.

generate(repo) yields ("BufProgs.lean", text, report).
"""
import ast
import os

from translate import lean_str, str_list

MODULES = ["analytics", "aspect", "bump", "classify", "convolution", "curvature", "focal", "hillshade",
           "local", "multispectral", "pathfinding", "perlin", "proximity", "slope", "terrain", "utils",
           "viewshed", "zonal", "polygonize"]
MODULE_PATHS = {"polygonize": "experimental/polygonize.py"}
# public defs that are not raster functions (scalar helpers, GPU plumbing, plotting)
EXCLUDE = {
    "utils": {"has_cuda_and_cupy", "is_cupy_array", "cuda_args", "calc_cuda_dims", "is_cupy_backed",
              "is_dask_cupy", "not_implemented_func", "height_implied_by_aspect_ratio", "lnglat_to_meters",
              "canvas_like", "color_values", "bands_to_img", "validate_arrays"},
    "proximity": {"euclidean_distance", "manhattan_distance", "great_circle_distance"},
    "zonal": {"get_full_extent", "suggest_zonal_canvas"},
    "convolution": {"circle_kernel", "annulus_kernel"},
    "polygonize": {"generated_jit"},
}

SC = ("sc",)


class Unsupported(Exception):
    pass


# ---------------------------------------------------------------------------------------------------
# primitive table: external functions by dotted name.
#   alloc   result is a fresh buffer, arguments untouched
#   copy    result is a fresh copy of argument 0
#   view    result shares memory with argument 0
#   mview   result may share memory with argument 0 (layout / dtype decides)
#   join    result may share memory with any argument (containers built from the arguments)
#   scalar  result is not an array, arguments untouched
#   write0  writes into argument 0, returns nothing
#   false   statically False on the NumPy backend without GPU
# every entry with an `out=` keyword additionally writes that argument
NP_ALLOC = """zeros empty ones full zeros_like empty_like ones_like full_like arange linspace meshgrid where
sqrt arctan arctan2 sin cos tan arcsin arccos exp log log2 log10 abs absolute fabs sign floor ceil round
isnan isfinite isinf logical_or logical_and logical_not logical_xor mod power square radians degrees deg2rad
rad2deg hypot maximum minimum fmax fmin add subtract multiply divide true_divide floor_divide negative
min max amin amax nanmin nanmax ptp sum nansum mean nanmean std nanstd var nanvar median nanmedian prod
any all unique percentile nanpercentile quantile concatenate append stack dstack hstack vstack gradient
tile repeat pad argwhere nonzero flatnonzero lexsort sort argsort argmin argmax nanargmin nanargmax
cumsum cumprod diff dot matmul clip isclose allclose array_equal count_nonzero searchsorted digitize
histogram bincount interp float32 float64 int8 int16 int32 int64 uint8 uint16 uint32 uint64 bool_
result_type iinfo finfo dtype issubdtype isscalar ndim shape size nan_to_num around rint trunc
random.permutation random.rand random.randn random.randint random.random random.uniform random.normal
random.choice random.RandomState random.default_rng random.seed ma.count ma.getmaskarray vectorize
take compress extract delete insert roll triu tril eye identity outer cross cov corrcoef
ma.masked_invalid ma.masked_where ma.masked_equal fromiter fromfunction indices
isin in1d intersect1d union1d setdiff1d trapz sinh cosh tanh expm1 log1p cbrt reciprocal
nancumsum nanprod average"""
# numpy functions whose result is a scalar when every argument is a scalar
NP_SCALAR_OK = set("""sqrt arctan arctan2 sin cos tan arcsin arccos exp log log2 log10 abs absolute fabs sign
floor ceil round isnan isfinite isinf mod power square radians degrees deg2rad rad2deg hypot maximum minimum
float32 float64 int8 int16 int32 int64 uint8 uint16 uint32 uint64 bool_ isscalar issubdtype dtype iinfo finfo
result_type around rint trunc isclose sinh cosh tanh""".split())
PRIMS = {}
for _n in NP_ALLOC.split():
    PRIMS["np." + _n] = "alloc"
PRIMS.update({
    "np.array": "copy", "np.copy": "copy", "copy.deepcopy": "copy", "copy.copy": "copy",
    "np.asarray": "mview", "np.asanyarray": "mview", "np.ascontiguousarray": "mview",
    "np.asfortranarray": "mview", "np.reshape": "mview", "np.ravel": "mview", "np.require": "mview",
    "np.transpose": "view", "np.squeeze": "view", "np.expand_dims": "view", "np.atleast_1d": "view",
    "np.atleast_2d": "view", "np.atleast_3d": "view", "np.broadcast_to": "view", "np.flip": "view",
    "np.flipud": "view", "np.fliplr": "view", "np.rot90": "view", "np.swapaxes": "view",
    "np.moveaxis": "view", "np.rollaxis": "view", "np.diagonal": "view", "np.diag": "view", "np.split": "view",
    "np.hsplit": "view", "np.vsplit": "view", "np.array_split": "view", "np.broadcast_arrays": "view", "np.real": "view", "np.imag": "mview", "np.frombuffer": "view",
    "np.ma.masked_array": "view", "np.ma.array": "view", "np.ma.asarray": "mview", "np.nditer": "view",
    "np.ndenumerate": "view", "np.lib.stride_tricks.as_strided": "view",
    "np.lib.stride_tricks.sliding_window_view": "view",
    # dtype constructors return their argument when it already is an array of that type
    "np.float32": "mview", "np.float64": "mview", "np.int8": "mview", "np.int16": "mview", "np.int32": "mview",
    "np.int64": "mview", "np.uint8": "mview", "np.uint16": "mview", "np.uint32": "mview", "np.uint64": "mview",
    "np.bool_": "mview",
    "np.copyto": "write0", "np.put": "write0", "np.place": "write0", "np.putmask": "write0",
    "np.fill_diagonal": "write0", "np.random.shuffle": "write0", "np.put_along_axis": "write0",
    "xr.DataArray": "view", "xr.Dataset": "join", "xr.concat": "alloc", "xr.merge": "alloc",
    "xr.zeros_like": "alloc", "xr.full_like": "alloc", "xr.ones_like": "alloc", "xr.where": "alloc",
    "pd.DataFrame": "alloc", "pd.Index": "alloc", "pd.Series": "alloc", "pd.concat": "alloc",
    "ds.Canvas": "alloc", "tf.Image": "alloc", "tf.Image.fromarray": "alloc",
    "Counter": "alloc", "re.split": "scalar",
    # optional output containers of polygonize (not installed here, not probed): they copy what they are given
    "geopandas.GeoDataFrame": "alloc", "spatialpandas.GeoDataFrame": "alloc", "awkward.Array": "alloc",
    "spatialpandas.geometry.PolygonArray": "alloc", "shapely.geometry.Polygon": "alloc",
    # builtins
    "tuple": "join", "list": "join", "dict": "join", "set": "join", "sorted": "join", "reversed": "join",
    "zip": "join", "enumerate": "join", "iter": "join", "map": "join", "filter": "join", "next": "join",
    "frozenset": "join",
    "len": "scalar", "int": "scalar", "float": "scalar", "str": "scalar", "bool": "scalar", "abs": "alloc",
    "min": "join", "max": "join", "sum": "alloc", "round": "alloc", "range": "scalar", "prange": "scalar",
    "nb.prange": "scalar", "isinstance": "scalar", "issubclass": "scalar", "type": "scalar",
    "print": "scalar", "repr": "scalar", "hash": "scalar", "id": "scalar", "callable": "scalar",
    "any": "scalar", "all": "scalar", "getattr": "join", "hasattr": "scalar", "divmod": "alloc", "pow": "alloc",
    "warnings.warn": "scalar", "warnings.simplefilter": "scalar", "warnings.catch_warnings": "scalar",
    "sqrt": "alloc", "atan": "alloc", "atan2": "alloc", "fabs": "alloc", "isnan": "scalar", "ceil": "alloc", "floor": "alloc",
    "math.sqrt": "alloc", "math.atan": "alloc", "math.atan2": "alloc", "math.sin": "alloc", "math.cos": "alloc",
    "math.isnan": "scalar", "math.ceil": "alloc", "math.floor": "alloc", "cmath.isfinite": "scalar",
    "ValueError": "scalar", "TypeError": "scalar", "RuntimeError": "scalar", "NotImplementedError": "scalar",
    "ZeroDivisionError": "scalar", "Warning": "scalar", "Exception": "scalar",
    "has_cuda_and_cupy": "false", "has_rtx": "false", "is_cupy_array": "false", "is_cupy_backed": "false",
    "is_dask_cupy": "false", "_has_cupy": "false", "_has_cuda": "false",
})
# results of these are certainly arrays / lists with at least one axis: indexing *with* them copies
ISARR = {"np.argsort", "np.lexsort", "np.nonzero", "np.flatnonzero", "np.argwhere", "np.where", "np.arange",
         "np.linspace", "np.zeros", "np.empty", "np.ones", "np.full", "np.isfinite", "np.isnan", "np.isinf",
         "np.logical_or", "np.logical_and", "np.logical_not", "np.random.permutation", "np.unique"}

# methods by name (receiver = argument 0).  Same classes; `wself` writes the receiver,
# `wself_join` writes the receiver which afterwards may hold the arguments (list.append …),
# `warg0` writes argument 1 (generator.shuffle(x))
METHODS = {}
for _n in """copy flatten min max sum mean std var prod item any all tolist round clip cumsum cumprod argsort
argmax argmin nonzero compute persist to_delayed map_blocks map_overlap format lower upper replace split strip
join issubset issuperset count index isin unique dot repeat take compress searchsorted tobytes
startswith endswith nanmean ptp conj trace choose diagonal_copy tostring dump dumps isnull notnull fillna
dropna to_numpy_copy median quantile rank cumulative rolling coarsen groupby to_dataframe
rechunk points raster line polygons iterrows equals identical broadcast_equals""".split():
    METHODS[_n] = "alloc"
for _n in """view transpose swapaxes squeeze sel isel get values items keys rename set_index reset_index
drop drop_vars assign_coords assign_attrs expand_dims stack unstack chunk unify_chunks pipe to_numpy
as_numpy to_index to_masked_array byteswap newbyteorder diagonal real imag flat getfield filled
loc iloc head tail where_view __getitem__ most_common elements to_dataset to_pandas to_series to_array
to_dataarray""".split():
    METHODS[_n] = "view"
for _n in "reshape ravel astype_nocopy".split():
    METHODS[_n] = "mview"
for _n in "sort fill resize put itemset setflags partition setfield clear reverse".split():
    METHODS[_n] = "wself"
for _n in "append extend insert add update setdefault".split():
    METHODS[_n] = "wself_join"
for _n in "pop remove discard popitem".split():
    METHODS[_n] = "wself"
METHODS["shuffle"] = "warg0"
METHODS["seed"] = "scalar"
METHODS["where"] = "alloc"
METHODS["astype"] = "astype"

# ---------------------------------------------------------------------------------------------------
# wrapper level: a raster object has three components -- cells (`data`), the memory of its non-index
# coordinate variables (`coords`) and its attrs dict (`attrs`).  Every xarray constructor / copy primitive is a
# row (data, coords, attrs) of modes:
#   fresh    built anew (the source, if any, is only read)
#   deep     a copy of the source component in memory of its own
#   shallow  the source component itself (shared memory)
#   maybe    shared or copied, decided at run time
# The table is emitted into Gen/BufProgs.lean (`primTable`) and every row is probed on the real xarray by
# harness/corr_C10.py on every run.
WPRIMS = {
    "DataArray": ("shallow", "deep", "deep"),             # xr.DataArray(data, coords=…, dims=…, attrs=…)
    "copy(deep)": ("deep", "deep", "deep"),               # x.copy() / x.copy(deep=True) / copy.deepcopy(x)
    "copy(shallow)": ("shallow", "shallow", "deep"),      # x.copy(deep=False) / copy.copy(x)
    "copy(deep,data)": ("shallow", "deep", "deep"),       # x.copy(deep=True, data=a)
    "copy(shallow,data)": ("shallow", "shallow", "deep"),  # x.copy(deep=False, data=a)
    "copy(?)": ("maybe", "maybe", "deep"),                # x.copy(deep=<not a literal>)
    "astype": ("deep", "shallow", "deep"),                # x.astype(t)
    "astype(nocopy)": ("maybe", "shallow", "deep"),       # x.astype(t, copy=False)
    "arith": ("fresh", "shallow", "deep"),                # x * 2, -x, x > 0, np.sqrt(x), x.where(c), x.clip(…), x.max()
    "viewlike": ("maybe", "maybe", "maybe"),              # x.T, x.isel(…), x.rename(…), x.assign_coords(…), x.to_dataset():
    #                                                       the same Variable object (attrs dict included) or a view of it
    "like": ("fresh", "deep", "deep"),                    # xr.zeros_like(x) …
    "opaque": ("shallow", "shallow", "shallow"),          # a value the translator knows nothing about: any component
    #                                                       may be any part of what it was made from
}
MODE_LEAN = {"fresh": ".fresh", "deep": ".deep", "shallow": ".shallow", "maybe": ".maybe"}
# xarray methods by name (receiver not known to be a bare ndarray)
XMETHODS = {}
for _n in """where clip round fillna isnull notnull cumsum cumprod rank min max sum mean std var prod median quantile
count argmin argmax idxmin idxmax interp interp_like reindex reindex_like ffill bfill dot
searchsorted argsort all any dropna isin combine_first cumulative_integrate differentiate integrate drop_duplicates
drop_attrs""".split():
    XMETHODS[_n] = "arith"
for _n in """transpose squeeze isel sel rename set_index reset_index drop drop_vars drop_sel drop_isel assign_coords
assign_attrs expand_dims stack unstack chunk unify_chunks compute persist load to_dataset to_array to_dataarray head tail
thin swap_dims reset_coords set_coords pipe as_numpy sortby broadcast_like diff shift roll conj conjugate pad query
drop_encoding reset_encoding drop_indexes reorder_levels set_xindex""".split():
    XMETHODS[_n] = "viewlike"
# numpy functions that hand a DataArray back when they are given one (ufuncs and functions that dispatch to the
# method of the same name); probed by harness/corr_C10.py
NP_XR = set("""abs absolute add all amax amin any arccos arcsin arctan arctan2 argsort around cbrt ceil clip cos cosh
cumprod cumsum deg2rad degrees divide exp expm1 fabs floor floor_divide fmax fmin hypot isfinite isinf isnan log log10
log1p log2 logical_and logical_not logical_or logical_xor max maximum mean min minimum mod multiply negative nonzero
power prod rad2deg radians reciprocal rint round sign sin sinh sqrt square std subtract sum tan tanh true_divide trunc
var imag real array_split flip hsplit rollaxis split squeeze vsplit transpose swapaxes moveaxis ptp argmin argmax
fliplr flipud rot90 expand_dims""".split())
# attributes of a DataArray that are the same object seen differently
XATTR_SAME = {"T", "real", "imag", "loc", "iloc", "flat", "variable", "str", "dt"}

# attributes: which hold no array (scalar), which expose the receiver's memory (view)
ATTR_SCALAR = {"shape", "ndim", "size", "dtype", "dims", "name", "chunks", "nbytes", "itemsize", "strides",
               "flags", "sizes", "chunksizes", "type", "kind", "__name__"}
MODULE_ALIASES = {"numpy": "np", "dask.array": "da", "xarray": "xr", "pandas": "pd", "numba": "nb",
                  "datashader": "ds", "datashader.transfer_functions": "tf", "dask.dataframe": "dd",
                  "cupy": "cupy", "math": "math", "cmath": "cmath", "copy": "copy", "warnings": "warnings",
                  "re": "re"}
NP_SCALAR_ATTRS = {"nan", "inf", "pi", "e", "newaxis", "float32", "float64", "int8", "int16", "int32", "int64",
                   "uint8", "uint16", "uint32", "uint64", "bool_", "integer", "floating", "ndarray", "number"}
SCALAR_CALLS = {"len", "int", "float", "str", "bool", "isinstance", "issubclass", "range", "prange", "type",
                "hasattr", "callable", "any", "all"}
SCALAR_ANN = {"int", "float", "str", "bool"}


# ---------------------------------------------------------------------------------------------------
# modules of /repo
class Module:
    def __init__(self, name, tree):
        self.name = name
        self.tree = tree
        self.funcs = {}        # top-level defs
        self.aliases = {}      # local name -> external dotted prefix ("np", "xr.DataArray", "partial", …)
        self.imported = {}     # local name -> (module name, function name) inside xrspatial
        self.consts = {}       # module-level assignments: name -> ast expression
        for st in tree.body:
            self._top(st)

    def _top(self, st):
        if isinstance(st, ast.FunctionDef):
            self.funcs[st.name] = st
        elif isinstance(st, ast.Import):
            for a in st.names:
                self.aliases[a.asname or a.name.split(".")[0]] = MODULE_ALIASES.get(a.name, a.name)
        elif isinstance(st, ast.ImportFrom):
            mod = st.module or ""
            for a in st.names:
                local = a.asname or a.name
                if mod == "xrspatial" and st.level == 0:
                    self.imported[local] = ("*", a.name)
                elif mod.startswith("xrspatial.") or st.level > 0:
                    self.imported[local] = (mod.split(".")[-1], a.name)
                elif mod in ("xarray",):
                    self.aliases[local] = "xr." + a.name
                elif mod in ("numba",):
                    self.aliases[local] = a.name if a.name in ("prange",) else "nb." + a.name
                elif mod in ("functools", "math", "collections", "dask", "typing", "datashader.colors"):
                    self.aliases[local] = a.name
                else:
                    self.aliases[local] = MODULE_ALIASES.get(mod, mod) + "." + a.name
        elif isinstance(st, ast.Assign) and len(st.targets) == 1 and isinstance(st.targets[0], ast.Name):
            self.consts[st.targets[0].id] = st.value
        elif isinstance(st, ast.ClassDef):
            self.consts[st.name] = ast.Constant(0)      # enums / plain classes: no array inside
        elif isinstance(st, ast.Try):
            for s in st.body:
                if not (isinstance(s, ast.Import) and any(a.name == "cupy" for a in s.names)):
                    self._top(s)
            self.aliases.setdefault("cupy", "cupy")


def load_modules(repo):
    mods = {}
    for m in MODULES:
        p = os.path.join(repo, "xrspatial", MODULE_PATHS.get(m, m + ".py"))
        if os.path.exists(p):
            mods[m] = Module(m, ast.parse(open(p).read()))
    return mods


def dotted(node):
    """np.random.seed -> 'np.random.seed' (names only)"""
    parts = []
    while isinstance(node, ast.Attribute):
        parts.append(node.attr)
        node = node.value
    if isinstance(node, ast.Name):
        parts.append(node.id)
        return ".".join(reversed(parts))
    return None


def terminates(stmts):
    if not stmts:
        return False
    last = stmts[-1]
    if isinstance(last, (ast.Return, ast.Raise, ast.Break, ast.Continue)):
        return True
    if isinstance(last, ast.If):
        return terminates(last.body) and terminates(last.orelse)
    return False


def positional_index(sl):
    """is the index of `x[sl] = …` syntactically an array position (ints, slices, Ellipsis, None, masks, arithmetic),
    as opposed to something that may name a coordinate / variable of an xarray object (a string, a name, a call)"""
    if isinstance(sl, (ast.Tuple, ast.Slice)):
        return True
    if isinstance(sl, ast.Constant):
        return not isinstance(sl.value, str)
    if isinstance(sl, ast.UnaryOp):
        return positional_index(sl.operand)
    if isinstance(sl, (ast.Compare, ast.BinOp, ast.BoolOp, ast.List, ast.ListComp)):
        return True
    return False


def only_raises(stmts):
    return bool(stmts) and isinstance(stmts[-1], ast.Raise)


# ---------------------------------------------------------------------------------------------------
# which local names of a function only ever hold scalars (no array, no container of arrays)
class ScalarNames:
    """greatest fixpoint: a name is scalar iff every binding site binds an obviously-scalar expression"""

    def __init__(self, tr, module, func, scalar_params, outer):
        self.tr, self.module, self.outer = tr, module, outer
        self.sites = {}           # name -> list of ('expr', node) | ('elem', node) | ('no',)
        self.store_sites = {}     # name -> what is stored *into* it (x[i] = v, x.append(v)); only counts for locals
        self.funcnames = set()
        for a in func.args.args + func.args.kwonlyargs:
            self.sites.setdefault(a.arg, []).append(("yes",) if a.arg in scalar_params else ("no",))
        for a in (func.args.vararg, func.args.kwarg):
            if a is not None:
                self.sites.setdefault(a.arg, []).append(("no",))
        body = func.body if isinstance(func, ast.FunctionDef) else [ast.Expr(func.body)]
        for st in body:
            self.collect(st)
        for n, ss in self.store_sites.items():
            if n in self.sites:          # a name captured from an enclosing scope is not made local by a store
                self.sites[n].extend(ss)
        self.S = set(self.sites)
        changed = True
        while changed:
            changed = False
            for n in list(self.S):
                if not all(self.site_scalar(s) for s in self.sites[n]):
                    self.S.discard(n)
                    changed = True

    def bind(self, target, kind, node):
        if isinstance(target, ast.Name):
            self.sites.setdefault(target.id, []).append((kind, node))
        elif isinstance(target, (ast.Tuple, ast.List)):
            if kind == "expr" and isinstance(node, (ast.Tuple, ast.List)) and len(node.elts) == len(target.elts):
                for t, v in zip(target.elts, node.elts):
                    self.bind(t, "expr", v)
            elif kind == "elem" and isinstance(node, ast.Call) and dotted(node.func) == "enumerate" \
                    and len(target.elts) == 2 and node.args:
                self.bind(target.elts[0], "yes", None)
                self.bind(target.elts[1], "elem", node.args[0])
            elif kind == "elem" and isinstance(node, ast.Call) and dotted(node.func) == "zip" \
                    and len(target.elts) == len(node.args):
                for t, v in zip(target.elts, node.args):
                    self.bind(t, "elem", v)
            else:
                for t in target.elts:
                    self.bind(t, "part" if kind != "yes" else "yes", (kind, node))
        elif isinstance(target, ast.Starred):
            self.bind(target.value, "no", None)

    def collect(self, st):
        if isinstance(st, (ast.FunctionDef, ast.Lambda, ast.ClassDef)):
            if isinstance(st, ast.FunctionDef):
                self.funcnames.add(st.name)
            return
        if isinstance(st, ast.Assign):
            for t in st.targets:
                self.bind(t, "expr", st.value)
        elif isinstance(st, ast.AnnAssign) and st.value is not None:
            self.bind(st.target, "expr", st.value)
        elif isinstance(st, ast.AugAssign):
            if isinstance(st.target, ast.Name):
                self.bind(st.target, "expr", st.value)
        elif isinstance(st, (ast.For,)):
            self.bind(st.target, "elem", st.iter)
        elif isinstance(st, ast.With):
            for it in st.items:
                if it.optional_vars is not None:
                    self.bind(it.optional_vars, "no", None)
        elif isinstance(st, ast.Try):
            for h in st.handlers:
                if h.name:
                    self.sites.setdefault(h.name, []).append(("yes",))
        # storing into a container is a binding site of the container's name
        if isinstance(st, (ast.Assign, ast.AugAssign)):
            for t in (st.targets if isinstance(st, ast.Assign) else [st.target]):
                b = t
                while isinstance(b, (ast.Subscript, ast.Attribute)):
                    b = b.value
                if b is not t and isinstance(b, ast.Name):
                    self.store_sites.setdefault(b.id, []).append(("expr", st.value))
        if isinstance(st, ast.Call) and isinstance(st.func, ast.Attribute) \
                and METHODS.get(st.func.attr) in ("wself_join",):
            b = st.func.value
            while isinstance(b, (ast.Subscript, ast.Attribute)):
                b = b.value
            if isinstance(b, ast.Name) and b.id not in self.module.aliases:
                for a in list(st.args) + [k.value for k in st.keywords]:
                    self.store_sites.setdefault(b.id, []).append(("expr", a))
        for n in ast.iter_child_nodes(st):
            if isinstance(n, (ast.ListComp, ast.SetComp, ast.GeneratorExp, ast.DictComp)):
                for g in n.generators:
                    self.bind(g.target, "elem", g.iter)
            if isinstance(n, ast.NamedExpr):
                self.bind(n.target, "expr", n.value)
            self.collect(n)

    def site_scalar(self, s):
        if s[0] == "yes":
            return True
        if s[0] == "no":
            return False
        if s[0] == "expr":
            return self.scalar(s[1])
        if s[0] == "elem":
            return self.elem_scalar(s[1])
        if s[0] == "part":
            kind, node = s[1]
            return self.scalar(node) if kind == "expr" else (self.elem_scalar(node) if kind == "elem" else False)
        return False

    def elem_scalar(self, it):
        """are the elements produced by iterating `it` scalars"""
        if isinstance(it, ast.Call) and dotted(it.func) in ("range", "prange", "nb.prange"):
            return True
        if isinstance(it, ast.Call) and dotted(it.func) in ("enumerate", "zip", "reversed", "sorted", "list", "tuple"):
            return all(self.elem_scalar(a) for a in it.args)
        return self.scalar(it)

    def name_scalar(self, n):
        if n in self.sites:
            return n in self.S
        if n in self.funcnames:
            return False
        if self.outer is not None:
            return self.outer(n)
        return self.tr.global_scalar(self.module, n)

    def scalar(self, e):
        if e is None or isinstance(e, (ast.Constant, ast.JoinedStr, ast.Slice)) :
            if isinstance(e, ast.Slice):
                return all(self.scalar(x) for x in (e.lower, e.upper, e.step))
            return True
        if isinstance(e, ast.Name):
            return self.name_scalar(e.id)
        if isinstance(e, ast.UnaryOp):
            return self.scalar(e.operand)
        if isinstance(e, ast.BinOp):
            return self.scalar(e.left) and self.scalar(e.right)
        if isinstance(e, ast.BoolOp):
            return all(self.scalar(v) for v in e.values)
        if isinstance(e, ast.Compare):
            return self.scalar(e.left) and all(self.scalar(c) for c in e.comparators)
        if isinstance(e, ast.IfExp):
            return self.scalar(e.body) and self.scalar(e.orelse)
        if isinstance(e, (ast.Tuple, ast.List, ast.Set)):
            return all(self.scalar(x) for x in e.elts)
        if isinstance(e, ast.Dict):
            return all(self.scalar(x) for x in e.keys if x is not None) and all(self.scalar(x) for x in e.values)
        if isinstance(e, ast.Attribute):
            if e.attr in ATTR_SCALAR:
                return True
            d = dotted(e)
            if d is not None:
                head = d.split(".")[0]
                ext = self.module.aliases.get(head)
                if ext in ("np", "math", "cupy") and d.split(".")[-1] in NP_SCALAR_ATTRS and head not in self.sites:
                    return True
            return self.scalar(e.value)
        if isinstance(e, ast.Subscript):
            return self.scalar(e.value) and self.scalar(e.slice)
        if isinstance(e, (ast.ListComp, ast.SetComp, ast.GeneratorExp)):
            return self.scalar(e.elt) and all(self.scalar(c) for g in e.generators for c in g.ifs)
        if isinstance(e, ast.Call):
            d = dotted(e.func)
            ext = self.tr.ext_name(self.module, d) if d else None
            if d in self.sites or (d and d.split(".")[0] in self.sites):
                # a method of a local scalar (str.format, …) is scalar when every argument is
                if isinstance(e.func, ast.Attribute) and self.scalar(e.func.value):
                    return all(self.scalar(a) for a in e.args) and all(self.scalar(k.value) for k in e.keywords)
                return False
            if ext in SCALAR_CALLS:
                return True
            if ext is not None and PRIMS.get(ext) in ("alloc", "scalar", "join"):
                if ext.startswith("np.") and ext[3:] not in NP_SCALAR_OK:
                    return False
                return all(self.scalar(a) for a in e.args) and all(self.scalar(k.value) for k in e.keywords)
            if isinstance(e.func, ast.Attribute) and self.scalar(e.func.value) \
                    and METHODS.get(e.func.attr) in ("alloc", "view", "scalar", None) and ext is None \
                    and e.func.attr not in ("append", "extend"):
                return all(self.scalar(a) for a in e.args) and all(self.scalar(k.value) for k in e.keywords)
            return False
        return False


# ---------------------------------------------------------------------------------------------------
class FuncRef:
    def __init__(self, kind, module=None, node=None, scope=None, name=None, inner=None, args=(), kwargs=None):
        self.kind = kind          # 'def' | 'lambda' | 'partial' | 'ext' | 'vectorized'
        self.module, self.node, self.scope, self.name = module, node, scope, name
        self.inner, self.args, self.kwargs = inner, list(args), dict(kwargs or {})


class Scope:
    def __init__(self, module, parent=None, label=""):
        self.module = module
        self.parent = parent
        self.label = label
        self.vars = {}       # name -> DSL variable id
        self.special = {}    # name -> Value that is not a buffer (function, module, tuple, mapper)
        self.scalars = None  # ScalarNames
        self.ret_vars = None
        self.ret_val = None
        self.in_loop = 0


class Translator:
    """abstract interpreter: Python source -> buffer program of one public function"""
    MAX_DEPTH = 14

    def __init__(self, mods):
        self.mods = mods
        self.reset()

    def reset(self):
        self.nvars = 0
        self.names = []        # debug name of every DSL variable
        self.kind = {}         # var -> 'pyc' (python container holding references)
        self.isarr = set()     # vars that certainly hold an array / list (indexing with them copies)
        self.loop_exits = []   # per enclosing loop: flag snapshots at break / continue
        self.cont = set()      # vars that are a python container object created here (list / dict / set)
        self.oned = set()      # vars that certainly hold a 1-D array (ravel / flatten): x[i] is a scalar
        self.elems = {}        # container var -> var standing for what its elements may refer to
        self.fields = {}       # (elements var, constant key) -> var: entries stored under a literal key.
        #                        Assumption (documented): a load with a *computed* key never hits an entry that was
        #                        stored under a *literal string* key of the same dict.
        self.sameobj = {}      # var -> index of the input object it *is* (plain name / parameter passing)
        self.objs = {}         # var -> (coords slot, attrs slot): variables that may hold a raster object; the
        #                        variable itself stands for the cells.  May-set, only grows.
        self.slotvars = set()  # the slot variables: they hold bare memory, never an object
        self.nda = set()       # must-flag: vars that certainly hold a bare ndarray / python value, not an xarray object
        self.wused = set()     # rows of WPRIMS used by this entry
        self.blocks = [[]]
        self.stack = []        # FunctionDef nodes being inlined
        self.unclassified = set()
        self.unknowns = []
        self.rebinds = []      # (input parameter, attribute, source text)
        self.inlined = set()
        self.used = set()      # primitives of the table applied to an array (for the run-time probes)
        self.guards = []       # (module name, source text) of the branch conditions the current statement sits under
        self.inlined_nodes = []  # (Module, FunctionDef) of everything inlined (for the source hints)

    # ---- emission
    def new(self, name):
        self.names.append(name)
        self.nvars += 1
        return self.nvars - 1

    def emit(self, *op):
        if op[0] == "write" and len(op) == 2:
            op = op + (tuple(self.guards),)       # diagnostics only: the Lean emitter reads op[1]
        self.blocks[-1].append(tuple(op))

    def push(self):
        self.blocks.append([])

    def pop(self):
        return self.blocks.pop()

    def unknown(self, why):
        self.unknowns.append(why)
        self.emit("unknown", why)

    def weak_view(self, d, s):
        if d != s:
            self.emit("ite", [("view", d, s)], [])

    # ---- values
    def vars_of(self, v):
        """DSL variables a value may hold references to"""
        if v[0] == "var":
            if v[1] in self.elems:
                e = self.elems[v[1]]
                return [v[1], e] + [f for (ee, _), f in self.fields.items() if ee == e]
            if v[1] in self.objs:
                return [v[1]] + list(self.objs[v[1]])
            return [v[1]]
        if v[0] == "tup":
            return [x for e in v[1] for x in self.vars_of(e)]
        if v[0] == "fn" and v[1].kind == "partial":
            return [x for a in list(v[1].args) + list(v[1].kwargs.values()) for x in self.vars_of(a)]
        return []

    def join_into(self, d, vals, weak_first=False):
        srcs = []
        for v in vals:
            for x in self.vars_of(v):
                if x not in srcs:
                    srcs.append(x)
        if not srcs:
            if not weak_first:
                self.emit("alloc", d)
            return
        for i, s in enumerate(srcs):
            if i == 0 and not weak_first:
                self.emit("view", d, s)
            else:
                self.weak_view(d, s)
        if any(self.kind.get(s) == "pyc" for s in srcs):
            self.kind[d] = "pyc"

    def temp_join(self, vals, name="t"):
        srcs = [x for v in vals for x in self.vars_of(v)]
        if not srcs:
            return SC
        if len(set(srcs)) == 1:
            return ("var", srcs[0])
        t = self.new(name)
        self.join_into(t, vals)
        return ("var", t)

    def fresh(self, name="t", pyc=False, isarr=False):
        t = self.new(name)
        self.emit("alloc", t)
        self.nda.add(t)
        if pyc:
            self.kind[t] = "pyc"
        if isarr:
            self.isarr.add(t)
        return ("var", t)

    def flags(self):
        return (set(self.isarr), set(self.oned), dict(self.sameobj), set(self.nda))

    def set_flags(self, f):
        self.isarr, self.oned, self.sameobj, self.nda = set(f[0]), set(f[1]), dict(f[2]), set(f[3])

    @staticmethod
    def flags_join(a, b):
        """must-flags (isarr, oned, nda) hold after a join only if they hold on both paths; `sameobj` (may) on either"""
        so = dict(b[2])
        so.update(a[2])
        return (a[0] & b[0], a[1] & b[1], so, a[3] & b[3])

    # ---- wrapper level
    def comps_of(self, v):
        """the (coords, attrs) slot variables of `v`, created on first use"""
        if v not in self.objs:
            c = self.new(self.names[v] + ".coords")
            a = self.new(self.names[v] + ".attrs")
            self.objs[v] = (c, a)
            self.slotvars.update((c, a))
        return self.objs[v]

    def comp(self, v, which):
        """the variable standing for component `which` (0 coords, 1 attrs) of `v`; an opaque value is its own
        component"""
        return self.objs[v][which] if v in self.objs else v

    def is_nda(self, v):
        return v in self.nda or v in self.slotvars or v in self.cont

    def xr_operands(self, vals):
        """the variables among `vals` that may hold an xarray object"""
        out = []
        for v in vals:
            if v[0] == "star":
                v = v[1]
            if v[0] == "var" and not self.is_nda(v[1]) and v[1] not in out:
                out.append(v[1])
        return out

    def join_vars(self, srcs, name):
        """one variable that may point to whatever any of `srcs` points to (None when there is none)"""
        srcs = list(dict.fromkeys(srcs))
        if not srcs:
            return None
        if len(srcs) == 1:
            return srcs[0]
        t = self.new(name)
        for i, x in enumerate(srcs):
            if i == 0:
                self.emit("view", t, x)
            else:
                self.weak_view(t, x)
        return t

    def build(self, prim, name, sd, sc, sa):
        """a new object made by the wrapper primitive `prim` from the sources (variables or None)"""
        t = self.new(name)
        c, a = self.comps_of(t)
        self.emit("build", prim, (t, c, a), (sd, sc, sa))
        self.wused.add(prim)
        return ("var", t)

    def build_from(self, prim, name, operands, data_src="first"):
        """`prim` applied to the objects `operands`: coords / attrs come from all of them, cells from the first"""
        sc = self.join_vars([self.comp(x, 0) for x in operands], name + ".c")
        sa = self.join_vars([self.comp(x, 1) for x in operands], name + ".a")
        sd = operands[0] if data_src == "first" and operands else data_src if isinstance(data_src, int) else None
        return self.build(prim, name, sd, sc, sa)

    def opaque(self, t):
        """`t` holds a value the translator knows nothing about: every component of it is `t` itself"""
        if t in self.objs:
            c, a = self.objs[t]
            self.emit("view", c, t)
            self.emit("view", a, t)
        self.nda.discard(t)

    def elems_of(self, c):
        if c not in self.elems:
            self.elems[c] = self.new(self.names[c] + "[]")
        return self.elems[c]

    def mk_container(self, vals, name):
        """a new python container holding references to `vals`"""
        t = self.new(name)
        self.emit("alloc", t)
        self.kind[t] = "pyc"
        self.cont.add(t)
        self.isarr.add(t)
        if any(self.vars_of(v) for v in vals):
            self.join_into(self.elems_of(t), vals)
        return ("var", t)

    def alias(self, d, s, plain=False):
        """d = s; `plain`: by name / parameter passing, i.e. d is the very same object"""
        if d == s:
            return
        self.emit("view", d, s)
        # wrapper level: the components follow the object
        if s in self.objs:
            sc, sa = self.objs[s]
            dc, da = self.comps_of(d)
            self.emit("view", dc, sc)
            self.emit("view", da, sa)
        elif d in self.objs:
            dc, da = self.objs[d]
            if self.is_nda(s):
                self.emit("alloc", dc)
                self.emit("alloc", da)
            else:
                self.emit("view", dc, s)
                self.emit("view", da, s)
        if self.is_nda(s):
            self.nda.add(d)
        else:
            self.nda.discard(d)
        if self.kind.get(s) == "pyc":
            self.kind[d] = "pyc"
        if s in self.cont:
            self.cont.add(d)
            es = self.elems_of(s)
            if d not in self.elems:
                self.elems[d] = es
            elif self.elems[d] != es:
                self.weak_view(self.elems[d], es)
                self.weak_view(es, self.elems[d])
        elif d in self.cont:
            # d was a container on another path and is now something opaque: its elements may be s
            self.weak_view(self.elems_of(d), s)
        # must-flags are flow sensitive: strong update here, intersection at joins (see flags_join)
        if s in self.isarr:
            self.isarr.add(d)
        else:
            self.isarr.discard(d)
        if s in self.oned:
            self.oned.add(d)
        else:
            self.oned.discard(d)
        if plain and s in self.sameobj:
            self.sameobj[d] = self.sameobj[s]
        else:
            self.sameobj.pop(d, None)

    def load_elem(self, v):
        """what iterating / indexing a value yields"""
        if v == SC or v[0] in ("ext", "glob", "globitem", "fn", "mapper"):
            return SC
        if v[0] == "tup":
            return self.temp_join([v], "elt")
        c = v[1]
        if c in self.cont:
            e = self.elems_of(c)
            fs = [f for (ee, _), f in self.fields.items() if ee == e]
            if not fs:
                return ("var", e)
            t = self.new(self.names[c] + "[*]")
            self.join_into(t, [("var", x) for x in [e] + fs])
            return ("var", t)
        return v

    def const_key(self, scope, idx):
        if isinstance(idx, ast.Constant) and isinstance(idx.value, str):
            return repr(idx.value)
        if isinstance(idx, ast.Name) and idx.id not in getattr(scope.scalars, "sites", {}) \
                and idx.id in scope.module.consts and isinstance(scope.module.consts[idx.id], ast.Constant) \
                and isinstance(scope.module.consts[idx.id].value, str):
            return repr(scope.module.consts[idx.id].value)
        return None

    def field_of(self, c, key):
        e = self.elems_of(c)
        if (e, key) not in self.fields:
            self.fields[(e, key)] = self.new(f"{self.names[c]}[{key}]")
        return self.fields[(e, key)]

    # ---- names
    def global_scalar(self, module, n):
        if n in module.consts:
            e = module.consts[n]
            return isinstance(e, ast.Constant) or (isinstance(e, (ast.BinOp, ast.UnaryOp)) and all(
                isinstance(x, (ast.Constant, ast.Name, ast.Attribute, ast.BinOp, ast.UnaryOp, ast.operator,
                               ast.unaryop, ast.expr_context)) for x in ast.walk(e)))
        if n in ("True", "False", "None"):
            return True
        return False

    def ext_name(self, module, d):
        """dotted local name -> canonical external name ('np.zeros', 'len', …) or None"""
        if d is None:
            return None
        parts = d.split(".")
        head = parts[0]
        if head in module.funcs or head in module.imported:
            return None
        if head in module.aliases:
            return ".".join([module.aliases[head]] + parts[1:])
        if len(parts) == 1 and (head in PRIMS or head in __builtins_names__):
            return head
        return None

    def lookup(self, scope, name):
        sc = scope
        while sc is not None:
            if sc.scalars is not None and name in sc.scalars.sites and name in sc.scalars.S:
                return SC
            if name in sc.special:
                return sc.special[name]
            if name in sc.vars:
                return ("var", sc.vars[name])
            if sc.scalars is not None and name in sc.scalars.sites:
                # assigned somewhere in this function but not yet on this path
                return ("var", self.var_of(sc, name))
            sc = sc.parent
        m = scope.module
        if name in m.funcs:
            return ("fn", FuncRef("def", module=m, node=m.funcs[name], name=name))
        if name in m.imported:
            mn, fn = m.imported[name]
            if mn == "*":
                mn = next((k for k, mm in self.mods.items() if fn in mm.funcs), "*")
            if mn in self.mods and fn in self.mods[mn].funcs:
                mm = self.mods[mn]
                return ("fn", FuncRef("def", module=mm, node=mm.funcs[fn], name=fn))
            return ("ext", "xrspatial." + mn + "." + fn)
        if name in m.aliases:
            return ("ext", m.aliases[name])
        if name in m.consts:
            if self.global_scalar(m, name):
                return SC
            return ("glob", name)
        if name in ("True", "False", "None") or name in __builtins_names__ or name in PRIMS:
            return ("ext", name)
        raise Unsupported(f"unbound name {name}")

    def var_of(self, scope, name):
        if name not in scope.vars:
            scope.vars[name] = self.new(f"{scope.label}.{name}")
        return scope.vars[name]


__builtins_names__ = {"len", "int", "float", "str", "bool", "abs", "min", "max", "sum", "round", "range", "tuple",
                      "list", "dict", "set", "sorted", "reversed", "zip", "enumerate", "iter", "map", "filter",
                      "next", "isinstance", "issubclass", "type", "print", "repr", "any", "all", "getattr",
                      "hasattr", "divmod", "pow", "ValueError", "TypeError", "RuntimeError", "KeyError",
                      "IndexError", "NotImplementedError", "ZeroDivisionError", "Warning", "Exception",
                      "frozenset", "callable", "hash", "id", "object", "slice", "Ellipsis"}


class Eval(Translator):
    # ------------------------------------------------------------------------------- expressions
    def root(self, scope, e):
        """the variable through which a store `e[...] = …` / `e.attr = …` / `e += …` writes"""
        v = self.eval(scope, e)
        return v

    def is_mask(self, scope, idx):
        """index expression that certainly selects by boolean mask / integer array (advanced indexing)"""
        if isinstance(idx, ast.Compare):
            return not scope.scalars.scalar(idx)
        if isinstance(idx, ast.BinOp) and isinstance(idx.op, (ast.BitAnd, ast.BitOr, ast.BitXor)):
            return self.is_mask(scope, idx.left) or self.is_mask(scope, idx.right)
        if isinstance(idx, ast.UnaryOp) and isinstance(idx.op, ast.Invert):
            return self.is_mask(scope, idx.operand)
        if isinstance(idx, ast.Call):
            ext = self.ext_name(scope.module, dotted(idx.func))
            if ext is None and isinstance(idx.func, ast.Attribute):
                base = self.static_module(scope, idx.func.value)
                if base:
                    ext = base + "." + idx.func.attr
            return ext in ISARR and not scope.scalars.scalar(idx)
        if isinstance(idx, (ast.List, ast.ListComp)):
            return True
        if isinstance(idx, ast.Name):
            v = self.lookup(scope, idx.id)
            return v[0] == "var" and v[1] in self.isarr
        return False

    def static_module(self, scope, e):
        """`module.arange` where `module` is a parameter bound to numpy"""
        if isinstance(e, ast.Name):
            try:
                v = self.lookup(scope, e.id)
            except Unsupported:
                return None
            if v[0] == "ext" and v[1] in ("np", "da", "cupy", "xr", "math"):
                return v[1]
        return None

    def eval(self, scope, e):
        v = self.eval0(scope, e)
        if isinstance(e, (ast.UnaryOp, ast.BinOp, ast.Compare)) :
            return v
        return v

    def eval0(self, scope, e):
        if e is None or isinstance(e, (ast.Constant, ast.JoinedStr)):
            if isinstance(e, ast.JoinedStr):
                for v in e.values:
                    if isinstance(v, ast.FormattedValue):
                        self.eval(scope, v.value)
            return SC
        if isinstance(e, ast.Name):
            return self.lookup(scope, e.id)
        if isinstance(e, ast.Slice):
            for x in (e.lower, e.upper, e.step):
                self.eval(scope, x)
            return SC
        if isinstance(e, ast.Starred):
            return self.eval(scope, e.value)
        if isinstance(e, (ast.UnaryOp,)):
            v = self.eval(scope, e.operand)
            if not self.vars_of(v):
                return SC
            xs = self.xr_operands([v])
            if xs:      # arithmetic on a raster object: new cells, the operand's coordinates
                r = self.build_from("arith", "un", xs, data_src=None)
                if isinstance(e.op, ast.Invert) and self.is_mask(scope, e):
                    self.isarr.add(r[1])
                return r
            return self.fresh("un", isarr=isinstance(e.op, ast.Invert) and self.is_mask(scope, e))
        if isinstance(e, ast.BinOp):
            a, b = self.eval(scope, e.left), self.eval(scope, e.right)
            if not self.vars_of(a) and not self.vars_of(b):
                return SC
            xs = self.xr_operands([a, b])
            if xs:
                return self.build_from("arith", "bin", xs, data_src=None)
            return self.fresh("bin")
        if isinstance(e, ast.Compare):
            vs = [self.eval(scope, e.left)] + [self.eval(scope, c) for c in e.comparators]
            if not any(self.vars_of(v) for v in vs) or all(isinstance(o, (ast.Is, ast.IsNot, ast.In, ast.NotIn)) for o in e.ops):
                return SC
            xs = self.xr_operands(vs)
            if xs:
                return self.build_from("arith", "cmp", xs, data_src=None)
            return self.fresh("cmp")
        if isinstance(e, ast.BoolOp):
            vs = [self.eval(scope, v) for v in e.values]
            return self.temp_join(vs, "boolop")
        if isinstance(e, ast.IfExp):
            self.eval(scope, e.test)
            return self.temp_join([self.eval(scope, e.body), self.eval(scope, e.orelse)], "ifexp")
        if isinstance(e, ast.Tuple):
            return ("tup", [self.eval(scope, x) for x in e.elts])
        if isinstance(e, (ast.List, ast.Set)):
            vs = [self.eval(scope, x) for x in e.elts]
            if all(v == SC for v in vs) and scope.scalars.scalar(e):
                return SC
            return self.mk_container(vs, "list")
        if isinstance(e, ast.Dict):
            vs = [self.eval(scope, x) for x in list(e.keys) + list(e.values) if x is not None]
            if all(v == SC for v in vs) and scope.scalars.scalar(e):
                return SC
            return self.mk_container(vs, "dict")
        if isinstance(e, (ast.ListComp, ast.SetComp, ast.GeneratorExp, ast.DictComp)):
            return self.eval_comp(scope, e)
        if isinstance(e, ast.Lambda):
            return ("fn", FuncRef("lambda", module=scope.module, node=e, scope=scope, name="<lambda>"))
        if isinstance(e, ast.Attribute):
            return self.eval_attr(scope, e)
        if isinstance(e, ast.Subscript):
            return self.eval_subscript(scope, e)
        if isinstance(e, ast.Call):
            return self.eval_call(scope, e)
        if isinstance(e, ast.NamedExpr):
            v = self.eval(scope, e.value)
            self.assign(scope, e.target, v, e.value)
            return v
        raise Unsupported(f"expression {type(e).__name__}")

    def eval_comp(self, scope, e):
        all_scalar = scope.scalars.scalar(e) if not isinstance(e, ast.DictComp) else False
        t = None if all_scalar else self.mk_container([], "comp")[1]
        # iterables are evaluated outside, the element expression inside a loop
        iters = [self.eval(scope, g.iter) for g in e.generators[:1]]
        self.push()
        for gi, g in enumerate(e.generators):
            it = iters[0] if gi == 0 else self.eval(scope, g.iter)
            self.bind_elem(scope, g.target, it, g.iter)
            for c in g.ifs:
                self.eval(scope, c)
        if isinstance(e, ast.DictComp):
            vals = [self.eval(scope, e.key), self.eval(scope, e.value)]
        else:
            vals = [self.eval(scope, e.elt)]
        if t is not None and any(self.vars_of(v) for v in vals):
            self.join_into(self.elems_of(t), vals, weak_first=True)
        body = self.pop()
        if body:
            self.emit("loop", body)
        return SC if t is None else ("var", t)

    def eval_attr(self, scope, e):
        d = dotted(e)
        if d is not None:
            head = d.split(".")[0]
            try:
                hv = self.lookup(scope, head)
            except Unsupported:
                hv = None
            if hv is not None and hv[0] == "ext":
                return ("ext", ".".join([hv[1]] + d.split(".")[1:]))
        base = self.eval(scope, e.value)
        if e.attr in ATTR_SCALAR or base == SC:
            return SC
        if base[0] == "var":
            b = base[1]
            if self.is_nda(b):
                return base       # .T / .real / .flat … of a bare array: the same memory
            if e.attr in ("data", "values"):
                t = self.new(self.names[b] + "." + e.attr)       # the cells, as a bare array
                self.emit("view", t, b)
                self.nda.add(t)
                for fl in (self.isarr, self.oned):
                    if b in fl:
                        fl.add(t)
                if self.kind.get(b) == "pyc":
                    self.kind[t] = "pyc"
                return ("var", t)
            if e.attr == "attrs":
                return ("var", self.comp(b, 1))
            if e.attr in ("coords", "indexes", "xindexes", "dims_coords"):
                return ("var", self.comp(b, 0))
            if e.attr in XATTR_SAME or b not in self.objs:
                return base
            return self.temp_join([base], self.names[b] + "." + e.attr)     # .x / .lon / .encoding …: any component
        if base[0] == "tup":
            return self.temp_join([base], "attr")
        if base[0] == "glob":
            return SC
        if base[0] == "mapper" or base[0] == "fn":
            return SC
        raise Unsupported(f"attribute {e.attr} of {base[0]}")

    def eval_subscript(self, scope, e):
        base = self.eval(scope, e.value)
        idx = e.slice
        iv = self.eval(scope, idx)
        if base == SC or base[0] in ("ext",):
            return SC
        if base[0] == "glob":
            return ("globitem", base[1])
        if base[0] == "tup":
            if isinstance(idx, ast.Constant) and isinstance(idx.value, int) and -len(base[1]) <= idx.value < len(base[1]):
                return base[1][idx.value]
            return self.temp_join([base], "elt")
        if base[0] == "var":
            b = base[1]
            parts = idx.elts if isinstance(idx, ast.Tuple) else [idx]
            advanced = any(self.is_mask(scope, p) for p in parts)
            if b in self.cont:
                ck = self.const_key(scope, idx)
                if ck is not None:
                    # an entry stored under this literal key, or under a computed key that happens to equal it
                    t = self.new(self.names[b] + f"[{ck}]?")
                    self.join_into(t, [("var", self.field_of(b, ck)), ("var", self.elems_of(b))])
                    if self.field_of(b, ck) in self.cont or self.elems_of(b) in self.cont:
                        self.cont.add(t)
                        self.elems[t] = self.elems.get(self.field_of(b, ck), self.elems.get(self.elems_of(b)))
                        if self.elems[t] is None:
                            del self.elems[t]
                            self.cont.discard(t)
                    return ("var", t)
                return ("var", self.elems_of(b))
            if b in self.oned and len(parts) == 1 and not isinstance(idx, ast.Slice) and scope.scalars.scalar(idx):
                return SC            # one scalar index into a 1-D array: an element, not a view
            if b in self.objs and not self.is_nda(b) and not advanced and not isinstance(idx, (ast.Slice, ast.Tuple)) \
                    and not (isinstance(idx, ast.Constant) and isinstance(idx.value, int)) and iv == SC:
                # obj['x'] / obj[name]: a coordinate or a variable of the object looked up by name
                return self.temp_join([base], self.names[b] + "[name]")
            if advanced and self.kind.get(b) != "pyc":
                t = self.new("fancy")
                self.used.add("mask-index")
                self.emit("copy", t, b)
                self.isarr.add(t)
                return ("var", t)
            if b in self.isarr and not all(isinstance(p, ast.Slice) for p in parts):
                t = self.new("elt")          # an element of an index array is not an index array
                self.emit("view", t, b)
                if self.kind.get(b) == "pyc":
                    self.kind[t] = "pyc"
                return ("var", t)
            return base
        if base[0] == "globitem":
            return base
        raise Unsupported(f"subscript of {base[0]}")

    # ------------------------------------------------------------------------------- calls
    def call_args(self, scope, node):
        """evaluate the arguments of a call: (positional values, keyword values)"""
        args, kwargs = [], {}
        node._plain = {i: True for i, a in enumerate(node.args) if isinstance(a, ast.Name)}
        node._plain.update({k.arg: True for k in node.keywords if isinstance(k.value, ast.Name)})
        for a in node.args:
            if isinstance(a, ast.Starred):
                v = self.eval(scope, a.value)
                if v[0] == "tup":
                    args.extend(v[1])
                else:
                    args.append(("star", v))
            else:
                args.append(self.eval(scope, a))
        for k in node.keywords:
            v = self.eval(scope, k.value)
            if k.arg is None:
                kwargs["**"] = v
            else:
                kwargs[k.arg] = v
        return args, kwargs

    def conservative_call(self, what, args, kwargs):
        """unknown callee: it may write every argument and return something aliasing any of them"""
        self.unclassified.add(what)
        vals = [a[1] if a[0] == "star" else a for a in args] + list(kwargs.values())
        for x in dict.fromkeys(x for v in vals for x in self.vars_of(v)):
            self.emit("write", x)
        t = self.new("ret:" + what)
        self.join_into(t, vals)
        self.nda.discard(t)
        return ("var", t)

    def apply_prim(self, cls, what, args, kwargs, node=None):
        vals = [a[1] if a[0] == "star" else a for a in args]
        allv = vals + list(kwargs.values())
        if any(self.vars_of(v) for v in allv):
            self.used.add(what)
        if "out" in kwargs and kwargs["out"] != SC:
            for x in self.vars_of(kwargs["out"]):
                self.emit("write", x)
            return kwargs["out"]
        if cls == "scalar":
            return SC
        if cls == "false":
            return SC
        if cls == "alloc":
            if all(v == SC for v in allv) and (not what.startswith("np.") or what[3:] in NP_SCALAR_OK):
                return SC
            if what == "np.vectorize":
                return ("fn", FuncRef("vectorized", name="np.vectorize"))
            if what.startswith("np.") and what[3:] in NP_XR:
                xs = self.xr_operands(allv)
                if xs:      # a ufunc / a function dispatching to the method, applied to a raster object
                    r = self.build_from("arith", what.split(".")[-1], xs, data_src=None)
                    if what in ISARR:
                        self.isarr.add(r[1])
                    return r
            return self.fresh(what.split(".")[-1], isarr=what in ISARR)
        first = vals[0] if vals else (kwargs.get("data") or kwargs.get("a") or kwargs.get("x") or SC)
        if cls in ("copy", "view", "mview"):
            if what == "np.array" and "copy" in kwargs:
                cls = "mview"
            if first == SC:
                return SC if cls != "copy" else self.fresh(what.split(".")[-1])
            if what in ("copy.copy", "copy.deepcopy") and self.xr_operands([first]):
                return self.build_from("copy(shallow)" if what == "copy.copy" else "copy(deep)", what.split(".")[-1],
                                       self.xr_operands([first]))
            if what.startswith("np.") and first[0] == "var" and first[1] not in self.elems:
                if what[3:] in NP_XR and cls == "view" and self.xr_operands([first]):
                    return self.build_from("viewlike", what.split(".")[-1], [first[1]])
                src = first         # numpy sees the cells of a raster object only
            else:
                src = self.temp_join([first], "arg")
            if src == SC:
                return self.fresh(what.split(".")[-1])
            if cls == "view":
                return src
            t = self.new(what.split(".")[-1])
            if what.startswith("np."):
                self.nda.add(t)
            if what == "np.ravel":
                self.oned.add(t)
            self.emit("copy" if cls == "copy" else "mview", t, src[1])
            if cls == "copy" and self.kind.get(src[1]) == "pyc" and what == "copy.copy":
                self.weak_view(t, src[1])      # a shallow copy of a container still refers to the elements
                self.kind[t] = "pyc"
            return ("var", t)
        if cls == "join":
            if all(v == SC for v in allv):
                return SC
            if what in ("list", "dict", "set", "sorted", "tuple", "frozenset", "reversed"):
                return self.mk_container([self.load_elem(v) for v in allv], what)
            t = self.new(what.split(".")[-1])
            self.join_into(t, [self.load_elem(v) if what in ("min", "max", "next") else v for v in allv])
            return ("var", t)
        if cls == "write0":
            for x in self.vars_of(first):
                self.emit("write", x)
            return SC
        raise Unsupported(f"primitive class {cls}")

    def eval_call(self, scope, node):
        f = node.func
        # mapper(agg)(args…): the NumPy entry of an ArrayTypeFunctionMapping
        if isinstance(f, ast.Call):
            inner = self.eval(scope, f.func) if not isinstance(f.func, ast.Call) else None
            if inner is not None and inner[0] == "mapper":
                self.call_args(scope, f)
                args, kwargs = self.call_args(scope, node)
                return self.call_value(scope, inner[1], args, kwargs, node)
            fv = self.eval_call(scope, f)
            args, kwargs = self.call_args(scope, node)
            return self.call_value(scope, fv, args, kwargs, node)
        # method call?
        if isinstance(f, ast.Attribute):
            d = dotted(f)
            fv = None
            if d is not None:
                try:
                    hv = self.lookup(scope, d.split(".")[0])
                except Unsupported:
                    hv = None
                if hv is not None and hv[0] == "ext":
                    fv = ("ext", ".".join([hv[1]] + d.split(".")[1:]))
            if fv is None:
                recv = self.eval(scope, f.value)
                args, kwargs = self.call_args(scope, node)
                return self.call_method(scope, recv, f.attr, args, kwargs, node)
            args, kwargs = self.call_args(scope, node)
            return self.call_value(scope, fv, args, kwargs, node)
        fv = self.eval(scope, f)
        args, kwargs = self.call_args(scope, node)
        return self.call_value(scope, fv, args, kwargs, node)

    def call_value(self, scope, fv, args, kwargs, node):
        if fv[0] == "ext":
            name = fv[1]
            if name == "xr.DataArray" or name == "xarray.DataArray":
                name = "xr.DataArray"
            if name in ("partial",):
                inner = args[0]
                return ("fn", FuncRef("partial", inner=inner, args=args[1:], kwargs=kwargs, name="partial"))
            if name == "xrspatial.utils.ArrayTypeFunctionMapping" or name.endswith("ArrayTypeFunctionMapping"):
                return ("mapper", kwargs.get("numpy_func", args[0] if args else SC))
            if name in ("nb.jit", "jit", "nb.njit", "ngjit", "delayed"):
                return args[0] if args else SC
            if name == "xr.DataArray":
                return self.ctor(args, kwargs)
            if name in ("xr.zeros_like", "xr.ones_like", "xr.full_like", "xr.empty_like"):
                xs = self.xr_operands(args[:1] or [kwargs.get("other", SC)])
                return self.build_from("like", name.split(".")[-1], xs, data_src=None) if xs else self.fresh("like")
            if name == "xr.Dataset":
                # a Dataset keeps the variables it is given
                vals = [a[1] if a[0] == "star" else a for a in args] + list(kwargs.values())
                res = self.build("like", "dataset", None, None, None)
                c, a_ = self.objs[res[1]]
                for x in dict.fromkeys(x for v in vals for x in self.vars_of(self.load_elem(v) if v != SC else SC)):
                    for d in (res[1], c, a_):
                        self.weak_view(d, x)
                return res
            if name == "xr.where":
                xs = self.xr_operands(list(args) + list(kwargs.values()))
                return self.build_from("arith", "where", xs, data_src=None) if xs else self.fresh("where")
            cls = PRIMS.get(name)
            if cls is None and name.split(".")[-1] in ("has_rtx", "has_cuda_and_cupy", "is_cupy_array"):
                cls = "false"
            if cls is None and name.startswith("cupy"):
                raise Unsupported("cupy call on the NumPy path: " + name)
            if cls is None:
                return self.conservative_call(name, args, kwargs)
            return self.apply_prim(cls, name, args, kwargs, node)
        if fv[0] == "mapper":
            return fv       # mapper(agg) handled by the caller
        if fv[0] == "fn":
            return self.call_func(scope, fv[1], args, kwargs, node)
        if fv[0] in ("globitem", "glob"):
            # a function taken from a module-level table (funcs[func], _DEFAULT_STATS[agg]): reductions
            self.unclassified.add("table:" + fv[1])
            vals = [a[1] if a[0] == "star" else a for a in args] + list(kwargs.values())
            return self.fresh("tablefn") if any(v != SC for v in vals) else SC
        if fv[0] == "var" or fv == SC:
            # a callable held in a variable (user callback): conservative
            return self.conservative_call("callback", args, kwargs)
        raise Unsupported(f"call of {fv[0]}")

    def ctor(self, args, kwargs):
        """xr.DataArray(data, coords=…, dims=…, attrs=…, name=…)"""
        first = args[0] if args else kwargs.get("data", SC)
        coords = args[1] if len(args) > 1 else kwargs.get("coords", SC)
        attrs = args[5] if len(args) > 5 else kwargs.get("attrs", SC)
        for v in list(args[2:5]) + [kwargs.get("dims", SC), kwargs.get("name", SC)]:
            pass        # dims / name hold no memory
        fx = first[1] if first[0] == "var" and first[1] not in self.elems else None
        if first != SC and fx is None:
            fx = self.temp_join([first], "da.data")[1]
        sd = fx
        # coordinates: the ones given, else the ones the data brings along when it is a raster object itself
        if coords != SC and self.vars_of(coords):
            cv = coords[1] if coords[0] == "var" and coords[1] in self.slotvars else self.temp_join([coords], "da.coords")[1]
            sc = cv
        elif fx is not None and not self.is_nda(fx):
            sc = self.comp(fx, 0)
        else:
            sc = None
        if attrs != SC and self.vars_of(attrs):
            sa = attrs[1] if attrs[0] == "var" and attrs[1] in self.slotvars else self.temp_join([attrs], "da.attrs")[1]
        elif fx is not None and not self.is_nda(fx):
            sa = self.comp(fx, 1)
        else:
            sa = None
        return self.build("DataArray", "da", sd, sc, sa)

    def call_xmethod(self, recv, attr, args, kwargs, node):
        """a method of a value that may be a raster object; None when the method is not an xarray one"""
        r = recv[1]
        vals = [a[1] if a[0] == "star" else a for a in args] + list(kwargs.values())
        if attr == "copy":
            deep = next((k.value for k in node.keywords if k.arg == "deep"), None) if node is not None else None
            if deep is None and node is not None and node.args:
                deep = node.args[0]
            mode = "deep" if deep is None or (isinstance(deep, ast.Constant) and deep.value is True) else \
                ("shallow" if isinstance(deep, ast.Constant) and deep.value is False else "?")
            data = kwargs.get("data", SC)
            if mode == "?":
                return self.build_from("copy(?)", "copy", [r])
            if data != SC and self.vars_of(data):
                dv = data[1] if data[0] == "var" and data[1] not in self.elems else self.temp_join([data], "copy.data")[1]
                return self.build_from(f"copy({mode},data)", "copy", [r], data_src=dv)
            return self.build_from(f"copy({mode})", "copy", [r])
        if attr == "astype":
            c = next((k.value for k in node.keywords if k.arg == "copy"), None) if node is not None else None
            nocopy = not (c is None or (isinstance(c, ast.Constant) and c.value is True))
            return self.build_from("astype(nocopy)" if nocopy else "astype", "astype", [r])
        cls = XMETHODS.get(attr)
        if cls == "arith":
            return self.build_from("arith", attr, [r] + self.xr_operands(vals), data_src=None)
        if cls == "viewlike":
            # assign_coords(lon=other.lon) …: what is handed in may become a coordinate of the result
            extra = [x for v in vals for x in self.vars_of(v)]
            res = self.build_from("viewlike", attr, [r])
            if extra:
                c, a = self.objs[res[1]]
                for x in dict.fromkeys(extra):
                    self.weak_view(c, x)
                    self.weak_view(a, x)
            return res
        return None

    def call_method(self, scope, recv, attr, args, kwargs, node):
        vals = [a[1] if a[0] == "star" else a for a in args] + list(kwargs.values())
        if recv[0] == "mapper":
            raise Unsupported("method of mapper")
        if recv[0] in ("glob", "globitem"):
            if attr in ("get", "keys", "values", "items"):
                return ("globitem", recv[1])
            return self.conservative_call("global." + attr, args, kwargs)
        if recv[0] == "fn":
            return self.conservative_call("fn." + attr, args, kwargs)
        if recv[0] == "tup":
            recv = self.temp_join([recv], "tupobj")
        if recv == SC or recv[0] == "ext":
            cls = METHODS.get(attr)
            if cls in ("wself", "wself_join", "warg0"):
                if cls == "warg0":
                    for x in self.vars_of(vals[0]) if vals else []:
                        self.emit("write", x)
                elif any(self.vars_of(v) for v in vals):
                    raise Unsupported(f"storing an array into a scalar container via .{attr}")
                return SC
            if any(self.vars_of(v) for v in vals):
                # method of a non-array object fed with arrays (str.format(arr), generator.shuffle …)
                if attr in ("format", "join", "get", "index", "count", "startswith", "endswith"):
                    return SC
                return self.conservative_call("scalar." + attr, args, kwargs)
            return SC
        r = recv[1]
        cls = METHODS.get(attr)
        self.used.add("." + attr)
        if r in self.cont:
            if attr in ("append", "extend", "insert", "add", "update", "setdefault"):
                self.emit("write", r)
                for v in vals:
                    for x in self.vars_of(self.load_elem(v) if attr in ("extend", "update") else v):
                        self.weak_view(self.elems_of(r), x)
                return self.load_elem(recv) if attr == "setdefault" else SC
            if attr in ("get", "values", "items", "pop", "popitem", "keys", "__getitem__", "most_common", "elements"):
                if attr in ("pop", "popitem"):
                    self.emit("write", r)
                return self.load_elem(recv)
            if attr == "copy":
                return self.mk_container([self.load_elem(recv)], "copy")
            if attr in ("sort", "reverse", "clear", "remove", "discard"):
                self.emit("write", r)
                return SC
            if attr in ("index", "count", "issubset", "issuperset", "join", "format"):
                return SC
        if "out" in kwargs and kwargs["out"] != SC:
            for x in self.vars_of(kwargs["out"]):
                self.emit("write", x)
            return kwargs["out"]
        if kwargs.get("inplace") is not None:
            self.emit("write", r)
        if not self.is_nda(r) and self.kind.get(r) != "pyc":
            xres = self.call_xmethod(recv, attr, args, kwargs, node)
            if xres is not None:
                return xres
        if cls == "astype":
            c = next((k.value for k in node.keywords if k.arg == "copy"), None)
            t = self.new("astype")
            if c is None or (isinstance(c, ast.Constant) and c.value is True):
                self.emit("copy", t, r)
            else:
                self.emit("mview", t, r)
            return ("var", t)
        if cls == "alloc":
            t = self.new(attr)
            if attr == "flatten":
                self.oned.add(t)
            self.emit("copy" if attr in ("copy", "flatten") else "alloc", *((t, r) if attr in ("copy", "flatten") else (t,)))
            if attr == "copy" and self.kind.get(r) == "pyc":
                self.weak_view(t, r)
                self.kind[t] = "pyc"
            return ("var", t)
        if cls == "scalar":
            return SC
        if cls == "view":
            return recv
        if cls == "mview":
            t = self.new(attr)
            if attr == "ravel":
                self.oned.add(t)
            self.emit("mview", t, r)
            return ("var", t)
        if cls == "wself":
            self.emit("write", r)
            return recv if attr in ("pop", "popitem") else SC
        if cls == "wself_join":
            self.emit("write", r)
            if self.kind.get(r) == "pyc" or True:
                for v in vals:
                    for x in self.vars_of(v):
                        self.weak_view(r, x)
            return recv if attr == "setdefault" else SC
        if cls == "warg0":
            for x in self.vars_of(vals[0]) if vals else []:
                self.emit("write", x)
            return SC
        self.unclassified.add("method:" + attr)
        self.emit("write", r)
        for x in dict.fromkeys(x for v in vals for x in self.vars_of(v)):
            self.emit("write", x)
        t = self.new("ret:." + attr)
        self.join_into(t, [recv] + vals)
        return ("var", t)

    # ------------------------------------------------------------------------------- assignment
    def bind_elem(self, scope, target, itv, iternode=None):
        """bind a loop / comprehension target to an element of `itv`"""
        if isinstance(iternode, ast.Call):
            d = self.ext_name(scope.module, dotted(iternode.func))
            if d == "enumerate" and isinstance(target, (ast.Tuple, ast.List)) and len(target.elts) == 2 and iternode.args:
                self.assign(scope, target.elts[0], SC, None)
                self.bind_elem(scope, target.elts[1], self.eval_quiet(scope, iternode.args[0]), iternode.args[0])
                return
            if d == "zip" and isinstance(target, (ast.Tuple, ast.List)) and len(target.elts) == len(iternode.args):
                for t, a in zip(target.elts, iternode.args):
                    self.bind_elem(scope, t, self.eval_quiet(scope, a), a)
                return
            if d in ("range", "prange", "nb.prange"):
                self.assign(scope, target, SC, None)
                return
        self.assign(scope, target, self.load_elem(itv), None, elementwise=True)

    def eval_quiet(self, scope, e):
        """re-evaluate an already evaluated sub-expression without emitting anything"""
        self.push()
        try:
            v = self.eval(scope, e)
        finally:
            ops = self.pop()
        # keep the ops only if the value depends on temporaries created by them
        if ops:
            self.blocks[-1].extend(ops)
        return v

    def freeze(self, v):
        """a tuple value refers to DSL variables that may be re-bound later: give it its own copies"""
        if v[0] != "tup":
            return v
        out = []
        for x in v[1]:
            if x[0] == "var":
                t = self.new(self.names[x[1]] + "'")
                self.alias(t, x[1], plain=True)
                out.append(("var", t))
            else:
                out.append(self.freeze(x))
        return ("tup", out)

    def assign(self, scope, target, v, valnode, elementwise=False):
        if isinstance(target, ast.Name):
            n = target.id
            if n in scope.scalars.S:
                if v != SC and self.vars_of(v):
                    raise Unsupported(f"scalar name {n} bound to an array value")
                return
            if v[0] in ("fn", "mapper", "ext", "glob", "globitem"):
                if n in scope.special and scope.special[n] is not v and scope.special[n][0] == "fn":
                    raise Unsupported(f"name {n} bound to two different functions")
                scope.special[n] = v
                return
            if v[0] == "tup":
                scope.special[n] = self.freeze(v)
                return
            scope.special.pop(n, None)
            d = self.var_of(scope, n)
            if v == SC:
                if isinstance(valnode, (ast.List, ast.Dict, ast.Set, ast.ListComp, ast.DictComp, ast.SetComp)) or (
                        isinstance(valnode, ast.Call) and dotted(valnode.func) in ("list", "dict", "set")):
                    # a container that is empty / holds scalars for now, but is not a scalar name: it is filled later
                    self.alias(d, self.mk_container([], "box")[1])
                    return
                self.emit("alloc", d)
                if d in self.objs:
                    for x in self.objs[d]:
                        self.emit("alloc", x)
                self.nda.add(d)
                self.isarr.discard(d)
                self.oned.discard(d)
                self.sameobj.pop(d, None)
            else:
                self.alias(d, v[1], plain=isinstance(valnode, ast.Name))
            return
        if isinstance(target, (ast.Tuple, ast.List)):
            if v[0] == "tup" and len(v[1]) == len(target.elts) and not any(isinstance(t, ast.Starred) for t in target.elts):
                # the right-hand side is evaluated completely before any target is bound (a, b = b, a)
                for t, x in zip(target.elts, self.freeze(v)[1]):
                    self.assign(scope, t, x, None)
            else:
                part = self.load_elem(v) if v != SC else SC
                for t in target.elts:
                    self.assign(scope, t.value if isinstance(t, ast.Starred) else t, part, None)
            return
        if isinstance(target, ast.Subscript):
            base = self.eval(scope, target.value)
            self.eval(scope, target.slice)
            sl = target.slice
            named = isinstance(sl, ast.JoinedStr) or (isinstance(sl, ast.Constant) and isinstance(sl.value, str))
            self.store_into(base, v, self.const_key(scope, sl), named=named, positional=positional_index(sl))
            return
        if isinstance(target, ast.Attribute):
            base = self.eval(scope, target.value)
            if base == SC or base[0] in ("ext", "glob", "globitem"):
                if base[0] in ("glob", "globitem", "ext"):
                    raise Unsupported("store into module state")
                return
            for b in self.vars_of(base)[:1]:
                if b in self.sameobj:
                    if target.attr in ("data", "values"):
                        self.rebinds.append((self.sameobj[b], target.attr, ast.unparse(valnode) if valnode else "?"))
                    elif target.attr in ("attrs", "name", "encoding"):
                        self.emit("write", self.comp(b, 1))      # attrs / name of the caller's object
                    elif target.attr in ("coords",):
                        self.emit("write", self.comp(b, 0))
                    else:
                        for x in self.vars_of(("var", b)):
                            self.emit("write", x)
                if target.attr in ("data", "values") and v != SC and self.vars_of(v):
                    src = self.temp_join([v], "newdata")
                    self.emit("view", b, src[1])
                    self.sameobj.pop(b, None)
                elif v != SC:
                    # x.attrs = d / x.coords = c: the component may from now on be what was assigned
                    dst = self.comp(b, 1) if target.attr == "attrs" else self.comp(b, 0) if target.attr == "coords" else b
                    for x in self.vars_of(v):
                        self.weak_view(dst, x)
            return
        if isinstance(target, ast.Starred):
            self.assign(scope, target.value, v, valnode)
            return
        raise Unsupported(f"assignment target {type(target).__name__}")

    def store_into(self, base, v, key=None, named=False, positional=True):
        """base[...] = v; `named`: the index is a string (ds['layer'] = …), not a position; `positional`: the index
        is syntactically an array position (ints, slices, masks).  On a raster object `obj[name] = v` with a name
        that is no position assigns the coordinate / variable of that name: a write of its coordinates component too
        (`raster[x] = wrapped_longitudes`), after which that component may hold `v`."""
        if base == SC or base[0] in ("ext",):
            return
        if base[0] in ("glob", "globitem"):
            raise Unsupported("store into module state")
        for b in dict.fromkeys(self.vars_of(base) if base[0] == "tup" else [base[1]]):
            self.emit("write", b)
            if not positional and base[0] == "var" and b == base[1] and b in self.objs and not self.is_nda(b) \
                    and b not in self.cont:
                cslot = self.objs[b][0]
                self.emit("write", cslot)
                for x in self.vars_of(v):
                    self.weak_view(cslot, x)
            if b in self.cont:
                dst = self.field_of(b, key) if key is not None else self.elems_of(b)
                for x in self.vars_of(v):
                    self.weak_view(dst, x)
                if isinstance(v, tuple) and v[0] == "var" and v[1] in self.cont:
                    self.cont.add(dst)        # a container stored in a container (dict of lists)
                    ev = self.elems_of(v[1])
                    if dst not in self.elems:
                        self.elems[dst] = ev
            elif self.kind.get(b) == "pyc":
                for x in self.vars_of(v):
                    self.weak_view(b, x)
            elif named and not self.is_nda(b) and isinstance(v, tuple) and v[0] == "var" and not self.is_nda(v[1]):
                # ds[name] = raster: a Dataset keeps the variable it is given, not a copy of it
                x = v[1]
                self.weak_view(b, x)
                if b in self.objs:
                    self.weak_view(self.objs[b][0], self.comp(x, 0))
                    self.weak_view(self.objs[b][1], self.comp(x, 1))
                elif x in self.objs:
                    for y in self.objs[x]:
                        self.weak_view(b, y)

    # ------------------------------------------------------------------------------- statements
    def static_test(self, scope, t):
        """True / False when the test is decided by the backend (NumPy, no GPU), else None"""
        if isinstance(t, ast.UnaryOp) and isinstance(t.op, ast.Not):
            v = self.static_test(scope, t.operand)
            return None if v is None else (not v)
        if isinstance(t, ast.BoolOp):
            vs = [self.static_test(scope, v) for v in t.values]
            if isinstance(t.op, ast.And):
                if any(v is False for v in vs):
                    return False
                return True if all(v is True for v in vs) else None
            if any(v is True for v in vs):
                return True
            return False if all(v is False for v in vs) else None
        if isinstance(t, ast.Call):
            d = dotted(t.func)
            ext = self.ext_name(scope.module, d)
            if d in ("has_cuda_and_cupy", "has_rtx", "is_cupy_array", "is_cupy_backed", "is_dask_cupy"):
                return False
            if ext == "isinstance" and len(t.args) == 2 and isinstance(t.args[0], ast.Attribute) \
                    and t.args[0].attr in ("data", "values"):
                ty = self.ext_name(scope.module, dotted(t.args[1]))
                if ty == "np.ndarray":
                    return True
                if ty in ("da.Array", "cupy.ndarray"):
                    return False
            if ext == "isinstance" and len(t.args) == 2:
                ty = self.ext_name(scope.module, dotted(t.args[1]))
                if ty in ("cupy.ndarray",):
                    return False
        if isinstance(t, ast.Compare) and len(t.ops) == 1 and isinstance(t.ops[0], (ast.Eq, ast.NotEq, ast.Is, ast.IsNot)):
            try:
                a = self.eval_static_ext(scope, t.left)
                b = self.eval_static_ext(scope, t.comparators[0])
            except Unsupported:
                return None
            if a is not None and b is not None:
                eq = a == b
                return eq if isinstance(t.ops[0], (ast.Eq, ast.Is)) else not eq
        return None

    def eval_static_ext(self, scope, e):
        if isinstance(e, ast.Name):
            v = self.lookup(scope, e.id)
            if v[0] == "ext" and v[1] in ("np", "da", "cupy"):
                return v[1]
        return None

    def stmts(self, scope, body):
        for i, st in enumerate(body):
            rest = body[i + 1:]
            if isinstance(st, ast.If):
                tv = self.static_test(scope, st.test)
                bt, et = terminates(st.body), terminates(st.orelse)
                if tv is True:
                    self.stmts(scope, st.body + ([] if bt else rest))
                    return
                if tv is False:
                    self.stmts(scope, st.orelse + ([] if et else rest))
                    return
                self.eval(scope, st.test)
                gtext = (scope.module.name, ast.unparse(st.test))
                ngtext = (scope.module.name, "not (" + ast.unparse(st.test) + ")")
                if bt or et:
                    f0 = self.flags()
                    self.push()
                    self.guards.append(gtext)
                    self.stmts(scope, st.body + ([] if bt else rest))
                    self.guards.pop()
                    p = self.pop()
                    fp = self.flags()
                    self.set_flags(f0)
                    self.push()
                    self.guards.append(ngtext)
                    self.stmts(scope, st.orelse + ([] if et else rest))
                    self.guards.pop()
                    q = self.pop()
                    self.set_flags(self.flags_join(fp, self.flags()))
                    if not p and only_raises_deep(st.body):
                        self.blocks[-1].extend(q)
                    elif not q and only_raises_deep(st.orelse):
                        self.blocks[-1].extend(p)
                    elif p or q:
                        self.emit("ite", p, q)
                    return
                f0 = self.flags()
                self.push()
                self.guards.append(gtext)
                self.stmts(scope, st.body)
                self.guards.pop()
                p = self.pop()
                fp = self.flags()
                self.set_flags(f0)
                self.push()
                self.guards.append(ngtext)
                self.stmts(scope, st.orelse)
                self.guards.pop()
                q = self.pop()
                self.set_flags(self.flags_join(fp, self.flags()))
                if p or q:
                    self.emit("ite", p, q)
                continue
            if isinstance(st, ast.Return):
                self.do_return(scope, st)
                return
            if isinstance(st, ast.Raise):
                return
            if isinstance(st, (ast.Break, ast.Continue)):
                if self.loop_exits:
                    self.loop_exits[-1].append(self.flags())     # the flags on this way out join the loop's
                return
            self.stmt(scope, st)

    def weak_obj_view(self, r, v):
        """the object variable `r` may (also) hold the value `v`: component by component when `v` is a variable,
        every component may be any part of `v` otherwise"""
        rc, ra = self.comps_of(r)
        if v[0] == "var" and v[1] not in self.elems:
            x = v[1]
            self.weak_view(r, x)
            if x in self.objs:
                self.weak_view(rc, self.objs[x][0])
                self.weak_view(ra, self.objs[x][1])
            elif not self.is_nda(x):
                self.weak_view(rc, x)
                self.weak_view(ra, x)
            if not self.is_nda(x):
                self.nda.discard(r)
        else:
            for y in self.vars_of(v):
                self.weak_view(r, y)
                self.weak_view(rc, y)
                self.weak_view(ra, y)
            if self.vars_of(v):
                self.nda.discard(r)

    def do_return(self, scope, st):
        v = self.eval(scope, st.value) if st.value is not None else SC
        if scope.ret_vars is None:
            scope.ret_val = v          # single trailing return: passed on as is
            return
        if len(scope.ret_vars) > 1 and v[0] == "tup" and len(v[1]) == len(scope.ret_vars):
            for r, x in zip(scope.ret_vars, v[1]):
                self.weak_obj_view(r, x)
        else:
            for r in scope.ret_vars:
                self.weak_obj_view(r, v)
        scope.returned_fn = v if v[0] in ("fn", "mapper") else getattr(scope, "returned_fn", None)

    def stmt(self, scope, st):
        if isinstance(st, ast.Assign):
            v = self.eval(scope, st.value)
            for t in st.targets:
                self.assign(scope, t, v, st.value)
        elif isinstance(st, ast.AnnAssign):
            if st.value is not None:
                self.assign(scope, st.target, self.eval(scope, st.value), st.value)
        elif isinstance(st, ast.AugAssign):
            v = self.eval(scope, st.value)
            t = st.target
            if isinstance(t, ast.Name):
                if t.id in scope.scalars.S:
                    return
                cur = self.lookup(scope, t.id)
                if cur[0] == "var":
                    self.emit("write", cur[1])
                    if cur[1] in self.cont:
                        for x in self.vars_of(self.load_elem(v) if v != SC else SC):
                            self.weak_view(self.elems_of(cur[1]), x)
                elif cur != SC:
                    raise Unsupported("augmented assignment to " + cur[0])
            elif isinstance(t, ast.Subscript):
                base = self.eval(scope, t.value)
                self.eval(scope, t.slice)
                self.store_into(base, v)
            elif isinstance(t, ast.Attribute):
                base = self.eval(scope, t.value)
                if t.attr in ("data", "values") and base[0] == "var":
                    self.emit("write", base[1])
                elif t.attr == "attrs" and base[0] == "var":
                    self.emit("write", self.comp(base[1], 1))
                else:
                    for b in self.vars_of(base):
                        self.emit("write", b)
            else:
                raise Unsupported("augmented assignment target")
        elif isinstance(st, ast.Expr):
            self.eval(scope, st.value)
        elif isinstance(st, (ast.For, ast.While)):
            itv = self.eval(scope, st.iter) if isinstance(st, ast.For) else None
            head = self.flags()
            for _ in range(8):
                # the flags assumed at the loop head must also hold after the body (any iteration count)
                self.set_flags(head)
                self.push()
                self.loop_exits.append([])
                if isinstance(st, ast.For):
                    self.bind_elem(scope, st.target, itv, st.iter)
                else:
                    self.eval(scope, st.test)
                self.stmts(scope, st.body)
                body = self.pop()
                joined = self.flags_join(head, self.flags())
                for fx in self.loop_exits.pop():
                    joined = self.flags_join(joined, fx)
                if joined[0] == head[0] and joined[1] == head[1]:
                    break
                head = joined
            else:
                raise Unsupported("loop flags do not stabilise")
            self.set_flags(joined)
            if body:
                self.emit("loop", body)
            if st.orelse:
                self.stmts(scope, st.orelse)
        elif isinstance(st, ast.With):
            for it in st.items:
                v = self.eval(scope, it.context_expr)
                if it.optional_vars is not None:
                    self.assign(scope, it.optional_vars, v if v != SC else SC, None)
            self.stmts(scope, st.body)
        elif isinstance(st, ast.Try):
            self.stmts(scope, st.body)
            for h in st.handlers:
                f0 = self.flags()
                self.push()
                self.stmts(scope, h.body)
                p = self.pop()
                self.set_flags(self.flags_join(f0, self.flags()))
                if p:
                    self.emit("ite", p, [])
            self.stmts(scope, st.orelse)
            self.stmts(scope, st.finalbody)
        elif isinstance(st, ast.FunctionDef):
            scope.special[st.name] = ("fn", FuncRef("def", module=scope.module, node=st, scope=scope, name=st.name))
        elif isinstance(st, ast.Import):
            for a in st.names:
                scope.special[a.asname or a.name.split(".")[0]] = ("ext", MODULE_ALIASES.get(a.name, a.name))
        elif isinstance(st, ast.ImportFrom):
            for a in st.names:
                scope.special[a.asname or a.name] = ("ext", MODULE_ALIASES.get(st.module or "", st.module or "") + "." + a.name)
        elif isinstance(st, (ast.Pass, ast.Assert)):
            if isinstance(st, ast.Assert):
                self.eval(scope, st.test)
        elif isinstance(st, ast.Delete):
            for t in st.targets:
                if isinstance(t, (ast.Subscript, ast.Attribute)):      # del x[k] / del x.a mutates x
                    for b in self.vars_of(self.eval(scope, t.value)):
                        self.emit("write", b)
        else:
            raise Unsupported(f"statement {type(st).__name__}")


def only_raises_deep(stmts):
    """the block does nothing but raise (possibly after building the message)"""
    return bool(stmts) and isinstance(stmts[-1], ast.Raise) and all(
        isinstance(s, (ast.Raise, ast.Assign, ast.Expr)) for s in stmts)


def count_returns(node):
    n = 0
    stack = list(node.body) if isinstance(node, ast.FunctionDef) else []
    while stack:
        x = stack.pop()
        if isinstance(x, (ast.FunctionDef, ast.Lambda)):
            continue
        if isinstance(x, ast.Return):
            n += 1
        stack.extend(ast.iter_child_nodes(x))
    return n


def return_arity(node):
    """n when every `return` returns a tuple display of n elements, else 1"""
    ar = set()
    stack = list(node.body)
    while stack:
        x = stack.pop()
        if isinstance(x, (ast.FunctionDef, ast.Lambda)):
            continue
        if isinstance(x, ast.Return):
            ar.add(len(x.value.elts) if isinstance(x.value, ast.Tuple) else (0 if x.value is None else 1))
        stack.extend(ast.iter_child_nodes(x))
    ar.discard(0)
    return ar.pop() if len(ar) == 1 else 1


class Calls(Eval):
    def call_func(self, scope, fr, args, kwargs, node):
        if fr.kind == "partial":
            inner = fr.inner
            a2 = list(fr.args) + list(args)
            k2 = dict(fr.kwargs)
            k2.update(kwargs)
            return self.call_value(scope, inner, a2, k2, node)
        if fr.kind == "vectorized":
            vals = [a[1] if a[0] == "star" else a for a in args] + list(kwargs.values())
            return self.fresh("vectorized") if any(v != SC for v in vals) else SC
        if fr.kind in ("def", "lambda"):
            return self.inline(scope, fr, args, kwargs, node)
        raise Unsupported("call of function kind " + fr.kind)

    def inline(self, scope, fr, args, kwargs, node):
        fn = fr.node
        if fn in self.stack or len(self.stack) >= self.MAX_DEPTH:
            return self.conservative_call("recursive:" + (fr.name or "?"), args, kwargs)
        label = f"{fr.name}#{len(self.inlined)}"
        self.inlined.add((fr.module.name if fr.module else "?", fr.name, len(self.inlined)))
        if fr.module is not None and not any(n is fn for _, n in self.inlined_nodes):
            self.inlined_nodes.append((fr.module, fn))
        sc = Scope(fr.module, parent=fr.scope, label=label)
        a = fn.args
        params = [p.arg for p in a.posonlyargs + a.args]
        bound = {}
        plain = getattr(node, "_plain", {}) if node is not None else {}
        pos = list(args)
        extra = []
        if any(x[0] == "star" for x in pos):
            # *args of unknown length: every parameter may receive it
            star = [x[1] for x in pos if x[0] == "star"]
            pos = [x for x in pos if x[0] != "star"]
            for p in params[len(pos):]:
                if p not in kwargs:
                    bound[p] = (self.load_elem(self.temp_join(star, "star")), False)
        for i, v in enumerate(pos):
            if i < len(params):
                bound[params[i]] = (v, bool(plain.get(i)))
            else:
                extra.append(v)
        for k, v in kwargs.items():
            if k == "**":
                continue
            if k in params or k in [p.arg for p in a.kwonlyargs]:
                bound[k] = (v, bool(plain.get(k)))
            elif a.kwarg is None:
                raise Unsupported(f"unexpected keyword {k} for {fr.name}")
        # defaults
        defaults = dict(zip(params[len(params) - len(a.defaults):], a.defaults))
        for p, dnode in zip(a.kwonlyargs, a.kw_defaults):
            if dnode is not None:
                defaults[p.arg] = dnode
        defscope = Scope(fr.module, parent=fr.scope, label=label + ".defaults")
        defscope.scalars = ScalarNames(self, fr.module, ast.Lambda(args=ast.arguments(
            posonlyargs=[], args=[], kwonlyargs=[], kw_defaults=[], defaults=[]), body=ast.Constant(0)), set(),
            (lambda n, s=fr.scope: s.scalars.name_scalar(n)) if fr.scope is not None and fr.scope.scalars else None)
        for p in params + [q.arg for q in a.kwonlyargs]:
            if p not in bound:
                if p in defaults:
                    bound[p] = (self.eval(defscope, defaults[p]), False)
                else:
                    raise Unsupported(f"missing argument {p} for {fr.name}")
        scalar_params = {p for p, (v, _) in bound.items() if v == SC}
        outer = (lambda n, s=fr.scope: s.scalars.name_scalar(n)) if fr.scope is not None and fr.scope.scalars else None
        sc.scalars = ScalarNames(self, fr.module, fn, scalar_params, outer)
        for p, (v, pl) in bound.items():
            if v == SC:
                continue
            if v[0] == "var":
                self.alias(self.var_of(sc, p), v[1], plain=pl)
            else:
                sc.special[p] = v
        if a.vararg is not None:
            sc.special[a.vararg.arg] = ("tup", extra)
        if a.kwarg is not None:
            sc.special[a.kwarg.arg] = ("tup", [v for k, v in kwargs.items() if k not in bound])
        self.stack.append(fn)
        try:
            if isinstance(fn, ast.Lambda):
                return self.eval(sc, fn.body)
            nret = count_returns(fn)
            if nret == 0:
                self.stmts(sc, fn.body)
                return SC
            if nret == 1 and isinstance(fn.body[-1], ast.Return):
                self.stmts(sc, fn.body)
                return sc.ret_val if sc.ret_val is not None else SC
            ar = return_arity(fn)
            sc.ret_vars = [self.new(f"{label}.ret{i}") for i in range(ar)]
            self.nda.update(sc.ret_vars)       # until something that may be a raster object is returned
            self.stmts(sc, fn.body)
            rf = getattr(sc, "returned_fn", None)
            if rf is not None:
                return rf
            vals = [("var", r) for r in sc.ret_vars]
            return vals[0] if ar == 1 else ("tup", vals)
        finally:
            self.stack.pop()


# ---------------------------------------------------------------------------------------------------
# public entries
def ann_scalar(ann):
    if ann is None:
        return False
    if isinstance(ann, ast.Name):
        return ann.id in SCALAR_ANN
    if isinstance(ann, ast.Subscript) and isinstance(ann.value, ast.Name) and ann.value.id in ("Union", "Optional"):
        parts = ann.slice.elts if isinstance(ann.slice, ast.Tuple) else [ann.slice]
        return all(ann_scalar(p) for p in parts)
    return False


def const_scalar(d):
    if isinstance(d, ast.Constant):
        return d.value is not None
    if isinstance(d, ast.Tuple):
        return all(isinstance(x, ast.Constant) for x in d.elts)
    if isinstance(d, ast.Attribute) and dotted(d) in ("np.inf", "np.nan"):
        return True
    if isinstance(d, ast.UnaryOp):
        return const_scalar(d.operand)
    return False


def public_functions(mods):
    out = []
    for mn in MODULES:
        m = mods.get(mn)
        if m is None:
            continue
        for fn, node in m.funcs.items():
            if fn.startswith("_") or fn in EXCLUDE.get(mn, ()):
                continue
            if any("cuda" in ast.unparse(d) for d in node.decorator_list):
                continue
            out.append((mn, fn, node))
    return out


def translate_entry(mods, mn, fn, node):
    tr = Calls(mods)
    m = mods[mn]
    root = Scope(m, label="caller")
    root.scalars = ScalarNames(tr, m, ast.Lambda(args=ast.arguments(posonlyargs=[], args=[], kwonlyargs=[],
                               kw_defaults=[], defaults=[]), body=ast.Constant(0)), set(), None)
    a = node.args
    params = a.posonlyargs + a.args + a.kwonlyargs
    defaults = dict(zip([p.arg for p in (a.posonlyargs + a.args)][len(a.posonlyargs + a.args) - len(a.defaults):], a.defaults))
    defaults.update({p.arg: d for p, d in zip(a.kwonlyargs, a.kw_defaults) if d is not None})
    inputs, kwargs = [], {}
    call = ast.Call(func=ast.Name(id=fn), args=[], keywords=[])
    call._plain = {}
    for p in params:
        d = defaults.get(p.arg)
        if ann_scalar(p.annotation) or (d is not None and const_scalar(d)):
            kwargs[p.arg] = SC
            continue
        if isinstance(d, ast.Name) and d.id in m.funcs:
            continue        # a callable with a library default (focal.apply's func): use the default
        v = tr.new(p.arg)
        tr.sameobj[v] = len(inputs)
        inputs.append(p.arg)
        kwargs[p.arg] = ("var", v)
        call._plain[p.arg] = True
    np_ = len(inputs)
    # wrapper level: every parameter is a raster object with three input buffers -- variables 0 … np-1 the cells,
    # np … 2np-1 the coordinates, 2np … 3np-1 the attrs
    cvars = [tr.new(p + ".coords") for p in inputs]
    avars = [tr.new(p + ".attrs") for p in inputs]
    for i in range(np_):
        tr.objs[i] = (cvars[i], avars[i])
        tr.slotvars.update((cvars[i], avars[i]))
    k = 3 * np_
    in_names = inputs + [p + ".coords" for p in inputs] + [p + ".attrs" for p in inputs]
    status = "ok"

    def mk_ret():
        r = tr.new("RETURN")
        return (r,) + tr.comps_of(r)
    try:
        res = tr.inline(root, FuncRef("def", module=m, node=node, name=fn), [], kwargs, call)
        ret = mk_ret()
        if res[0] == "var" and res[1] not in tr.elems:
            x = res[1]
            tr.emit("view", ret[0], x)
            if x in tr.objs:
                tr.emit("view", ret[1], tr.objs[x][0])
                tr.emit("view", ret[2], tr.objs[x][1])
            elif not tr.is_nda(x):
                tr.emit("view", ret[1], x)
                tr.emit("view", ret[2], x)
        else:
            for r in ret:
                tr.join_into(r, [res])
    except Unsupported as ex:
        status = "unsupported: " + str(ex)
        tr.blocks = [tr.blocks[0]]
        tr.unknown(str(ex))
        ret = mk_ret()
    except RecursionError:
        status = "unsupported: recursion"
        tr.blocks = [[("unknown", "recursion")]]
        ret = mk_ret()
    items = tr.blocks[0]
    public_params = {p.arg for p in params}
    try:
        iw = [dict(inputs=[in_names[i] for i in t], through=tr.names[v] if v < len(tr.names) else str(v),
                   guards=[g[1] for g in gs], hints=guard_hints(mods, gs, public_params))
              for v, t, gs in input_writes(items, k)]
        hints = source_hints([(m, node)] + list(tr.inlined_nodes), public_params)
    except Exception as ex:       # diagnostics only
        iw, hints = [], dict(params={}, thresholds=[], error=repr(ex)[:120])
    return dict(module=mn, func=fn, k=k, nparams=np_, params=in_names, ret=ret, items=items, status=status, nvars=tr.nvars,
                input_writes=iw, hints=hints,
                wused=sorted(tr.wused),
                names=tr.names, used=sorted(tr.used), unclassified=sorted(tr.unclassified), unknowns=tr.unknowns,
                rebinds=[(inputs[i], attr, src) for i, attr, src in tr.rebinds],
                inlined=sorted({f"{a}.{b}" for a, b, _ in tr.inlined}))


def count_ops(items):
    n = 0
    for it in items:
        if it[0] == "ite":
            n += count_ops(it[1]) + count_ops(it[2])
        elif it[0] == "loop":
            n += count_ops(it[1])
        else:
            n += 1
    return n


def slice_items(items, ret):
    """drop assignments to variables that can influence neither a write nor the returned variables.
    The taint of every kept variable is the same at every point, so `safe` is unchanged."""
    rel = set(ret) if isinstance(ret, (tuple, list)) else {ret}
    edges = []

    def scan(its):
        for it in its:
            if it[0] == "write":
                rel.add(it[1])
            elif it[0] in ("view", "mview"):
                edges.append((it[1], it[2]))
            elif it[0] == "build":
                for d, s_, mode in zip(it[2], it[3], WPRIMS[it[1]]):
                    if s_ is not None and mode in ("shallow", "maybe"):
                        edges.append((d, s_))
            elif it[0] == "ite":
                scan(it[1])
                scan(it[2])
            elif it[0] == "loop":
                scan(it[1])
    scan(items)
    changed = True
    while changed:
        changed = False
        for d, s_ in edges:
            if d in rel and s_ not in rel:
                rel.add(s_)
                changed = True

    def keep(its):
        out = []
        for it in its:
            if it[0] in ("alloc", "copy", "view", "mview"):
                if it[1] in rel:
                    out.append(it)
            elif it[0] == "build":
                if any(d in rel for d in it[2]):
                    out.append(it)
            elif it[0] == "ite":
                p, q = keep(it[1]), keep(it[2])
                if p or q:
                    out.append(("ite", p, q))
            elif it[0] == "loop":
                b = keep(it[1])
                if b:
                    out.append(("loop", b))
            else:
                out.append(it)
        return out
    return keep(items)


# ---------------------------------------------------------------------------------------------------
# diagnostics for the failing-input search (never used by a theorem): which writes of a generated program may go
# through an alias of an input buffer, under which branch conditions of the source they sit, and which argument
# values the source itself suggests (constants a parameter is compared with, keys of the tables it is looked up in,
# numeric thresholds that coordinates / cells are compared with)
def input_writes(items, k):
    """mirror of `acheck` of Model/BufProg.lean that does not stop at the first offending write:
    [(variable written through, sorted input buffers it may point into, guards)]"""
    found = {}

    def join(a, b):
        out = dict(a)
        for v, t in b.items():
            out[v] = out.get(v, frozenset()) | t
        return out

    def run(its, T):
        for it in its:
            op = it[0]
            if op in ("alloc", "copy"):
                T = dict(T)
                T.pop(it[1], None)
            elif op in ("view", "mview"):
                src = T.get(it[2])
                T = dict(T)
                if src:
                    T[it[1]] = src
                else:
                    T.pop(it[1], None)
            elif op == "write":
                t = T.get(it[1])
                if t:
                    key = (it[1], tuple(it[2]) if len(it) > 2 else ())
                    found[key] = found.get(key, frozenset()) | t
            elif op == "build":
                T0, T = T, dict(T)
                for dst, src, mode in zip(it[2], it[3], WPRIMS[it[1]]):
                    t = T0.get(src) if (src is not None and mode in ("shallow", "maybe")) else None
                    if t:
                        T[dst] = t
                    else:
                        T.pop(dst, None)
            elif op == "ite":
                T = join(run(it[1], T), run(it[2], T))
            elif op == "loop":
                for _ in range(64):
                    T2 = join(T, run(it[1], T))
                    if T2 == T:
                        break
                    T = T2
        return T
    run(items, {i: frozenset([i]) for i in range(k)})
    return [(v, sorted(t), list(g)) for (v, g), t in found.items()]


_VOC_CACHE = {}


def module_vocabulary(m):
    """name -> [(constant key / element, value node or None)] of the tables of a module, wherever they are filled:
    `X = {…}`, `X = dict(a=…)`, `X = ('a', 'b')`, `X['KEY'] = …` (also inside a function that builds the table)"""
    if id(m) in _VOC_CACHE:
        return _VOC_CACHE[id(m)]
    voc = {}
    for node in ast.walk(m.tree):
        if not (isinstance(node, ast.Assign) and len(node.targets) == 1):
            continue
        t, v = node.targets[0], node.value
        if isinstance(t, ast.Name):
            if isinstance(v, ast.Dict):
                ks = [(k.value, x) for k, x in zip(v.keys, v.values) if isinstance(k, ast.Constant)]
            elif isinstance(v, ast.Call) and dotted(v.func) == "dict" and not v.args:
                ks = [(kw.arg, kw.value) for kw in v.keywords if kw.arg]
            elif isinstance(v, (ast.Tuple, ast.List, ast.Set)) and v.elts and all(isinstance(e, ast.Constant) for e in v.elts):
                ks = [(e.value, None) for e in v.elts]
            else:
                continue
            voc.setdefault(t.id, []).extend(ks)
        elif isinstance(t, ast.Subscript) and isinstance(t.value, ast.Name) and isinstance(t.slice, ast.Constant):
            voc.setdefault(t.value.id, []).append((t.slice.value, v))
    _VOC_CACHE[id(m)] = voc
    return voc


def _jsonable(v):
    return v is None or (isinstance(v, (str, bool, int, float)) and v == v and v not in (float("inf"), float("-inf")))


def source_hints(nodes, public_params):
    """nodes: [(Module, ast node)] -- the functions (or guard expressions) to read.  ->
    {"params": {parameter name: values it is compared with / keys of the tables it indexes}, "thresholds": numbers
    that something which is not a plain constant is compared with}"""
    params, thresholds = {}, []

    def const_value(m, q):
        if isinstance(q, ast.Constant):
            return q.value
        if isinstance(q, ast.UnaryOp) and isinstance(q.op, ast.USub):
            c = const_value(m, q.operand)
            return -c if isinstance(c, (int, float)) and not isinstance(c, bool) else None
        if isinstance(q, ast.Name) and isinstance(m.consts.get(q.id), ast.Constant):
            return m.consts[q.id].value
        return None

    def values_of(m, q):
        voc = module_vocabulary(m)
        out = []
        if isinstance(q, (ast.Tuple, ast.List, ast.Set)):
            for e in q.elts:
                out.extend(values_of(m, e))
            return out
        if isinstance(q, ast.Name) and q.id in voc:
            return [k for k, _ in voc[q.id]]
        c = const_value(m, q)
        if c is not None or (isinstance(q, ast.Constant) and q.value is None):
            out.append(c)
        if isinstance(q, ast.Name):
            # a named constant: also the keys under which the tables of the module hold it
            # (`DISTANCE_METRICS['GREAT_CIRCLE'] = GREAT_CIRCLE`; the public parameter takes the key)
            for tab in voc.values():
                out.extend(k for k, vn in tab if isinstance(vn, ast.Name) and vn.id == q.id)
        return out

    def add(name, vals):
        cur = params.setdefault(name, [])
        for v in vals:
            if _jsonable(v) and not any(v == c and type(v) is type(c) for c in cur):
                cur.append(v)

    for m, node in nodes:
        voc = module_vocabulary(m)
        for x in ast.walk(node):
            if isinstance(x, ast.Compare):
                sides = [x.left] + list(x.comparators)
                for a, b in zip(sides, sides[1:]):
                    for p_, q in ((a, b), (b, a)):
                        if isinstance(p_, ast.Name) and not isinstance(m.consts.get(p_.id), ast.Constant):
                            add(p_.id, values_of(m, q))
                        c = const_value(m, q)
                        if isinstance(c, (int, float)) and not isinstance(c, bool) and c == c and abs(c) != float("inf") \
                                and not isinstance(p_, ast.Constant) and const_value(m, p_) is None:
                            thresholds.append(c)
            elif isinstance(x, ast.Call) and isinstance(x.func, ast.Attribute) and x.func.attr in ("get", "index") \
                    and isinstance(x.func.value, ast.Name) and x.func.value.id in voc and x.args \
                    and isinstance(x.args[0], ast.Name):
                add(x.args[0].id, [k for k, _ in voc[x.func.value.id]])
            elif isinstance(x, ast.Subscript) and isinstance(x.value, ast.Name) and x.value.id in voc \
                    and isinstance(x.slice, ast.Name):
                add(x.slice.id, [k for k, _ in voc[x.value.id]])
    return dict(params={n: v[:16] for n, v in sorted(params.items()) if n in public_params and v},
                thresholds=sorted(set(thresholds))[:32])


def guard_hints(mods, guards, public_params):
    nodes = []
    for mn, text in guards:
        try:
            nodes.append((mods[mn], ast.parse(text, mode="eval")))
        except (SyntaxError, KeyError):
            pass
    return source_hints(nodes, public_params)


class LeanEmitter:
    """nested blocks deeper than `maxdepth` become their own definitions (keeps every term shallow)"""

    def __init__(self, prefix, maxdepth=2):
        self.prefix, self.maxdepth = prefix, maxdepth
        self.defs = []

    def items(self, items, ind, depth):
        pad = " " * ind
        out = []
        for it in items:
            k = it[0]
            if k == "alloc":
                out.append(f".op (.alloc {it[1]})")
            elif k == "copy":
                out.append(f".op (.copyOf {it[1]} {it[2]})")
            elif k == "view":
                out.append(f".op (.viewOf {it[1]} {it[2]})")
            elif k == "mview":
                out.append(f".op (.maybeView {it[1]} {it[2]})")
            elif k == "write":
                out.append(f".op (.write {it[1]})")
            elif k == "unknown":
                out.append(".op .unknown")
            elif k == "build":
                d, srcs = it[2], it[3]
                opt = lambda x: "none" if x is None else f"(some {x})"
                out.append(f".op ({prim_lean_name(it[1])}.build ⟨{d[0]}, {d[1]}, {d[2]}⟩ {opt(srcs[0])} {opt(srcs[1])} {opt(srcs[2])})")
            elif k == "ite":
                out.append(f".ite ({self.block(it[1], ind + 2, depth + 1)}) ({self.block(it[2], ind + 2, depth + 1)})")
            elif k == "loop":
                out.append(f".loop ({self.block(it[1], ind + 2, depth + 1)})")
        lines, cur = [], ""
        for o in out:
            piece = o + ", "
            if "\n" in o or len(cur) + len(piece) > 100:
                if cur:
                    lines.append(cur.rstrip())
                cur = piece
                if "\n" in o:
                    lines.append(cur.rstrip())
                    cur = ""
            else:
                cur += piece
        if cur:
            lines.append(cur.rstrip())
        text = ("\n" + pad).join(lines)
        return text.rstrip(",").rstrip()

    def block(self, items, ind, depth):
        if not items:
            return ".done"
        if depth > self.maxdepth and count_ops(items) > 2:
            name = f"{self.prefix}_b{len(self.defs)}"
            self.defs.append(None)
            idx = len(self.defs) - 1
            body = "Prog.ofItems [\n  " + self.items(items, 2, 1) + "]"
            self.defs[idx] = f"def {name} : Prog := {body}\n"
            return name
        return "Prog.ofItems [\n" + " " * ind + self.items(items, ind, depth) + "]"


def prim_lean_name(name):
    return "wprim_" + "".join(ch if ch.isalnum() else "_" for ch in name).strip("_").replace("__", "_")


def lean_block(items, ind):
    return LeanEmitter("x", maxdepth=10 ** 6).block(items, ind, 0)


# ---------------------------------------------------------------------------------------------------
# metadata facts: where the returned DataArray takes coords / dims / attrs / name from
def returns_of(fn, static=None):
    """the values of the reachable `return`s (branches decided by the backend are pruned)"""
    out = []

    def walk(stmts):
        for x in stmts:
            if isinstance(x, (ast.FunctionDef, ast.Lambda, ast.ClassDef)):
                continue
            if isinstance(x, ast.Return):
                out.append(x.value)
            elif isinstance(x, ast.If):
                tv = static(x.test) if static is not None else None
                if tv is not False:
                    walk(x.body)
                if tv is not True:
                    walk(x.orelse)
            else:
                for f in ("body", "orelse", "finalbody"):
                    walk(getattr(x, f, []) or [])
                for h in getattr(x, "handlers", []) or []:
                    walk(h.body)
    walk(fn.body)
    return out


def assignments_to(fn, name):
    out = []
    stack = list(fn.body)
    while stack:
        x = stack.pop()
        if isinstance(x, (ast.FunctionDef, ast.Lambda)):
            continue
        if isinstance(x, ast.Assign) and any(isinstance(t, ast.Name) and t.id == name for t in x.targets):
            out.append(x.value)
        stack.extend(ast.iter_child_nodes(x))
    return out


def item_stores(fn, name):
    keys = []
    for x in ast.walk(fn):
        if isinstance(x, ast.Assign):
            for t in x.targets:
                if isinstance(t, ast.Subscript) and isinstance(t.value, ast.Name) and t.value.id == name:
                    keys.append(t.slice.value if isinstance(t.slice, ast.Constant) else "?")
    return keys


class MetaExtractor:
    def __init__(self, mods):
        self.mods = mods
        self.tr = Calls(mods)

    def is_ctor(self, m, call):
        return isinstance(call, ast.Call) and self.tr.ext_name(m, dotted(call.func)) in ("xr.DataArray", "xarray.DataArray")

    def src(self, m, fn, e, sigma, field):
        if e is None:
            return ("absent",)
        if isinstance(e, ast.Attribute) and e.attr == field and isinstance(e.value, ast.Name) and e.value.id in sigma:
            return ("input", sigma[e.value.id])
        if isinstance(e, ast.Name):
            asg = assignments_to(fn, e.id)
            if len(asg) == 1:
                a = asg[0]
                if isinstance(a, ast.Call) and self.tr.ext_name(m, dotted(a.func)) in ("copy.deepcopy", "copy.copy") \
                        and a.args and isinstance(a.args[0], ast.Attribute) and a.args[0].attr == field \
                        and isinstance(a.args[0].value, ast.Name) and a.args[0].value.id in sigma:
                    return ("inputPlus", sigma[a.args[0].value.id], item_stores(fn, e.id))
                if not item_stores(fn, e.id):
                    return self.src(m, fn, a, sigma, field)
        return ("other", ast.unparse(e))

    def facts(self, m, fn, sigma, depth=0):
        """list of facts, one per return site"""
        sc = Scope(m, label="meta")
        rets = returns_of(fn, lambda t: self.tr.static_test(sc, t))
        if not rets or all(r is None for r in rets):
            return [dict(kind="none")]
        out = []
        for r in rets:
            out.extend(self.fact_of(m, fn, r, sigma, depth))
        return out

    def fact_of(self, m, fn, r, sigma, depth):
        if r is None:
            return [dict(kind="none")]
        if isinstance(r, ast.Name):
            asg = assignments_to(fn, r.id)
            if len(asg) >= 1 and all(self.is_ctor(m, a) for a in asg):
                return [f for a in asg for f in self.fact_of(m, fn, a, sigma, depth)]
            if len(asg) == 1:
                a = asg[0]
                if isinstance(a, ast.Subscript) and isinstance(a.value, ast.Name) and a.value.id in sigma:
                    return [dict(kind="window", primary=sigma[a.value.id])]
                if isinstance(a, ast.Call):
                    return self.fact_of(m, fn, a, sigma, depth)
            return [dict(kind="other", text=ast.unparse(r))]
        if self.is_ctor(m, r):
            kw = {k.arg: k.value for k in r.keywords if k.arg}
            nm = kw.get("name")
            return [dict(kind="ctor",
                         coords=self.src(m, fn, kw.get("coords"), sigma, "coords"),
                         dims=self.src(m, fn, kw.get("dims"), sigma, "dims"),
                         attrs=self.src(m, fn, kw.get("attrs"), sigma, "attrs"),
                         name=("absent",) if nm is None else (("param", nm.id) if isinstance(nm, ast.Name) else ("other", ast.unparse(nm))))]
        if isinstance(r, ast.Call) and isinstance(r.func, ast.Attribute) and r.func.attr == "copy" \
                and isinstance(r.func.value, ast.Name) and r.func.value.id in sigma \
                and len(assignments_to(fn, r.func.value.id)) == 0 \
                and all(k.arg in ("deep", "data") for k in r.keywords) and len(r.args) <= 1:
            # the input used as a template: `p.copy(deep=…, data=out)` has p's coords, dims and attrs
            p_ = sigma[r.func.value.id]
            return [dict(kind="ctor", coords=("input", p_), dims=("input", p_), attrs=("input", p_), name=("absent",))]
        if isinstance(r, ast.Call) and self.tr.ext_name(m, dotted(r.func)) in ("xr.zeros_like", "xr.ones_like", "xr.full_like",
                                                                                 "xr.empty_like") \
                and r.args and isinstance(r.args[0], ast.Name) and r.args[0].id in sigma \
                and len(assignments_to(fn, r.args[0].id)) == 0:
            # `xr.zeros_like(p)` (filled afterwards) has p's coords, dims and attrs
            p_ = sigma[r.args[0].id]
            return [dict(kind="ctor", coords=("input", p_), dims=("input", p_), attrs=("input", p_), name=("absent",))]
        if isinstance(r, ast.Call) and depth < 4:
            callee, args, kws = None, r.args, r.keywords
            if isinstance(r.func, ast.Name):
                callee = r.func.id
            elif isinstance(r.func, ast.Call) and isinstance(r.func.func, ast.Name):
                # mapper(x)(…): the numpy_func of the mapping assigned to that name
                for a in assignments_to(fn, r.func.func.id):
                    if isinstance(a, ast.Call) and (dotted(a.func) or "").endswith("ArrayTypeFunctionMapping"):
                        nf = next((k.value for k in a.keywords if k.arg == "numpy_func"), None)
                        if isinstance(nf, ast.Name):
                            callee = nf.id
            target = None
            if callee in m.funcs:
                target = (m, m.funcs[callee])
            elif callee in m.imported:
                mn, f2 = m.imported[callee]
                if mn in self.mods and f2 in self.mods[mn].funcs:
                    target = (self.mods[mn], self.mods[mn].funcs[f2])
            if target is not None:
                m2, f2 = target
                ps = [p.arg for p in f2.args.args]
                s2 = {}
                for p, a in zip(ps, args):
                    if isinstance(a, ast.Name) and a.id in sigma:
                        s2[p] = sigma[a.id]
                for k in kws:
                    if k.arg and isinstance(k.value, ast.Name) and k.value.id in sigma:
                        s2[k.arg] = sigma[k.value.id]
                return self.facts(m2, f2, s2, depth + 1)
        return [dict(kind="other", text=ast.unparse(r)[:80])]


def lean_src(s):
    if s[0] == "absent":
        return ".absent"
    if s[0] == "input":
        return f".input {lean_str(s[1])}"
    if s[0] == "inputPlus":
        return f".inputPlus {lean_str(s[1])} {str_list([str(k) for k in s[2]])}"
    if s[0] == "param":
        return f".param {lean_str(s[1])}"
    return f".other {lean_str(s[1][:60])}"


def lean_fact(f):
    if f["kind"] == "ctor":
        return (f".ctor ({lean_src(f['coords'])}) ({lean_src(f['dims'])}) ({lean_src(f['attrs'])}) "
                f"({lean_src(f['name'])})")
    if f["kind"] == "window":
        return f".window {lean_str(f['primary'])}"
    if f["kind"] == "none":
        return ".none"
    return f".other {lean_str(f.get('text', '?')[:60])}"


# ---------------------------------------------------------------------------------------------------
# translator self-test: aliasing patterns with a known verdict (`_ok_` in the name = must be accepted, every
# other function must be rejected).  They are compiled like the library and checked in Props/C10.lean
# (`translator_selftest`), so a regression of the translator itself breaks a proof obligation.
SELFTEST_SOURCE = r'''
import numpy as np
import xarray as xr
import copy
from functools import partial
import dask.array as da
from xrspatial.utils import ArrayTypeFunctionMapping

def _k(a):
    a[0, 0] = 1

def t01_sort_ravel(agg):
    out = agg.data.ravel()
    out.sort()
    return xr.DataArray(np.zeros(3))

def t02_kernel_writes_param(agg):
    _k(agg.data)
    return xr.DataArray(np.zeros(3))

def t03_dict_element(agg):
    d = {}
    d['k'] = agg.data
    d['k'][:] = 0
    return xr.DataArray(np.zeros(3))

def t04_loop_carried(agg):
    a = np.zeros(3)
    b = np.zeros(3)
    for i in range(3):
        a[0] = 1
        a = b
        b = agg.data
    return xr.DataArray(np.zeros(3))

def t05_return_slice(agg):
    return xr.DataArray(agg.data[1:])

def t06_out_kw(agg):
    np.add(agg.data, 1, out=agg.data)
    return xr.DataArray(np.zeros(3))

def t07_attr_augassign(agg):
    agg.data += 1
    return xr.DataArray(np.zeros(3))

def t08_early_return(agg, flag=None):
    if flag:
        return xr.DataArray(agg.data.copy())
    return xr.DataArray(agg.data)

def t09_ok_copy(agg):
    x = agg.data.copy()
    x[:] = 0
    return xr.DataArray(x)

def t10_iter_rows(agg):
    for row in agg.data:
        row[:] = 0
    return xr.DataArray(np.zeros(3))

def t11_lambda(agg):
    f = lambda a: a.fill(0)
    f(agg.data)
    return xr.DataArray(np.zeros(3))

def t12_break(agg, c=None):
    x = np.zeros(3)
    while True:
        if c:
            x = agg.data
            break
        x = np.zeros(3)
    x[:] = 0
    return xr.DataArray(np.zeros(3))

def t13_list_of_inputs(agg):
    layers = [agg.data, np.zeros(3)]
    for l in layers:
        l[0] = 1
    return xr.DataArray(np.zeros(3))

def t14_ok_list_fresh(agg):
    layers = [agg.data.copy(), np.zeros(3)]
    for l in layers:
        l[0] = 1
    names = list(agg.coords)
    names.remove('x')
    return xr.DataArray(layers[0])

def t15_asarray_same_dtype(agg):
    data = np.asarray(agg.data, dtype=np.float32)
    data[data < 0] = 0
    return xr.DataArray(data)

def t16_ok_where(agg):
    data = np.where(agg.data < 0, 0, agg.data)
    data[0] = 1
    return xr.DataArray(data)

def t17_setattr_coords(agg):
    agg.attrs = {}
    return xr.DataArray(np.zeros(3))

def t18_tuple_unpack(agg):
    a, b = agg.data, np.zeros(3)
    a, b = b, a
    b[0] = 1
    return xr.DataArray(a)

def t19_nested_closure(agg):
    data = agg.data
    def inner():
        data[0] = 1
    inner()
    return xr.DataArray(np.zeros(3))

def t20_masked(agg):
    m = np.ma.masked_array(agg.data, mask=agg.data > 1)
    m.data[0] = 5
    return xr.DataArray(np.zeros(3))

def t21_ok_mask_index_then_sort(agg):
    s = agg.data.ravel()
    s = s[np.isfinite(s)]
    s.sort()
    return xr.DataArray(s)

def t22_int_index_of_index_array(agg):
    idx = np.argsort(agg.data.ravel())
    row = agg.data[idx[0]]
    row[:] = 0
    return xr.DataArray(np.zeros(3))

def t23_copy_false(agg):
    d = agg.data.astype(np.float64, copy=False)
    d *= 2
    return xr.DataArray(d)

def t24_ok_deepcopy(agg):
    a = copy.deepcopy(agg.attrs)
    a['k'] = 1
    return xr.DataArray(np.zeros(3), attrs=a)

def t25_global_unsupported(agg):
    global Z
    Z = agg.data
    return xr.DataArray(np.zeros(3))

def t26_try_except(agg):
    try:
        x = agg.data
    except Exception:
        x = np.zeros(3)
    x[0] = 1
    return xr.DataArray(np.zeros(3))

def t27_comprehension_elems(agg):
    rows = [r for r in agg.data]
    rows[0][0] = 1
    return xr.DataArray(np.zeros(3))

def t28_star_args(agg):
    f = lambda *args: _k(*args)
    f(agg.data)
    return xr.DataArray(np.zeros(3))

def t29_ok_scalar_reads(agg):
    out = np.zeros(agg.shape)
    rows, cols = agg.data.shape
    for y in range(rows):
        for x in range(cols):
            v = agg.data[y, x]
            out[y, x] = v * 2
    return xr.DataArray(out)

def t30_reshape_write(agg):
    flat = agg.data.reshape(-1)
    flat[0] = 1
    return xr.DataArray(np.zeros(3))


def _pick(a, b, c):
    if c:
        return a
    return b

def _pair(a):
    return np.zeros(3), a

def _rec(a, n):
    if n == 0:
        a[0] = 1
        return a
    return _rec(a, n - 1)

def t31_multi_return(agg, c=None):
    x = _pick(agg.data, np.zeros(3), c)
    x[0] = 1
    return xr.DataArray(np.zeros(3))

def t32_tuple_return(agg):
    z, a = _pair(agg.data)
    a[0] = 1
    return xr.DataArray(z)

def t33_ok_da_copy(agg):
    c = agg.copy()
    c.data[:] = 0
    return c

def t34_copyto(agg):
    np.copyto(agg.data, 0)
    return xr.DataArray(np.zeros(3))

def t35_ctor_alias(agg):
    return xr.DataArray(agg.data, dims=agg.dims)

def t36_transpose_store(agg):
    agg.data.T[0] = 1
    return xr.DataArray(np.zeros(3))

def t37_flat(agg):
    v = agg.values
    v.flat[0] = 1
    return xr.DataArray(np.zeros(3))

def t38_aug_subscript(agg):
    agg.data[0] += 1
    return xr.DataArray(np.zeros(3))

def t39_enumerate(agg):
    for i, row in enumerate(agg.data):
        row[0] = i
    return xr.DataArray(np.zeros(3))

def t40_zip(agg, other):
    for a, b in zip(agg.data, other):
        a[0] = 1
    return xr.DataArray(np.zeros(3))

def t41_dictcomp(agg, names):
    d = {k: agg[k].data for k in names}
    d['a'][0] = 1
    return xr.DataArray(np.zeros(3))

def t43_three_pass(agg):
    a = np.zeros(3)
    b = np.zeros(3)
    c = np.zeros(3)
    i = 0
    while i < 5:
        a[0] = 1
        a = b
        b = c
        c = agg.data
        i += 1
    return xr.DataArray(np.zeros(3))

def t45_ok_empty_like(agg):
    out = np.empty_like(agg.data)
    out[:] = agg.data
    return xr.DataArray(out, coords=agg.coords, dims=agg.dims, attrs=agg.attrs)

def t46_ifexp(agg, flag=None):
    data = agg.data if flag else agg.data.copy()
    data[0] = 1
    return xr.DataArray(np.zeros(3))

def t47_boolop(agg, flag=None):
    data = flag and agg.data
    data[0] = 1
    return xr.DataArray(np.zeros(3))

def t49_with(agg):
    with np.errstate(all='ignore'):
        agg.data[0] = 1
    return xr.DataArray(np.zeros(3))

def t50_partial(agg):
    g = partial(_k)
    g(agg.data)
    return xr.DataArray(np.zeros(3))

def t51_mapper(agg):
    mapper = ArrayTypeFunctionMapping(numpy_func=_k, cupy_func=None, dask_func=None, dask_cupy_func=None)
    mapper(agg)(agg.data)
    return xr.DataArray(np.zeros(3))

def t53_recursion(agg):
    _rec(agg.data, 3)
    return xr.DataArray(np.zeros(3))

def t54_ok_dask_branch(agg):
    if isinstance(agg.data, da.Array):
        agg.data[:] = 0
    return xr.DataArray(np.zeros(3))

def t55_ok_sort_copy(agg):
    agg.data.astype(float).sort()
    s = np.sort(agg.data)
    s[0] = 1
    return xr.DataArray(s)

def t56_sort_inplace(agg):
    agg.data.sort()
    return xr.DataArray(np.zeros(3))

def t58_closure_getter(agg):
    def get():
        return agg.data
    x = get()
    x[0] = 1
    return xr.DataArray(np.zeros(3))

def t59_lambda_default(agg):
    f = lambda a=agg.data: a.fill(0)
    f()
    return xr.DataArray(np.zeros(3))

def t60_append_then_index(agg):
    l = []
    l.append(agg.data)
    l[0][0] = 1
    return xr.DataArray(np.zeros(3))

def t61_ok_append_copy(agg):
    l = []
    l.append(agg.data.copy())
    l[0][0] = 1
    return xr.DataArray(l[0])

def t62_setitem_da(agg):
    agg[0, 0] = 1
    return xr.DataArray(np.zeros(3))

def t63_loc(agg):
    agg.loc[dict(x=0)] = 1
    return xr.DataArray(np.zeros(3))

def t64_values_slice_assign(agg):
    agg.values[:] = agg.values * 2
    return xr.DataArray(np.zeros(3))

def t65_coord_write(agg):
    agg.coords['x'].values[0] = 5
    return xr.DataArray(np.zeros(3))

def t66_del_attr(agg):
    del agg.attrs['res']
    return xr.DataArray(np.zeros(3))

def t67_attrs_update(agg):
    agg.attrs.update(done=True)
    return xr.DataArray(np.zeros(3))

def t68_ok_attrs_dict_copy(agg):
    a = dict(agg.attrs)
    a['k'] = 1
    return xr.DataArray(np.zeros(3), attrs=a)

# ---- wrapper level: which components of the result come from which components of the input
def t70_shallow_copy_template(agg):
    out = np.zeros(3)
    result = agg.copy(deep=False, data=out)
    result.name = 'n'
    return result

def t71_ok_deep_copy_template(agg):
    return agg.copy(deep=True, data=np.zeros(3))

def t72_attrs_fallback_alias_store(agg):
    try:
        attrs = copy.deepcopy(agg.attrs)
    except TypeError:
        attrs = agg.attrs
    attrs['unit'] = '%'
    return xr.DataArray(np.zeros(3), coords=agg.coords, dims=agg.dims, attrs=attrs)

def t73_ok_ctor(agg):
    return xr.DataArray(np.zeros(3), name='n', coords=agg.coords, dims=agg.dims, attrs=agg.attrs)

def t74_arith_keeps_coords(agg):
    return agg * 2

def t75_astype_keeps_coords(agg):
    return agg.astype('f4')

def t76_ok_deep_copy_then_arith(agg):
    c = agg.copy(deep=True)
    return c * 2

def t77_ok_default_copy_is_deep(agg):
    return agg.copy(data=np.zeros(3))

def t78_ok_zeros_like(agg):
    return xr.zeros_like(agg)

def t79_where_keeps_coords(agg):
    return agg.where(agg > 0)

def t80_ufunc_on_object(agg):
    return np.sqrt(agg)

def t81_ok_ufunc_on_cells(agg):
    return xr.DataArray(np.sqrt(agg.data), coords=agg.coords, dims=agg.dims, attrs=agg.attrs)

def t82_to_dataset(agg):
    return agg.to_dataset(name='a')

def t83_ok_deep_to_dataset(agg):
    ds = agg.copy(deep=True).to_dataset(name='a')
    ds['b'] = xr.DataArray(np.zeros(3))
    return ds

def t84_assign_coords_from_input(agg):
    out = xr.DataArray(np.zeros(3), dims=agg.dims)
    return out.assign_coords(lon=agg.coords['lon'])

def t85_copy_deep_flag_unknown(agg, deep=None):
    return agg.copy(deep=deep, data=np.zeros(3))

def t86_copy_copy(agg):
    c = copy.copy(agg)
    return xr.DataArray(np.zeros(3), coords=c.coords, dims=c.dims).assign_coords(band=c.band)

def t87_ok_copy_deepcopy(agg):
    c = copy.deepcopy(agg)
    c.attrs['k'] = 1
    c.coords['lon'].values[0] = 1
    return c

def t88_shallow_copy_coord_write(agg):
    c = agg.copy(deep=False)
    c.coords['lon'].values[0] = 1
    return xr.DataArray(np.zeros(3))

def t89_ok_shallow_copy_attrs_are_own(agg):
    c = agg.copy(deep=False, data=np.zeros(3))
    c.attrs['k'] = 1
    return xr.DataArray(c.data, coords=agg.coords, dims=agg.dims, attrs=c.attrs)

def t90_attrs_setattr(agg):
    agg.attrs = dict(agg.attrs, k=1)
    return xr.DataArray(np.zeros(3))

def t91_name_store(agg):
    agg.name = 'renamed'
    return xr.DataArray(np.zeros(3))

def t92_ok_astype_cells_fresh(agg):
    c = agg.astype('f8')
    c.data[:] = 0
    return xr.DataArray(c.data, coords=agg.coords, dims=agg.dims, attrs=agg.attrs)

def t93_transpose_view(agg):
    return agg.T

def t94_compare_keeps_coords(agg):
    return agg > 0

def t95_ok_return_helper_ctor(agg, flag=None):
    if flag:
        return xr.DataArray(np.zeros(3), coords=agg.coords, dims=agg.dims, attrs=agg.attrs)
    return xr.DataArray(np.ones(3), coords=agg.coords, dims=agg.dims, attrs=agg.attrs)

def t97_dataset_keeps_what_it_is_given(agg):
    ds = xr.Dataset()
    ds['layer'] = agg
    return ds

def t98_ok_dataset_of_fresh(agg):
    ds = agg.copy(deep=True).to_dataset(name='a')
    ds['b'] = xr.DataArray(np.zeros(3), coords=agg.coords, dims=agg.dims, attrs=agg.attrs)
    return ds

def t99_augassign_attrs(agg):
    agg.attrs |= {'k': 1}
    return xr.DataArray(np.zeros(3))

def t96_return_either(agg, flag=None):
    if flag:
        return xr.DataArray(np.zeros(3), coords=agg.coords, dims=agg.dims, attrs=agg.attrs)
    return agg.copy(deep=False, data=np.ones(3))

# ---- stores through a parameter on paths that end in `raise` (the input must be intact when the call is rejected),
#      item assignment of a coordinate / variable by name
def _reject(r):
    r.attrs.clear()
    raise ValueError('rejected')

def t100_attrs_store_then_raise(agg, flag=None):
    if flag:
        agg.attrs['seen'] = True
        raise ValueError('rejected')
    return xr.DataArray(np.zeros(3))

def t101_coord_item_assign_by_name(agg, dim='x', mode=None):
    if mode == 'wrap' and agg[dim].max() > 10:
        agg[dim] = agg[dim].data % 10
    return xr.DataArray(np.zeros(3), dims=agg.dims)

def t102_cells_store_then_raise(agg):
    agg.data[0, 0] = 0
    raise ValueError('never returns')

def t103_coords_item_store_in_try(agg):
    try:
        agg.coords['lon'] = agg.coords['lon'] + 1
    except KeyError:
        raise ValueError('no lon')
    return xr.DataArray(np.zeros(3))

def t104_ok_raise_only(agg, flag=None):
    if flag:
        msg = 'bad ' + str(flag)
        raise ValueError(msg)
    return xr.DataArray(np.zeros(3), coords=agg.coords, dims=agg.dims, attrs=agg.attrs)

def t105_nested_raise_after_write(agg, a=None, b=None):
    if a:
        if b:
            agg.values[...] = 0
            raise ValueError('b')
        raise TypeError('a')
    return xr.DataArray(np.zeros(3))

def t106_helper_writes_then_raises(agg):
    _reject(agg)
    return xr.DataArray(np.zeros(3))

def t107_item_assign_const_name(agg):
    agg['lon'] = agg['lon'] - 360
    return xr.DataArray(np.zeros(3))

def t108_ok_item_assign_on_deep_copy(agg, dim='x'):
    c = agg.copy(deep=True)
    c[dim] = c[dim].data % 10
    c.attrs['wrapped'] = True
    return c

def t109_coord_store_else_branch_raises(agg, dim='x'):
    if agg[dim].min() >= 0:
        agg.coords[dim] = agg[dim].data + 1
    else:
        raise ValueError('negative')
    return xr.DataArray(np.zeros(3))
'''

# the input buffers (names as in Entry.params) a pattern's program may write -- theorem translator_selftest_components
SELFTEST_WRITES = {
    "t62_setitem_da": ["agg"], "t64_values_slice_assign": ["agg"], "t65_coord_write": ["agg.coords"],
    "t66_del_attr": ["agg.attrs"], "t67_attrs_update": ["agg.attrs"], "t90_attrs_setattr": ["agg.attrs"],
    "t91_name_store": ["agg.attrs"], "t99_augassign_attrs": ["agg.attrs"],
    "t100_attrs_store_then_raise": ["agg.attrs"], "t101_coord_item_assign_by_name": ["agg", "agg.coords"],
    "t102_cells_store_then_raise": ["agg"], "t103_coords_item_store_in_try": ["agg.coords"],
    "t104_ok_raise_only": [], "t105_nested_raise_after_write": ["agg"], "t106_helper_writes_then_raises": ["agg.attrs"],
    "t107_item_assign_const_name": ["agg", "agg.coords"], "t108_ok_item_assign_on_deep_copy": [],
    "t109_coord_store_else_branch_raises": ["agg.coords"],
}


def selftest_entries(mods):
    m = Module("selftest", ast.parse(SELFTEST_SOURCE))
    mods2 = dict(mods)
    mods2["selftest"] = m
    out = []
    for fn, node in m.funcs.items():
        if fn.startswith("_"):
            continue
        e = translate_entry(mods2, "selftest", fn, node)
        e["items"] = slice_items(e["items"], e["ret"])
        e["expect_safe"] = "_ok_" in fn
        out.append(e)
    return out


def generate(repo):
    mods = load_modules(repo)
    mx = MetaExtractor(mods)
    out = ["import XrsVerif.Model.BufProg", "import XrsVerif.Model.Meta",
           "/-! GENERATED by harness/facts_bufprog.py from /repo's current source -- buffer programs and metadata",
           "    facts of every public NumPy-backend wrapper (helpers and numba kernels inlined). -/",
           "namespace XrsVerif.Gen", "open XrsVerif.BP XrsVerif.Meta", ""]
    rep = {"entries": {}, "primitive_table": {"functions": len(PRIMS), "methods": len(METHODS), "wrapper": len(WPRIMS)}}
    out.append("/-- the wrapper-level primitive table: how an xarray constructor / copy primitive obtains the cells, the")
    out.append("    coordinates and the attrs of its result (probed on the real xarray by harness/corr_C10.py on every run) -/")
    for nm, (md, mc, ma) in WPRIMS.items():
        out.append(f"def {prim_lean_name(nm)} : WPrim := ⟨{lean_str(nm)}, {MODE_LEAN[md]}, {MODE_LEAN[mc]}, {MODE_LEAN[ma]}⟩")
    out.append("def primTable : List WPrim := [" + ", ".join(prim_lean_name(nm) for nm in WPRIMS) + "]\n")
    names = []
    for mn, fn, node in public_functions(mods):
        e = translate_entry(mods, mn, fn, node)
        sigma = {p.arg: p.arg for p in node.args.args + node.args.kwonlyargs}
        try:
            facts = mx.facts(mods[mn], node, sigma)
        except Exception as ex:     # never a silent default
            facts = [dict(kind="other", text="extractor failed: " + repr(ex)[:40])]
        lname = f"{mn}_{fn}"
        names.append(lname)
        raw_ops = count_ops(e["items"])
        e["items"] = slice_items(e["items"], e["ret"])
        em = LeanEmitter("prog_" + lname)
        top = em.block(e["items"], 2, 0)
        # definitions are emitted innermost first (a block only refers to blocks created after it started)
        out.extend(d for d in reversed(em.defs))
        out.append(f"def prog_{lname} : Prog := {top}\n")
        out.append(f"def entry_{lname} : Entry := {{ name := {lean_str(mn + '.' + fn)}, k := {e['k']}, "
                   f"params := {str_list(e['params'])}, ret := ⟨{e['ret'][0]}, {e['ret'][1]}, {e['ret'][2]}⟩, "
                   f"prog := prog_{lname} }}\n")
        out.append(f"def meta_{lname} : FuncMeta := {{ name := {lean_str(mn + '.' + fn)}, "
                   f"rebinds := {str_list(sorted({r[0] for r in e['rebinds']}))}, "
                   f"returns := [{', '.join(lean_fact(f) for f in facts)}] }}\n")
        rep["entries"][mn + "." + fn] = dict(
            status=e["status"], k=e["k"], nparams=e["nparams"], params=e["params"], ret=list(e["ret"]), wused=e["wused"],
            ops=count_ops(e["items"]), raw_ops=raw_ops,
            vars=e["nvars"], used=e["used"], unclassified=e["unclassified"], unknowns=e["unknowns"], rebinds=e["rebinds"],
            inlined=e["inlined"], meta=facts, input_writes=e["input_writes"], hints=e["hints"])
    st_names, st_writes = [], []
    for e in selftest_entries(mods):
        lname = "selftest_" + e["func"]
        em = LeanEmitter("prog_" + lname)
        top = em.block(e["items"], 2, 0)
        out.extend(d for d in reversed(em.defs))
        out.append(f"def prog_{lname} : Prog := {top}\n")
        st_names.append(f"({lean_str(e['func'])}, prog_{lname}, {e['k']}, [{', '.join(map(str, e['ret']))}], "
                        f"{'true' if e['expect_safe'] else 'false'})")
        if e["func"] in SELFTEST_WRITES:
            want = sorted(e["params"].index(n) for n in SELFTEST_WRITES[e["func"]])
            st_writes.append(f"({lean_str(e['func'])}, prog_{lname}, {e['k']}, [{', '.join(map(str, want))}])")
    out.append("/-- translator self-test: (pattern, program, input buffers, slots of the result, must the checker accept it) -/")
    out.append("def selftest : List (String × Prog × Nat × List Nat × Bool) := [\n  " + ",\n  ".join(st_names) + "]\n")
    rep["selftest_patterns"] = len(st_names)
    out.append("/-- translator self-test, component level: (pattern, program, input buffers, the input buffers -- cells `i`, "
               "coordinates `n+i`,\n    attrs `2n+i` of parameter `i` -- that the program may write).  A store through a "
               "parameter is a write of the corresponding\n    component on every path, also on a path that ends in `raise` -/")
    out.append("def selftestWrites : List (String × Prog × Nat × List Nat) := [\n  " + ",\n  ".join(st_writes) + "]\n")
    rep["selftest_write_patterns"] = len(st_writes)
    out.append("def allEntries : List Entry := [" + ", ".join("entry_" + n for n in names) + "]\n")
    out.append("def allMeta : List FuncMeta := [" + ", ".join("meta_" + n for n in names) + "]\n")
    out.append("end XrsVerif.Gen")
    yield "BufProgs.lean", "\n".join(out) + "\n", rep
