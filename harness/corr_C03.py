"""
C03 -- zonal tables do not depend on how Dask rasters are chunked.

Proof side (Props/C03.lean): per-block partial tables of the position-faithful model, combined by the
`_DASK_STATS` combiners read from the source (stats) or added key-wise (crosstab), equal the NumPy
table for *every* partition of the cells into blocks, hence every chunking of both rasters (the
values are rechunked onto the zones chunking), every sorting permutation in every block.

Tie: H -- the real dask path (`stats(...).compute()`, `crosstab(...).compute()`, zones and values
chunked independently, schedulers synchronous / threads with 1, 2, 4 workers) against the Lean driver
on the same rasters and chunkings; G -- combiner shapes, `_dask_mean/_std/_var`, the rechunk calls.
Oracle (search): the NumPy-backed call on the same rasters (the property is "same table as NumPy").
Input dimensions of the dask streams: the rasters' cells / ids / selections (C02, C04 generators), the chunk structure of
each raster (`raster_chunks`: random / single chunk / 1-cell chunks / regular with ragged remainder / on the zone
layout's edges; equal on both rasters, equal along one axis, independent), the *dimension names* of the two rasters
(`gen_dims`: equal, different, swapped, none given -- the library pairs blocks by position, anything that matches
chunks by name must not be misled), 2-D and 3-D values, scheduler and worker count.
The dask calls cost 0.7-2 s each, so they are spread over a pool of forked worker processes.
"""
import itertools
import math
import multiprocessing as mp
import os

import numpy as np

import corr_C04 as X4
import zonal_common as Z
from common import Driver, tok

PROP = "C03"
SCHEDULERS = [("synchronous", None), ("threads", 1), ("threads", 2), ("threads", 4)]


# ---------------------------------------------------------------- worker side
def _job(job):
    kind, c, zch, vch, sched, nw = job
    zch = (tuple(zch[0]), tuple(zch[1]))
    vch = tuple(tuple(x) for x in vch)
    if kind == "stats":
        return Z.run_stats(c, "dask", zch, vch, scheduler=sched, num_workers=nw)
    return Z.run_crosstab(c, "dask", zch, vch, scheduler=sched, num_workers=nw)


def warm_up():
    """compile the numba kernels for every dtype once in the parent, so the forked workers inherit them"""
    for zdt in ("float64", "float32", "int32", "int64"):
        for vdt in ("float64", "float32", "int32", "int64"):
            c = dict(h=1, w=2, zones=["1", "2"], zdtype=zdt, values=["1", "2"], vdtype=vdt, nodata=None, zone_ids=None,
                     cat_ids=None, stats=["sum"], agg="count")
            Z.run_stats(c)
            Z.run_crosstab(c)


def pool_map(jobs):
    if not jobs:
        return []
    warm_up()
    n = max(1, min(12, (os.cpu_count() or 2) - 2, len(jobs)))
    ctx = mp.get_context("fork")
    with ctx.Pool(n) as pool:
        return pool.map(_job, jobs, chunksize=max(1, len(jobs) // (n * 8)))


# ---------------------------------------------------------------- classification of a failure
def has_ninf(c):
    return bool(np.isneginf(Z.case_arrays(c)[0].astype(np.float64)).any()) and not Z.source_facts().get("stripIndices")


def classify_stats(c, dask_tbl, np_tbl):
    if has_ninf(c):
        return "dask-stats:neg-inf-zone-cells-shift-slices"
    if isinstance(dask_tbl, dict) and isinstance(np_tbl, dict) and dask_tbl.get("zone") == np_tbl.get("zone"):
        only_empty = True
        for s in c["stats"]:
            for x, y in zip(dask_tbl[s], np_tbl[s]):
                same = (x != x and y != y) or x == y or (s not in Z.EXACT_STATS and Z.close(x, y, rel=1e-5, abs_=1e-6))
                if not same and not (y != y and x == 0.0 and s in ("sum", "count")):
                    only_empty = False
        if only_empty and Z.source_facts().get("comb", {}).get("sum") != "nansumNaN":
            return "dask-stats:empty-zone-sum-count-zero"
    return "dask-stats:table"


def classify_xtab(c, zch, vch):
    unaligned = "layers" not in c and [list(x) for x in zch] != [list(x) for x in vch[-2:]] \
        and not Z.source_facts().get("crosstab2dAligns")
    if has_ninf(c):
        return "dask-crosstab:neg-inf-zone-cells" + ("+values-chunks-not-aligned" if unaligned else "-shift-slices")
    if unaligned:
        return "dask-crosstab:values-chunks-not-aligned-to-zones"
    return "dask-crosstab:table"


# ---------------------------------------------------------------- case lists
def chunkings(h, w):
    return [(r, c) for r in Z.compositions(h) for c in Z.compositions(w)]


def stats_case(rng, max_h=5, max_w=6):
    c = Z.make_stats_case(rng, max_h, max_w, need_one=True)
    if not Z.wanted_zones(c):          # the property requires at least one requested zone to exist
        c["zone_ids"] = None
    if not Z.present_zones(c):
        c["zones"][0] = tok(1.0)
    return c


def xtab2d_case(rng, max_h=4, max_w=5):
    c = X4.make_case_2d(rng, max_h, max_w)
    X4.bias_selection(rng, c)
    if not Z.wanted_zones(c):
        c["zone_ids"] = None
    if not Z.present_zones(c):
        c["zones"][0] = tok(1.0)
    return c


def xtab3d_case(rng):
    c = X4.make_case_3d(rng, 4, 4)
    c["agg"] = "count"
    if not Z.wanted_zones(c):
        c["zone_ids"] = None
    if not Z.present_zones(c):
        c["zones"][0] = tok(1.0)
    return c


def layout_cuts(c):
    """the rows / columns at which the zones raster changes (the edges of rasterised polygons): chunk borders put there
    give blocks that lie inside one zone, or hold one zone and background"""
    z = np.array([Z.untok(t) for t in c["zones"]], dtype=np.float64).reshape(c["h"], c["w"])
    same = lambda a, b: bool(np.all((a == b) | (np.isnan(a) & np.isnan(b))))  # noqa: E731
    rows = [i for i in range(1, c["h"]) if not same(z[i], z[i - 1])]
    cols = [j for j in range(1, c["w"]) if not same(z[:, j], z[:, j - 1])]
    return rows, cols


def cuts_to_chunks(n, cuts):
    cuts = [0] + sorted(cuts) + [n]
    return tuple(cuts[i + 1] - cuts[i] for i in range(len(cuts) - 1))


CHUNK_CLASSES = ["random", "random", "single", "cells", "regular", "regular"]


def axis_chunks(rng, n, cls):
    """chunks of one axis of length n: a random composition; one chunk; 1-cell chunks; equal chunks of size k with a
    ragged remainder when k does not divide n"""
    if cls == "single":
        return (n,)
    if cls == "cells":
        return (1,) * n
    if cls == "regular":
        k = rng.randint(1, max(1, n - 1))
        return (k,) * (n // k) + ((n % k,) if n % k else ())
    return Z.gen_chunks(rng, n)


def raster_chunks(rng, h, w):
    """-> (chunks, class): both axes of one class (a raster in one chunk, a raster cut into cells, …) or one class per axis"""
    if rng.random() < 0.5:
        cls = rng.choice(CHUNK_CLASSES)
        return (axis_chunks(rng, h, cls), axis_chunks(rng, w, cls)), cls
    a, b = rng.choice(CHUNK_CLASSES), rng.choice(CHUNK_CLASSES)
    return (axis_chunks(rng, h, a), axis_chunks(rng, w, b)), (a if a == b else "mixed")


def rand_chunks(rng, c, three=False):
    zch, zcls = raster_chunks(rng, c["h"], c["w"])
    if rng.random() < 0.3:            # chunk borders on the zone layout's own edges (all of them, or some)
        rows, cols = layout_cuts(c)
        if rng.random() < 0.5:
            rows, cols = [x for x in rows if rng.random() < 0.6], [x for x in cols if rng.random() < 0.6]
        zch, zcls = (cuts_to_chunks(c["h"], rows), cuts_to_chunks(c["w"], cols)), "layout"
    u = rng.random()
    if u < 0.15:
        vch, vcls = zch, zcls
    elif u < 0.3:                     # the same along one axis, different along the other
        other, vcls = raster_chunks(rng, c["h"], c["w"])
        vch = (zch[0], other[1]) if rng.random() < 0.5 else (other[0], zch[1])
    elif u < 0.5:                     # the same chunk sizes in another order (a flipped / rolled raster): same number of
        def perm(ch):                 # blocks, same largest chunk, other borders
            ch = list(ch)
            if len(set(ch)) > 1:
                first = tuple(ch)
                while tuple(ch) == first:
                    rng.shuffle(ch)
            return tuple(ch)
        vch, vcls = (perm(zch[0]), perm(zch[1])), "permuted"
        if vch == tuple(zch):         # all chunks of an axis equal: nothing to permute
            vch, vcls = raster_chunks(rng, c["h"], c["w"])
    else:
        vch, vcls = raster_chunks(rng, c["h"], c["w"])
    if three:
        vch = (axis_chunks(rng, len(c["layers"]), rng.choice(CHUNK_CLASSES)),) + tuple(vch)
    c["chunk_classes"] = [zcls, vcls]
    return zch, vch


# ---------------------------------------------------------------- dimension names
DIM_NAMES = [["y", "x"], ["lat", "lon"], ["row", "col"], ["northing", "easting"], "auto"]
LAYER_NAMES = ["cat", "band", "layer", "time"]


def gen_dims(rng, c, three=False):
    """names of the dimensions of the two rasters: the usual ("y", "x") on both; other names, equal on both; different
    names on the two rasters (chunks can then not be matched by name, only by position); the same two names the other
    way round; one raster built without names (xarray's dim_0, dim_1)"""
    u = rng.random()
    if u < 0.35:
        z, v, cls = ["y", "x"], ["y", "x"], "same:y,x"
    elif u < 0.45:
        z = rng.choice(DIM_NAMES[1:])
        v, cls = z, "same:other"
    elif u < 0.80:
        z, v = rng.sample(DIM_NAMES, 2)
        cls = "different"
    else:
        z = rng.choice(DIM_NAMES[:4])
        v, cls = [z[1], z[0]], "swapped"
    if three and v != "auto":
        v = [rng.choice(LAYER_NAMES)] + list(v)
    if three and v == "auto" and z == "auto":
        cls = "different"             # dim_0, dim_1 of the zones are dim_1, dim_2 of the values
    c["zdims"], c["vdims"], c["dims_class"] = z, v, cls
    return c


def key_of(kind, c, zch, vch, sched, nw):
    return dict(c, kind=kind, zchunks=[list(x) for x in zch], vchunks=[list(x) for x in vch], scheduler=sched, num_workers=nw)


# ---------------------------------------------------------------- evaluation of one finished job
def eval_stats(r, key, dres, pending):
    c = {k: v for k, v in key.items() if k not in ("kind", "zchunks", "vchunks", "scheduler", "num_workers")}
    st, out = dres
    nst, nout = Z.run_stats(c)
    if nst != "ok":
        if st == nst:
            return
        r.fail("dask-stats:numpy-raises", f"numpy backend raised {nst} ({nout}) while dask gave {st}", key)
        return
    if st != "ok":
        r.fail(classify_stats(c, None, nout) + ":raises",
               f"dask stats raised {st}: {out}; the NumPy backend returns {len(nout['zone'])} rows", key)
    else:
        bad = Z.tables_agree(out, nout, c["stats"], c["vdtype"], c)
        if bad:
            r.fail(classify_stats(c, out, nout), f"dask (zones chunks {key['zchunks']}, values chunks {key['vchunks']}, "
                   f"{key['scheduler']}) vs numpy: {bad}", key)
    line = "zdask " + " ".join(Z.req_common(c) + ["stats=" + ",".join(c["stats"])]
                               + Z.chunk_args(c, key["zchunks"], key["vchunks"]))
    pending.append((key, st, out, line))


def eval_xtab(r, key, dres, pending):
    c = {k: v for k, v in key.items() if k not in ("kind", "zchunks", "vchunks", "scheduler", "num_workers")}
    st, out = dres
    nst, nout = Z.run_crosstab(c)
    three = "layers" in c
    if nst != "ok":
        if st != nst:
            r.fail("dask-crosstab:numpy-raises", f"numpy backend raised {nst} ({nout}) while dask gave {st}", key)
        return
    kcls = classify_xtab(c, key["zchunks"], key["vchunks"])
    if st != "ok":
        r.fail(kcls + ":raises", f"dask crosstab raised {st}: {out} (zones chunks {key['zchunks']}, values chunks "
               f"{key['vchunks']}); the NumPy backend returns a table", key)
    else:
        bad = None
        if out["zone"] != nout["zone"]:
            bad = f"zone columns differ: {out['zone']} vs {nout['zone']}"
        elif out["cats"] != nout["cats"]:
            bad = f"category columns differ: {out['cats']} vs {nout['cats']}"
        else:
            for k, (a, b) in enumerate(zip(out["rows"], nout["rows"])):
                for j, (x, y) in enumerate(zip(a, b)):
                    same = (x != x and y != y) or (x == y if c["agg"] == "count" else Z.close(x, y, rel=1e-9, abs_=1e-9))
                    if not same and bad is None:
                        bad = f"zone {out['zone'][k]} category {out['cats'][j]}: {x} (dask) vs {y} (numpy)"
        if bad:
            r.fail(kcls, f"dask (zones chunks {key['zchunks']}, values chunks {key['vchunks']}) vs numpy: {bad}", key)
    parts = Z.req_common(c)
    if not three:
        parts.append(f"agg={c['agg']}")
    line = ("xtab3dask " if three else "xtabdask ") + " ".join(parts + Z.chunk_args(c, key["zchunks"], key["vchunks"]))
    pending.append((key, st, out, line))


def compare_models(r, pending):
    replies = Driver().ask([p[3] for p in pending])
    for (key, st, out, _), rep in zip(pending, replies):
        c = key
        if key["kind"] == "stats":
            if rep.startswith("err:") or rep.startswith("bad-"):
                bad = None if st.startswith("err:") and rep.startswith("err:") else f"model {rep}, real {st}"
            elif st != "ok":
                bad = f"real code raised {st}: {out}, model returned a table"
            else:
                bad = Z.model_vs_real_table(Z.parse_stats_reply(rep, c["stats"]), out, c["stats"], c["vdtype"], c, dask_formula=True)
        else:
            bad = X4.compare(c, st, out, rep)
        if bad:
            r.disagree("dask-" + key["kind"], key, bad, rep[:300])


# ---------------------------------------------------------------- the run
def tags_of(key):
    return [f"stream:dask-{key['kind']}", f"shape:{key['h']}x{key['w']}", f"scheduler:{key['scheduler']}",
            f"workers:{key['num_workers']}", f"zblocks:{len(key['zchunks'][0]) * len(key['zchunks'][1])}",
            "chunks:" + ("same" if key["zchunks"] == key["vchunks"][-2:] else "independent"),
            "chunks-rows:" + ("equal" if key["zchunks"][0] == key["vchunks"][-2] else "different"),
            "chunks-cols:" + ("equal" if key["zchunks"][1] == key["vchunks"][-1] else "different"),
            f"dims:{key.get('dims_class', 'same:y,x')}",
            f"zchunk-class:{(key.get('chunk_classes') or ['?', '?'])[0]}",
            f"vchunk-class:{(key.get('chunk_classes') or ['?', '?'])[1]}",
            "dims+chunks:" + ("names-differ" if key.get("dims_class", "same:y,x")[:4] != "same" else "names-equal")
            + "/" + ("chunks-equal" if key["zchunks"] == key["vchunks"][-2:] else "chunks-differ"),
            f"vdtype:{key['vdtype']}", f"zone_ids:{'none' if key.get('zone_ids') is None else 'list'}"]


def run(r, scale=1.0):
    rng = r.rng
    quick = r.tier == "quick"
    n_stats, n_x2, n_x3 = (110, 38, 12) if quick else (1000, 330, 110)
    n_stats, n_x2, n_x3 = int(n_stats * scale), int(n_x2 * scale), int(n_x3 * scale)
    r.rule = ("rasters 1x1..5x6 as in C02 / C04 (every requested table has at least one existing zone); zones and values "
              "chunked independently, each axis of each raster from a chunk class: random composition / one chunk / 1-cell "
              "chunks / equal chunks of size k with a ragged remainder (one class for the whole raster or one per axis), or on "
              "the zone layout's own edges (3-D: also the layer axis); values: 15% the zones' chunking, 15% equal along one axis "
              "only, 20% the zones' chunk sizes in another order, 50% independent; "
              "dimension names: ('y','x') on both rasters (35%), other names on both (10%), different names on the two "
              "rasters (35%: chunks cannot be matched by name), the same two names the other way round (20%), names taken "
              "from y,x / lat,lon / row,col / northing,easting / none given (dim_0, dim_1); 3-D values with a layer dimension "
              "cat / band / layer / time; schedulers synchronous / threads with 1, 2, 4 workers; thorough adds every pair of "
              "chunk compositions (zones x values) for small shapes; non-trivial = more than one block")
    r.assumptions += ["dask delivers to every block function exactly the cells of its chunk, in row-major order "
                      "(observed through the model agreeing with the real result for every chunking tried)",
                      "block functions and combiners are pure: the model is a function, the schedulers are only observed",
                      "exact arithmetic on small integers / dyadics; zone ids, counts, min, max compared exactly, "
                      "sum / mean / std / var to the rounding of the documented formulas"]
    r.trusted += ["numpy, dask (from_array, rechunk, to_delayed, delayed, stack, dataframe assembly, schedulers), pandas, xarray"]
    jobs, keys = [], []

    def add(kind, c, zch, vch):
        sched, nw = rng.choice(SCHEDULERS)
        keys.append(key_of(kind, c, zch, vch, sched, nw))
        jobs.append((kind, c, zch, vch, sched, nw))

    for body in r.corpus():
        k = dict(body.get("case", body))
        c = {a: b for a, b in k.items() if a not in ("kind", "zchunks", "vchunks", "scheduler", "num_workers")}
        keys.append(k)
        jobs.append((k["kind"], c, k["zchunks"], k["vchunks"], k.get("scheduler"), k.get("num_workers")))
        r.tag("corpus")
    for _ in range(n_stats):
        c = gen_dims(rng, stats_case(rng))
        add("stats", c, *rand_chunks(rng, c))
    for _ in range(n_x2):
        c = gen_dims(rng, xtab2d_case(rng))
        add("xtab2d", c, *rand_chunks(rng, c))
    for _ in range(n_x3):
        c = gen_dims(rng, xtab3d_case(rng), three=True)
        add("xtab3d", c, *rand_chunks(rng, c, three=True))
    if not quick:
        # every pair (zones chunking, values chunking) of small shapes
        exhaustive = []
        for (h, w), reps in (((2, 2), 2), ((2, 3), 2), ((3, 2), 2), ((1, 4), 1), ((4, 1), 1), ((3, 3), 1)):
            for _ in range(reps):
                c = stats_case(rng, h, w)
                c2 = dict(c)
                while (c2["h"], c2["w"]) != (h, w):
                    c2 = stats_case(rng, h, w)
                gen_dims(rng, c2)
                for zch in chunkings(h, w):
                    for vch in chunkings(h, w):
                        add("stats", c2, zch, vch)
                exhaustive.append(f"stats {h}x{w}: {len(chunkings(h, w)) ** 2} chunking pairs")
        for (h, w), reps in (((2, 2), 2), ((2, 3), 1), ((3, 2), 1)):
            for _ in range(reps):
                c2 = xtab2d_case(rng, h, w)
                while (c2["h"], c2["w"]) != (h, w):
                    c2 = xtab2d_case(rng, h, w)
                gen_dims(rng, c2)
                for zch in chunkings(h, w):
                    for vch in chunkings(h, w):
                        add("xtab2d", c2, zch, vch)
                exhaustive.append(f"crosstab {h}x{w}: {len(chunkings(h, w)) ** 2} chunking pairs")
        r.exhaustive = exhaustive
    results = pool_map(jobs)
    pending = []
    for key, dres in zip(keys, results):
        nblocks = len(key["zchunks"][0]) * len(key["zchunks"][1])
        r.case(key, desc=key if r.evaluations < 3 else None, nontrivial=nblocks > 1, tags=tags_of(key))
        if key["kind"] == "stats":
            eval_stats(r, key, dres, pending)
        else:
            eval_xtab(r, key, dres, pending)
    compare_models(r, pending)


def search(r):
    run(r, scale=1.5)


def replay(r, body):
    k = dict(body["case"])
    c = {a: b for a, b in k.items() if a not in ("kind", "zchunks", "vchunks", "scheduler", "num_workers")}
    res = _job((k["kind"], c, k["zchunks"], k["vchunks"], k.get("scheduler"), k.get("num_workers")))
    if k["kind"] == "stats":
        eval_stats(r, k, res, [])
    else:
        eval_xtab(r, k, res, [])
    if r.failures:
        print("still fails:", r.failures[0]["what"])
        return 1
    print("does not fail on the current tree")
    return 0
