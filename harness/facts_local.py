"""
Layer T2 facts for C17 (xrspatial/local.py) -> lean/XrsVerif/Gen/LocalFacts.lean

Read from the `ast` of /repo's *current* source (nothing is imported or run); for every public operator

* the *frame* (`Frame`): the lock-step `np.nditer([raster[var].data for var in data_vars], order=…)` loop that
  builds the per-cell tuples with `.item()`, its `order` (`'C'` = `.c`; absent or anything else = `.other`), the
  per-cell loop over that list (zipped with the row-major reference list where there is one; a list
  comprehension is the same loop), and the final `np.reshape(…, (-1, raster[data_vars[0]].data.shape[1]))`;
* the *NaN test* that writes NaN for a cell: `np.isnan(comb).any()` / `np.any(np.isnan(comb))`, possibly through
  a temporary and possibly the first operand of an `or`, is `.anyNan`; anything else -- e.g.
  `np.isnan(sum(comb))` -- is `.other "<source>"`;
* frequency operators: the comparison between the reference and a layer value, normalised to
  `ref <cmp> item` (`item < ref` is `.gt`), `.other "<source>"` for anything that is not a single comparison of
  those two names (e.g. a call `np.isclose(ref, item)`); the counter's start and step;
* positions: `comb.index(min(comb)) + 1` -> selector, offset (temporaries resolved);
* rank: `comb[ref - 1]` after `comb.sort()`, NaN also when `ref - 1 >= len(comb)`;
* combine: ids start at `value = 1`, step `value += 1`, dictionary membership by the tuple, the placeholder
  pass, `attrs=dict(key=<id -> tuple>)`;
* cell_stats: the `funcs` table and `funcs[func](comb)` per cell;
* the *layer selection* (`SelectShape`) of every operator: the `if data_vars:` branch only validates (every statement
  is an `if …: raise …`; `data_vars` is used as passed), the `else` branch starts from `list(raster.data_vars)` and --
  for the operators with a reference layer -- takes the reference variable out *by value*: `data_vars.remove(ref_var)`,
  or a comprehension filtered with `!=` / `not in`; a filter that compares the *names by identity* (`var is not
  ref_var`) or anything else is `.other "<source>"`.

Local names are never compared; an unrecognised piece gives `ok := false` / `.other`, which the theorems of
Props/C17.lean reject.
"""
import ast
import copy
import os

REL = "xrspatial/local.py"
CMP = {ast.Lt: "lt", ast.LtE: "le", ast.Eq: "eq", ast.NotEq: "ne", ast.GtE: "ge", ast.Gt: "gt"}
FLIP = {"lt": "gt", "le": "ge", "eq": "eq", "ne": "ne", "ge": "le", "gt": "lt"}
NP = ("np", "numpy")


class NoMatch(Exception):
    pass


def need(c, what):
    if not c:
        raise NoMatch(what)


def find_func(mod, name):
    for n in mod.body:
        if isinstance(n, ast.FunctionDef) and n.name == name:
            return n
    return None


def is_name(n, name=None):
    return isinstance(n, ast.Name) and (name is None or n.id == name)


def const_int(n):
    if isinstance(n, ast.Constant) and isinstance(n.value, int) and not isinstance(n.value, bool):
        return n.value
    if isinstance(n, ast.UnaryOp) and isinstance(n.op, ast.USub):
        v = const_int(n.operand)
        return None if v is None else -v
    return None


def lean_str(s):
    s = " ".join(s.split())
    return '"' + s.replace("\\", "\\\\").replace('"', '\\"') + '"'


def subst(node, env):
    class T(ast.NodeTransformer):
        def visit_Name(self, n):
            if isinstance(n.ctx, ast.Load) and n.id in env:
                return self.visit(copy.deepcopy(env[n.id]))
            return n
    return T().visit(copy.deepcopy(node))


def np_call(n, fname):
    """np.<fname>(…) -> the call, else None"""
    if isinstance(n, ast.Call) and isinstance(n.func, ast.Attribute) and n.func.attr == fname \
            and isinstance(n.func.value, ast.Name) and n.func.value.id in NP:
        return n
    return None


def append_call(stmt):
    """`L.append(x)` statement -> (L, x)"""
    if isinstance(stmt, ast.Expr) and isinstance(stmt.value, ast.Call) and isinstance(stmt.value.func, ast.Attribute) \
            and stmt.value.func.attr == "append" and is_name(stmt.value.func.value) and len(stmt.value.args) == 1 \
            and not stmt.value.keywords:
        return stmt.value.func.value.id, stmt.value.args[0]
    return None


def is_np_nan(n):
    return isinstance(n, ast.Attribute) and n.attr == "nan" and is_name(n.value) and n.value.id in NP


# ---------------------------------------------------------------- the frame
def frame_of(f):
    """-> (frame dict, iter_list name, per-cell loop info) ; raises NoMatch"""
    fr = dict(ok=False, order=("other", "?"), layersInOrder=False, reshapeByCols=False)
    body = list(f.body)
    nd = [s for s in body if isinstance(s, ast.For) and np_call(s.iter, "nditer")]
    need(len(nd) == 1, "one top-level `for … in np.nditer(…)` loop")
    loop = nd[0]
    call = loop.iter
    need(len(call.args) == 1, "nditer operands")
    ops = call.args[0]
    # [raster[var].data for var in data_vars]
    raster = f.args.args[0].arg
    lio = False
    if isinstance(ops, ast.ListComp) and len(ops.generators) == 1 and not ops.generators[0].ifs \
            and is_name(ops.generators[0].target) and is_name(ops.generators[0].iter, "data_vars"):
        v = ops.generators[0].target.id
        e = ops.elt
        lio = isinstance(e, ast.Attribute) and e.attr == "data" and isinstance(e.value, ast.Subscript) \
            and is_name(e.value.value, raster) and is_name(e.value.slice, v)
    fr["layersInOrder"] = lio
    kws = {k.arg: k.value for k in call.keywords}
    extra = set(kws) - {"order"}
    if "order" not in kws:
        fr["order"] = ("other", "default order 'K' (memory order)")
    elif isinstance(kws["order"], ast.Constant) and kws["order"].value == "C" and not extra:
        fr["order"] = "c"
    else:
        fr["order"] = ("other", ast.unparse(call))
    # body: L.append(tuple|list(g.item() for g in comb))
    need(is_name(loop.target) and len(loop.body) == 1, "nditer loop body")
    ap = append_call(loop.body[0])
    need(ap is not None, "nditer loop appends the cell tuple")
    lname, val = ap
    need(isinstance(val, ast.Call) and is_name(val.func) and val.func.id in ("tuple", "list") and len(val.args) == 1
         and isinstance(val.args[0], ast.GeneratorExp), "tuple(<generator>)")
    g = val.args[0]
    need(len(g.generators) == 1 and not g.generators[0].ifs and is_name(g.generators[0].iter, loop.target.id)
         and is_name(g.generators[0].target), "generator over the nditer item")
    gv = g.generators[0].target.id
    need(isinstance(g.elt, ast.Call) and isinstance(g.elt.func, ast.Attribute) and g.elt.func.attr == "item"
         and is_name(g.elt.func.value, gv) and not g.elt.args, "`.item()` of every operand")
    # the reshape
    for n in ast.walk(f):
        c = np_call(n, "reshape")
        if c is not None and len(c.args) == 2 and isinstance(c.args[1], ast.Tuple) and len(c.args[1].elts) == 2 \
                and const_int(c.args[1].elts[0]) == -1:
            e = c.args[1].elts[1]
            fr["reshapeByCols"] = ast.unparse(e) == f"{raster}[data_vars[0]].data.shape[1]"
    return fr, lname, loop


def cell_loop(f, lname, after):
    """the per-cell loop over iter_list: -> (comb var, ref var | None, body statements | None, comprehension | None,
    ref-list ok)"""
    body = list(f.body)
    idx = body.index(after)
    reflists = {}
    for s in body:
        # ref_list = [item for arr in raster[ref_var].data for item in arr]
        if isinstance(s, ast.Assign) and len(s.targets) == 1 and is_name(s.targets[0]) and isinstance(s.value, ast.ListComp):
            lc = s.value
            if len(lc.generators) == 2 and all(not g.ifs for g in lc.generators) and is_name(lc.elt) \
                    and is_name(lc.generators[1].target, lc.elt.id) and is_name(lc.generators[0].target) \
                    and is_name(lc.generators[1].iter, lc.generators[0].target.id) \
                    and ast.unparse(lc.generators[0].iter) == f"{f.args.args[0].arg}[ref_var].data":
                reflists[s.targets[0].id] = True
    for s in body[idx + 1:]:
        if isinstance(s, ast.For):
            if is_name(s.iter, lname) and is_name(s.target):
                return s.target.id, None, s.body, None, True
            if isinstance(s.iter, ast.Call) and is_name(s.iter.func, "zip") and len(s.iter.args) == 2 \
                    and is_name(s.iter.args[1], lname) and is_name(s.iter.args[0]) \
                    and isinstance(s.target, ast.Tuple) and len(s.target.elts) == 2 \
                    and all(is_name(e) for e in s.target.elts):
                return s.target.elts[1].id, s.target.elts[0].id, s.body, None, bool(reflists.get(s.iter.args[0].id))
        if isinstance(s, ast.Assign) and isinstance(s.value, ast.ListComp) and len(s.value.generators) == 1 \
                and is_name(s.value.generators[0].iter, lname) and is_name(s.value.generators[0].target) \
                and not s.value.generators[0].ifs:
            return s.value.generators[0].target.id, None, None, s.value, True
    raise NoMatch("per-cell loop over the list of tuples")


def loop_env(stmts, protected=()):
    """single-assignment temporaries of a statement list (top level of the loop body)"""
    counts = {}
    for s in stmts:
        for n in ast.walk(s):
            if isinstance(n, ast.Name) and isinstance(n.ctx, ast.Store):
                counts[n.id] = counts.get(n.id, 0) + 1
    env = {}
    for s in stmts:
        if isinstance(s, ast.Assign) and len(s.targets) == 1 and is_name(s.targets[0]) \
                and counts.get(s.targets[0].id) == 1 and s.targets[0].id not in protected:
            env[s.targets[0].id] = s.value
    return env


def classify_nan(test, comb, env):
    """-> (nanTest, [further disjuncts])"""
    t = subst(test, env)
    rest = []
    if isinstance(t, ast.BoolOp) and isinstance(t.op, ast.Or):
        t, rest = t.values[0], t.values[1:]

    def arr_ok(n):          # the tuple itself, or an array made of it
        if is_name(n, comb):
            return True
        c = np_call(n, "array") or np_call(n, "asarray")
        return c is not None and len(c.args) == 1 and is_name(c.args[0], comb) and not c.keywords

    def isnan_of_comb(n):
        c = np_call(n, "isnan")
        return c is not None and len(c.args) == 1 and not c.keywords and arr_ok(c.args[0])
    ok = False
    if isinstance(t, ast.Call) and isinstance(t.func, ast.Attribute) and t.func.attr == "any" and not t.args \
            and not t.keywords and isnan_of_comb(t.func.value):
        ok = True                                   # np.isnan(comb).any()
    c = np_call(t, "any")
    if c is not None and len(c.args) == 1 and not c.keywords and isnan_of_comb(c.args[0]):
        ok = True                                   # np.any(np.isnan(comb))
    return ("anyNan" if ok else ("other", ast.unparse(t))), rest


def nan_guard(stmts, out_names=None):
    """the `if <test>: out.append(np.nan); …; continue` statement of a loop body"""
    for s in stmts:
        if isinstance(s, ast.If) and not s.orelse and s.body and isinstance(s.body[-1], ast.Continue):
            aps = [append_call(b) for b in s.body[:-1]]
            if aps and all(a is not None for a in aps) and any(is_np_nan(a[1]) for a in aps):
                return s
    return None


# ---------------------------------------------------------------- per operator
def freq_shape(f):
    sh = dict(ok=False, nanTest=("other", "?"), cmp=("other", "?"), countInit=0, countStep=0, refRowMajor=False)
    fr, lname, loop = frame_of(f)
    comb, ref, body, comp, refok = cell_loop(f, lname, loop)
    need(body is not None and ref is not None, "loop over zip(ref_list, iter_list)")
    sh["refRowMajor"] = refok
    env = loop_env(body, protected=(comb, ref))
    g = nan_guard(body)
    need(g is not None, "NaN guard")
    sh["nanTest"], rest = classify_nan(g.test, comb, env)
    need(not rest, "NaN guard has further disjuncts")
    inner = [s for s in body if isinstance(s, ast.For)]
    need(len(inner) == 1 and is_name(inner[0].iter, comb) and is_name(inner[0].target) and not inner[0].orelse,
         "`for item in comb`")
    item = inner[0].target.id
    need(len(inner[0].body) == 1 and isinstance(inner[0].body[0], ast.If) and not inner[0].body[0].orelse, "`if <cmp>: count += 1`")
    iff = inner[0].body[0]
    need(len(iff.body) == 1 and isinstance(iff.body[0], ast.AugAssign) and isinstance(iff.body[0].op, ast.Add)
         and is_name(iff.body[0].target) and const_int(iff.body[0].value) is not None, "count += k")
    cnt = iff.body[0].target.id
    sh["countStep"] = const_int(iff.body[0].value)
    t = iff.test
    if isinstance(t, ast.Compare) and len(t.ops) == 1 and type(t.ops[0]) in CMP:
        a, b = t.left, t.comparators[0]
        if is_name(a, ref) and is_name(b, item):
            sh["cmp"] = CMP[type(t.ops[0])]
        elif is_name(a, item) and is_name(b, ref):
            sh["cmp"] = FLIP[CMP[type(t.ops[0])]]
        else:
            sh["cmp"] = ("other", ast.unparse(t))
    else:
        sh["cmp"] = ("other", ast.unparse(t))
    inits = [s for s in body if isinstance(s, ast.Assign) and len(s.targets) == 1 and is_name(s.targets[0], cnt)]
    need(len(inits) == 1 and const_int(inits[0].value) is not None and body.index(inits[0]) < body.index(inner[0]), "count = 0")
    sh["countInit"] = const_int(inits[0].value)
    last = append_call(body[-1])
    need(last is not None and is_name(last[1], cnt), "out.append(count)")
    others = [s for s in body if s not in (g, inner[0], inits[0], body[-1])]
    need(not others, "nothing else in the per-cell loop")
    sh["ok"] = sh["countInit"] >= 0 and sh["countStep"] >= 0
    return fr, sh


def pos_shape(f):
    sh = dict(ok=False, nanTest=("other", "?"), sel=("other", "?"), offset=0)
    fr, lname, loop = frame_of(f)
    comb, ref, body, comp, _ = cell_loop(f, lname, loop)
    need(body is not None and ref is None, "loop over iter_list")
    env = loop_env(body, protected=(comb,))
    g = nan_guard(body)
    need(g is not None, "NaN guard")
    sh["nanTest"], rest = classify_nan(g.test, comb, env)
    need(not rest, "NaN guard has further disjuncts")
    last = append_call(body[-1])
    need(last is not None, "out.append(position)")
    e = subst(last[1], env)
    need(isinstance(e, ast.BinOp) and isinstance(e.op, ast.Add), "index + offset")
    idx, off = (e.left, e.right) if const_int(e.right) is not None else (e.right, e.left)
    need(const_int(off) is not None, "constant offset")
    sh["offset"] = const_int(off)
    need(isinstance(idx, ast.Call) and isinstance(idx.func, ast.Attribute) and idx.func.attr == "index"
         and is_name(idx.func.value, comb) and len(idx.args) == 1 and not idx.keywords, "comb.index(…)")
    a = idx.args[0]
    if isinstance(a, ast.Call) and is_name(a.func) and a.func.id in ("min", "max") and len(a.args) == 1 \
            and is_name(a.args[0], comb) and not a.keywords:
        sh["sel"] = a.func.id
    else:
        sh["sel"] = ("other", ast.unparse(a))
    others = [s for s in body if s is not g and s is not body[-1]
              and not (isinstance(s, ast.Assign) and len(s.targets) == 1 and is_name(s.targets[0]) and s.targets[0].id in env)]
    need(not others, "nothing else in the per-cell loop")
    sh["ok"] = sh["offset"] >= 0
    return fr, sh


def rank_shape(f):
    sh = dict(ok=False, nanTest=("other", "?"), refOffset=0, beyond=("other", "?"), sorts=False)
    fr, lname, loop = frame_of(f)
    comb, ref, body, comp, refok = cell_loop(f, lname, loop)
    need(body is not None and ref is not None and refok, "loop over zip(ref_list, iter_list)")
    env = loop_env(body, protected=(comb, ref))
    g = nan_guard(body)
    need(g is not None, "NaN guard")
    sh["nanTest"], rest = classify_nan(g.test, comb, env)

    def ref_plus(n):
        if is_name(n, ref):
            return 0
        if isinstance(n, ast.BinOp) and is_name(n.left, ref) and const_int(n.right) is not None:
            if isinstance(n.op, ast.Add):
                return const_int(n.right)
            if isinstance(n.op, ast.Sub):
                return -const_int(n.right)
        return None
    need(len(rest) == 1, "`… or comb_ref >= len(comb)`")
    t = rest[0]
    need(isinstance(t, ast.Compare) and len(t.ops) == 1 and type(t.ops[0]) in CMP, "comparison with len(comb)")

    def is_len(n):
        return isinstance(n, ast.Call) and is_name(n.func, "len") and len(n.args) == 1 and is_name(n.args[0], comb)
    a, b = t.left, t.comparators[0]
    if ref_plus(a) is not None and is_len(b):
        sh["beyond"], off1 = CMP[type(t.ops[0])], ref_plus(a)
    elif ref_plus(b) is not None and is_len(a):
        sh["beyond"], off1 = FLIP[CMP[type(t.ops[0])]], ref_plus(b)
    else:
        raise NoMatch("comb_ref <cmp> len(comb)")
    last = append_call(body[-1])
    need(last is not None, "out.append(comb[comb_ref])")
    e = subst(last[1], env)
    need(isinstance(e, ast.Subscript) and is_name(e.value, comb) and ref_plus(e.slice) is not None, "comb[ref - 1]")
    need(ref_plus(e.slice) == off1, "the same offset in the test and in the index")
    sh["refOffset"] = off1
    sorts = [s for s in body if isinstance(s, ast.Expr) and isinstance(s.value, ast.Call)
             and isinstance(s.value.func, ast.Attribute) and s.value.func.attr == "sort" and is_name(s.value.func.value, comb)]
    sh["sorts"] = len(sorts) == 1 and not sorts[0].value.args and not sorts[0].value.keywords \
        and body.index(sorts[0]) < body.index(g)
    others = [s for s in body if s is not g and s is not body[-1] and s not in sorts
              and not (isinstance(s, ast.Assign) and len(s.targets) == 1 and is_name(s.targets[0]) and s.targets[0].id in env)]
    need(not others, "nothing else in the per-cell loop")
    sh["ok"] = True
    return fr, sh


def pop_shape(f):
    sh = dict(ok=False, nanTest=("other", "?"))
    fr, lname, loop = frame_of(f)
    comb, ref, body, comp, refok = cell_loop(f, lname, loop)
    need(body is not None and ref is not None and refok, "loop over zip(ref_list, iter_list)")
    g = None
    for s in body:
        if isinstance(s, ast.If) and s.body and isinstance(s.body[-1], ast.Continue) and append_call(s.body[0]) \
                and is_np_nan(append_call(s.body[0])[1]):
            g = s
            break
    need(g is not None, "NaN guard")
    env = {k: v for k, v in loop_env(body, protected=(ref,)).items() if k != comb}
    sh["nanTest"], _ = classify_nan(g.test, comb, env)
    sh["ok"] = True
    return fr, sh


def combine_shape(f):
    sh = dict(ok=False, nanTest=("other", "?"), firstId=0, idStep=0, keyed=False)
    fr, lname, loop = frame_of(f)
    comb, ref, body, comp, _ = cell_loop(f, lname, loop)
    need(body is not None and ref is None, "loop over iter_list")
    g = nan_guard(body)
    need(g is not None, "NaN guard")
    sh["nanTest"], rest = classify_nan(g.test, comb, loop_env(body, protected=(comb,)))
    need(not rest, "NaN guard has further disjuncts")
    # the dictionary branch
    ifs = [s for s in body if isinstance(s, ast.If) and s is not g]
    need(len(ifs) == 1 and len(body) == 2, "`if comb in unique_comb: … else: …`")
    br = ifs[0]
    t = br.test
    need(isinstance(t, ast.Compare) and len(t.ops) == 1 and isinstance(t.ops[0], ast.In) and is_name(t.left, comb), "`comb in …`")
    d = t.comparators[0]
    if isinstance(d, ast.Call) and isinstance(d.func, ast.Attribute) and d.func.attr == "keys" and not d.args:
        d = d.func.value
    need(is_name(d), "membership in the dictionary")
    dname = d.id
    # known branch: appends comb and the placeholder 0
    known = [append_call(s) for s in br.body]
    need(len(known) == 2 and all(known), "known-tuple branch appends")
    vals_list = next((a[0] for a in known if const_int(a[1]) == 0), None)
    comb_list = next((a[0] for a in known if is_name(a[1], comb)), None)
    need(vals_list and comb_list, "placeholder 0 / tuple appended")
    # new branch: D[comb] = V; K[V] = comb; appends; V += step
    new = br.orelse
    vname = kname = None
    step = None
    seen = set()
    for s in new:
        ap = append_call(s)
        if isinstance(s, ast.Assign) and len(s.targets) == 1 and isinstance(s.targets[0], ast.Subscript) \
                and is_name(s.targets[0].value, dname) and is_name(s.targets[0].slice, comb) and is_name(s.value):
            vname = s.value.id
            seen.add("D")
        elif isinstance(s, ast.Assign) and len(s.targets) == 1 and isinstance(s.targets[0], ast.Subscript) \
                and is_name(s.targets[0].value) and is_name(s.targets[0].slice) and is_name(s.value, comb):
            kname, kv = s.targets[0].value.id, s.targets[0].slice.id
            seen.add("K:" + kv)
        elif ap and ap[0] == comb_list and is_name(ap[1], comb):
            seen.add("ac")
        elif ap and ap[0] == vals_list and is_name(ap[1]):
            seen.add("av:" + ap[1].id)
        elif isinstance(s, ast.AugAssign) and isinstance(s.op, ast.Add) and is_name(s.target) and const_int(s.value) is not None:
            step = (s.target.id, const_int(s.value))
            need(s is new[-1], "the id is advanced last")
        else:
            raise NoMatch("new-tuple branch: " + ast.unparse(s))
    need(vname and kname and step and step[0] == vname and seen == {"D", "K:" + vname, "ac", "av:" + vname},
         "new-tuple branch: D[comb] = id; K[id] = comb; appends; id += step")
    sh["idStep"] = step[1]
    top = list(f.body)
    inits = [s for s in top if isinstance(s, ast.Assign) and len(s.targets) == 1 and is_name(s.targets[0], vname)
             and const_int(s.value) is not None]
    need(len(inits) == 1, "value = 1")
    sh["firstId"] = const_int(inits[0].value)
    # the placeholder pass and the key
    src = ast.unparse(f)
    fix = False
    for s in top:
        if isinstance(s, ast.For) and is_name(s.iter, vals_list) and is_name(s.target) and len(s.body) == 2 \
                and isinstance(s.body[0], ast.If) and isinstance(s.body[1], ast.AugAssign):
            v = s.target.id
            i0 = s.body[0]
            k = s.body[1].target.id if is_name(s.body[1].target) else None
            if isinstance(i0.test, ast.Compare) and len(i0.test.ops) == 1 and isinstance(i0.test.ops[0], ast.Eq) \
                    and is_name(i0.test.left, v) and const_int(i0.test.comparators[0]) == 0 and k and not i0.orelse \
                    and const_int(s.body[1].value) == 1 and len(i0.body) == 2:
                e = loop_env(i0.body)
                asg = i0.body[1]
                if isinstance(asg, ast.Assign) and len(asg.targets) == 1 and ast.unparse(asg.targets[0]) == f"{vals_list}[{k}]":
                    rhs = ast.unparse(subst(asg.value, e))
                    fix = rhs in (f"[{dname}[{comb_list}[{k}]]][0]", f"{dname}[{comb_list}[{k}]]")
                    kz = [t for t in top if isinstance(t, ast.Assign) and len(t.targets) == 1 and is_name(t.targets[0], k)
                          and const_int(t.value) == 0]
                    fix = fix and len(kz) == 1
    key_ok = f"attrs=dict(key={kname})" in src or f"attrs={{'key': {kname}}}" in src
    sh["keyed"] = bool(fix and key_ok)
    sh["ok"] = sh["firstId"] >= 0 and sh["idStep"] >= 0
    return fr, sh


def stats_shape(mod, f):
    sh = dict(ok=False, funcs=[], perCell=False)
    fr, lname, loop = frame_of(f)
    comb, ref, body, comp, _ = cell_loop(f, lname, loop)
    need(ref is None, "no reference layer")
    for n in mod.body:
        if isinstance(n, ast.Assign) and len(n.targets) == 1 and is_name(n.targets[0], "funcs") and isinstance(n.value, ast.Dict):
            for k, v in zip(n.value.keys, n.value.values):
                kk = k.value if isinstance(k, ast.Constant) else "?"
                vv = v.attr if (isinstance(v, ast.Attribute) and is_name(v.value) and v.value.id in NP) else "?" + ast.unparse(v)
                sh["funcs"].append((str(kk), vv))
    want = f"funcs[func]({comb})"
    if comp is not None:
        sh["perCell"] = ast.unparse(comp.elt) == want
    else:
        sh["perCell"] = len(body) == 1 and append_call(body[0]) is not None and ast.unparse(append_call(body[0])[1]) == want
    sh["ok"] = True
    return fr, sh


# ---------------------------------------------------------------- the layer selection (data_vars / ref_var)
def select_shape(f):
    """how `data_vars` is resolved: never raises (an unreadable piece leaves its field at the rejecting value)"""
    argn = [a.arg for a in f.args.args]
    has_ref = "ref_var" in argn
    sh = dict(ok=False, hasRef=has_ref, explicitAsGiven=False, defaultAll=False,
              dropRef=("other", "?") if has_ref else "byValue")
    if "data_vars" not in argn or not argn:
        return sh
    raster = argn[0]

    def is_dv_test(t):
        if is_name(t, "data_vars"):
            return True
        return isinstance(t, ast.Compare) and len(t.ops) == 1 and isinstance(t.ops[0], ast.IsNot) \
            and is_name(t.left, "data_vars") and isinstance(t.comparators[0], ast.Constant) and t.comparators[0].value is None
    top = [s for s in f.body if isinstance(s, ast.If) and is_dv_test(s.test)]
    if len(top) != 1:
        return sh
    br = top[0]
    # every store to `data_vars` lives in the else branch
    stores = [n for n in ast.walk(f) if isinstance(n, ast.Name) and n.id == "data_vars" and isinstance(n.ctx, (ast.Store, ast.Del))]
    in_else = [n for s in br.orelse for n in ast.walk(s) if isinstance(n, ast.Name) and n.id == "data_vars"
               and isinstance(n.ctx, (ast.Store, ast.Del))]
    # mutating calls on data_vars (remove / sort / pop / …) outside the else branch
    def mutators(stmts):
        return [n for s in stmts for n in ast.walk(s) if isinstance(n, ast.Call) and isinstance(n.func, ast.Attribute)
                and is_name(n.func.value, "data_vars")
                and n.func.attr in ("remove", "sort", "pop", "append", "insert", "extend", "reverse", "clear")]
    validates = all(isinstance(s, ast.If) and not s.orelse and len(s.body) == 1 and isinstance(s.body[0], ast.Raise) for s in br.body)
    sh["explicitAsGiven"] = bool(validates and len(stores) == len(in_else)
                                 and len(mutators(f.body)) == len(mutators(br.orelse)))
    # the else branch
    els = list(br.orelse)
    all_src = f"list({raster}.data_vars)"
    if els and isinstance(els[0], ast.Assign) and len(els[0].targets) == 1 and is_name(els[0].targets[0], "data_vars"):
        v = els[0].value
        if ast.unparse(v) == all_src:
            sh["defaultAll"] = True
            rest = els[1:]
            if not has_ref:
                sh["ok"] = not rest
            elif len(rest) == 1 and isinstance(rest[0], ast.Expr) and ast.unparse(rest[0].value) == "data_vars.remove(ref_var)":
                sh["dropRef"] = "byValue"               # list.remove compares with ==
                sh["ok"] = True
            else:
                sh["dropRef"] = ("other", "; ".join(ast.unparse(s) for s in rest) or "the reference variable is not removed")
        elif isinstance(v, ast.ListComp) and len(v.generators) == 1 and is_name(v.generators[0].target) \
                and is_name(v.elt, v.generators[0].target.id) \
                and ast.unparse(v.generators[0].iter) in (f"{raster}.data_vars", all_src):
            var = v.generators[0].target.id
            ifs = v.generators[0].ifs
            sh["defaultAll"] = True
            if not has_ref:
                sh["ok"] = not ifs and len(els) == 1
            elif len(ifs) == 1 and len(els) == 1:
                t = ifs[0]
                by_value = False
                if isinstance(t, ast.Compare) and len(t.ops) == 1:
                    a, b2 = t.left, t.comparators[0]
                    pair = (is_name(a, var) and is_name(b2, "ref_var")) or (is_name(a, "ref_var") and is_name(b2, var))
                    if pair and isinstance(t.ops[0], ast.NotEq):
                        by_value = True                  # `var != ref_var`
                    if isinstance(t.ops[0], ast.NotIn) and is_name(a, var) and ast.unparse(b2) in ("[ref_var]", "(ref_var,)", "{ref_var}"):
                        by_value = True                  # `var not in [ref_var]`
                if by_value:
                    sh["dropRef"] = "byValue"
                    sh["ok"] = True
                else:
                    sh["dropRef"] = ("other", ast.unparse(t))   # e.g. `var is not ref_var`: names compared by identity
            else:
                sh["dropRef"] = ("other", ast.unparse(v))
    sh["ok"] = bool(sh["ok"] and sh["explicitAsGiven"])
    return sh


# ---------------------------------------------------------------- emission
BAD_FRAME = dict(ok=False, order=("other", "?"), layersInOrder=False, reshapeByCols=False)


def tag(v):
    return ".other " + lean_str(v[1]) if isinstance(v, tuple) else "." + v


def b(v):
    return "true" if v else "false"


def lean_frame(fr):
    return f"{{ ok := {b(fr['ok'])}, order := {tag(fr['order'])}, layersInOrder := {b(fr['layersInOrder'])}, reshapeByCols := {b(fr['reshapeByCols'])} }}"


def nat(v):
    return str(v) if isinstance(v, int) and v >= 0 else "0"


def generate(repo):
    mod = ast.parse(open(os.path.join(repo, REL)).read())
    rep = {}
    frames = []
    selects = []
    out = {}

    def run(name, fn, default):
        f = find_func(mod, name)
        try:
            need(f is not None, "function not found")
            fr, sh = fn(f)
            fr["ok"] = True
        except NoMatch as ex:
            fr, sh = dict(BAD_FRAME), dict(default)
            rep.setdefault("no_match", {})[name] = str(ex)
            if f is not None:            # the frame may still be readable
                try:
                    fr, _, _ = frame_of(f)
                    fr["ok"] = True
                except NoMatch:
                    pass
        frames.append((name, fr))
        sel = select_shape(f) if f is not None else dict(ok=False, hasRef=False, explicitAsGiven=False, defaultAll=False,
                                                         dropRef=("other", "function not found"))
        selects.append((name, sel))
        out[name] = sh
        rep[name] = dict(frame={k: (list(v) if isinstance(v, tuple) else v) for k, v in fr.items()},
                         select={k: (list(v) if isinstance(v, tuple) else v) for k, v in sel.items()},
                         **{k: (list(v) if isinstance(v, tuple) else v) for k, v in sh.items()})
    FREQ0 = dict(ok=False, nanTest=("other", "?"), cmp=("other", "?"), countInit=0, countStep=0, refRowMajor=False)
    POS0 = dict(ok=False, nanTest=("other", "?"), sel=("other", "?"), offset=0)
    run("cell_stats", lambda f: stats_shape(mod, f), dict(ok=False, funcs=[], perCell=False))
    run("combine", combine_shape, dict(ok=False, nanTest=("other", "?"), firstId=0, idStep=0, keyed=False))
    for nm in ("lesser_frequency", "equal_frequency", "greater_frequency"):
        run(nm, freq_shape, FREQ0)
    for nm in ("lowest_position", "highest_position"):
        run(nm, pos_shape, POS0)
    run("popularity", pop_shape, dict(ok=False, nanTest=("other", "?")))
    run("rank", rank_shape, dict(ok=False, nanTest=("other", "?"), refOffset=0, beyond=("other", "?"), sorts=False))

    def freq(nm):
        s = out[nm]
        return (f"{{ ok := {b(s['ok'])}, nanTest := {tag(s['nanTest'])}, cmp := {tag(s['cmp'])}, countInit := {nat(s['countInit'])}, "
                f"countStep := {nat(s['countStep'])}, refRowMajor := {b(s['refRowMajor'])} }}")

    def pos(nm):
        s = out[nm]
        return f"{{ ok := {b(s['ok'])}, nanTest := {tag(s['nanTest'])}, sel := {tag(s['sel'])}, offset := {nat(s['offset'])} }}"
    cs, cb, rk, pp = out["cell_stats"], out["combine"], out["rank"], out["popularity"]
    funcs = "[" + ", ".join(f"({lean_str(k)}, {lean_str(v)})" for k, v in cs["funcs"]) + "]"
    roff = rk["refOffset"]
    nan_tests = [(nm, out[nm]["nanTest"]) for nm in ("combine", "lesser_frequency", "equal_frequency", "greater_frequency",
                                                       "lowest_position", "highest_position", "popularity", "rank")]
    text = "\n".join([
        "import XrsVerif.Model.Local",
        "/-! GENERATED by harness/facts_local.py from xrspatial/local.py -- do not edit. -/",
        "namespace XrsVerif.Gen",
        "open XrsVerif.Local",
        "",
        "/-- the nditer loop, the per-cell loop and the reshape of every operator -/",
        "def localFrames : List (String × Frame) := [",
        ",\n".join(f"  ({lean_str(nm)}, {lean_frame(fr)})" for nm, fr in frames) + "]",
        "",
        "/-- how every operator resolves `data_vars` (and takes the reference variable out of the default selection) -/",
        "def localSelects : List (String × SelectShape) := [",
        ",\n".join(f"  ({lean_str(nm)}, {{ ok := {b(se['ok'])}, hasRef := {b(se['hasRef'])}, explicitAsGiven := {b(se['explicitAsGiven'])}, "
                    f"defaultAll := {b(se['defaultAll'])}, dropRef := {tag(se['dropRef'])} }})" for nm, se in selects) + "]",
        "",
        "/-- the test under which each operator writes NaN for a cell -/",
        "def localNanTests : List (String × NanTest) := [",
        ",\n".join(f"  ({lean_str(nm)}, {tag(t)})" for nm, t in nan_tests) + "]",
        "",
        f"def statsShape : StatsShape := {{ ok := {b(cs['ok'])}, funcs := {funcs}, perCell := {b(cs['perCell'])} }}",
        f"def combineShape : CombineShape := {{ ok := {b(cb['ok'])}, nanTest := {tag(cb['nanTest'])}, firstId := {nat(cb['firstId'])}, "
        f"idStep := {nat(cb['idStep'])}, keyed := {b(cb['keyed'])} }}",
        "def lesserShape : FreqShape := " + freq("lesser_frequency"),
        "def equalShape : FreqShape := " + freq("equal_frequency"),
        "def greaterShape : FreqShape := " + freq("greater_frequency"),
        "def lowestShape : PosShape := " + pos("lowest_position"),
        "def highestShape : PosShape := " + pos("highest_position"),
        f"def popularityShape : PopShape := {{ ok := {b(pp['ok'])}, nanTest := {tag(pp['nanTest'])} }}",
        f"def rankShape : RankShape := {{ ok := {b(rk['ok'])}, nanTest := {tag(rk['nanTest'])}, refOffset := ({roff}), "
        f"beyond := {tag(rk['beyond'])}, sorts := {b(rk['sorts'])} }}",
        "",
        "end XrsVerif.Gen", ""])
    yield "LocalFacts.lean", text, rep
