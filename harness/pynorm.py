"""
pynorm -- a syntactic normal form for the functions the T2 fact extractors read (facts_metrics.py,
facts_classify.py).  Purpose: two spellings whose equivalence is evident from the syntax alone give the same
facts; anything else is left as it is (the extractor then refuses the shape: untranslatable / ok := false).

normalize(func) returns a deep copy of the FunctionDef with

  expressions   range(0, n[, 1]) -> range(n);  a > b -> b < a,  a >= b -> b <= a;  c == x -> x == c for a
                constant c;  not (a == b) -> a != b (likewise in / is -- never for < <=: NaN);
  statements    docstring and `pass` dropped;  x = A if c else B  ->  if c: x = A  else: x = B;
                if <negative test>: S else: T  ->  if <positive test>: T else: S   (!=, not in, is not, not e);
                x = D ... if c: x = A   (nothing in between touches x)  ->  if c: x = A else: x = D;
                x = x.f(..).g(..)  ->  x = x.f(..); x = x.g(..);
  temporaries   a local that is bound exactly once by a plain assignment, is never mutated in place, and whose
                defining expression only reads names that cannot change while it is in use (untouched parameters,
                globals, enclosing single `for` targets, other such temporaries) is replaced by its definition
                at every use (all uses must come after the definition, in its block); so is a local whose
                single use is in the statement that immediately follows its definition.

All expressions are taken to be free of side effects on the *names* of the function (calls may raise; moving a
pure definition past a raise is not observable).  In-place mutation is respected: a name that is subscripted /
attribute-assigned, aug-assigned, deleted, or that occurs in a bare call statement (`idx.sort()`,
`gen.shuffle(idx)`) is never inlined nor read through.

bind(call, params) maps a call's positional and keyword arguments to parameter names.
"""
import ast
import copy


class Refuse(Exception):
    pass


def same(a, b):
    return ast.dump(a) == ast.dump(b)


def is_const(n, v):
    return isinstance(n, ast.Constant) and type(n.value) is type(v) and n.value == v


def names_in(n, ctx=None):
    return [x for x in ast.walk(n) if isinstance(x, ast.Name) and (ctx is None or isinstance(x.ctx, ctx))]


def mentions(n, name):
    return any(x.id == name for x in names_in(n))


def own_bound(val):
    """names bound inside an expression itself (comprehension variables, lambda parameters)"""
    out = set()
    for n in ast.walk(val):
        if isinstance(n, ast.comprehension):
            out |= {x.id for x in names_in(n.target)}
        if isinstance(n, ast.Lambda):
            out |= {a.arg for a in n.args.args}
    return out


def free_loads(val):
    own = own_bound(val)
    return [n for n in names_in(val, ast.Load) if n.id not in own]


# ------------------------------------------------------------------------------------------ expressions
FLIP = {ast.Gt: ast.Lt, ast.GtE: ast.LtE}
NEG = {ast.Eq: ast.NotEq, ast.NotEq: ast.Eq, ast.In: ast.NotIn, ast.NotIn: ast.In, ast.Is: ast.IsNot, ast.IsNot: ast.Is}
NEGATIVE = (ast.NotEq, ast.NotIn, ast.IsNot)


class ExprCanon(ast.NodeTransformer):
    def visit_Call(self, n):
        self.generic_visit(n)
        if isinstance(n.func, ast.Name) and n.func.id == "range" and not n.keywords:
            a = list(n.args)
            if len(a) == 3 and is_const(a[2], 1):
                a = a[:2]
            if len(a) == 2 and is_const(a[0], 0):
                a = a[1:]
            n.args = a
        return n

    def visit_Compare(self, n):
        self.generic_visit(n)
        if len(n.ops) == 1:
            op, l, r = n.ops[0], n.left, n.comparators[0]
            if type(op) in FLIP:
                n.left, n.comparators, n.ops = r, [l], [FLIP[type(op)]()]
            elif isinstance(op, (ast.Eq, ast.NotEq)) and isinstance(l, ast.Constant) and not isinstance(r, ast.Constant):
                n.left, n.comparators = r, [l]
        return n

    def visit_UnaryOp(self, n):
        self.generic_visit(n)
        if isinstance(n.op, ast.Not) and isinstance(n.operand, ast.Compare) and len(n.operand.ops) == 1 \
                and type(n.operand.ops[0]) in NEG:
            c = n.operand
            c.ops = [NEG[type(c.ops[0])]()]
            return c
        if isinstance(n.op, ast.Not) and isinstance(n.operand, ast.UnaryOp) and isinstance(n.operand.op, ast.Not) \
                and isinstance(n.operand.operand, ast.Compare):
            return n.operand.operand          # not not (a < b): a comparison is already a bool
        return n


# ------------------------------------------------------------------------------------------ statements
BLOCKS = ("body", "orelse", "finalbody")


def assign_name(s):
    """`x = value` with a single plain name target -> (x, value)"""
    if isinstance(s, ast.Assign) and len(s.targets) == 1 and isinstance(s.targets[0], ast.Name):
        return s.targets[0].id, s.value
    return None


def mk_assign(name, value):
    return ast.Assign(targets=[ast.Name(id=name, ctx=ast.Store())], value=value, lineno=0)


def positive(test):
    """(test', swapped): the positive form of a negative test"""
    if isinstance(test, ast.Compare) and len(test.ops) == 1 and isinstance(test.ops[0], NEGATIVE):
        t = copy.deepcopy(test)
        t.ops = [NEG[type(test.ops[0])]()]
        return t, True
    if isinstance(test, ast.UnaryOp) and isinstance(test.op, ast.Not):
        return test.operand, True
    return test, False


def split_chain(name, value):
    """x = x.f(a).g(b) -> [x = x.f(a), x = x.g(b)]; None when it is not a method chain on x itself"""
    calls = []
    v = value
    while isinstance(v, ast.Call) and isinstance(v.func, ast.Attribute):
        calls.append(v)
        v = v.func.value
    if not (isinstance(v, ast.Name) and v.id == name) or len(calls) < 2:
        return None
    if any(mentions(a, name) for c in calls for a in list(c.args) + [k.value for k in c.keywords]):
        return None
    out = []
    for c in reversed(calls):
        c2 = ast.Call(func=ast.Attribute(value=ast.Name(id=name, ctx=ast.Load()), attr=c.func.attr, ctx=ast.Load()),
                      args=c.args, keywords=c.keywords)
        out.append(mk_assign(name, c2))
    return out


def canon_block(stmts):
    out = []
    for s in stmts:
        for fld in BLOCKS:
            if isinstance(getattr(s, fld, None), list) and not isinstance(s, ast.Try):
                setattr(s, fld, canon_block(getattr(s, fld)))
        if isinstance(s, ast.Try):
            s.body, s.orelse, s.finalbody = canon_block(s.body), canon_block(s.orelse), canon_block(s.finalbody)
            for h in s.handlers:
                h.body = canon_block(h.body) or [ast.Pass()]
        if isinstance(s, ast.With):
            s.body = canon_block(s.body) or [ast.Pass()]
        if isinstance(s, ast.Pass):
            continue
        if isinstance(s, ast.Expr) and isinstance(s.value, ast.Constant) and isinstance(s.value.value, str):
            continue
        an = assign_name(s)
        if an and isinstance(an[1], ast.IfExp):
            e = an[1]
            s = ast.If(test=e.test, body=[mk_assign(an[0], e.body)], orelse=[mk_assign(an[0], e.orelse)])
        if an and not isinstance(an[1], ast.IfExp):
            ch = split_chain(*an)
            if ch:
                out.extend(ch)
                continue
        if isinstance(s, ast.If) and s.orelse and not (len(s.orelse) == 1 and isinstance(s.orelse[0], ast.If)):
            t, swapped = positive(s.test)
            if swapped:
                s = ast.If(test=t, body=s.orelse, orelse=s.body)
        out.append(s)
    # x = D ... if c: x = A   ->   if c: x = A else: x = D
    j = 0
    while j < len(out):
        s = out[j]
        if isinstance(s, ast.If) and not s.orelse and len(s.body) == 1 and assign_name(s.body[0]):
            x, a = assign_name(s.body[0])
            if not mentions(s.test, x) and not mentions(a, x):
                for i in range(j - 1, -1, -1):
                    d = assign_name(out[i])
                    if d and d[0] == x:
                        dn = {n.id for n in names_in(d[1])}
                        between = out[i + 1:j]
                        stored = {n.id for b in between for n in names_in(b, ast.Store)}
                        if x not in dn and not (dn & stored) and isinstance(d[1], (ast.Name, ast.Constant, ast.Attribute)):
                            out[j] = ast.If(test=s.test, body=s.body, orelse=[mk_assign(x, d[1])])
                            del out[i]
                            j -= 1
                        break
                    if mentions(out[i], x):
                        break
        j += 1
    for s in out:
        if isinstance(s, ast.If) and not s.body:
            s.body = [ast.Pass()]
    return out


# ------------------------------------------------------------------------------------------ temporaries
class Census:
    def __init__(self, func):
        self.params = [a.arg for a in func.args.posonlyargs + func.args.args + func.args.kwonlyargs]
        if func.args.vararg:
            self.params.append(func.args.vararg.arg)
        if func.args.kwarg:
            self.params.append(func.args.kwarg.arg)
        self.stores = {}
        self.tainted = set()
        self.for_targets = {}
        self.comp_bound = set()
        for n in ast.walk(func):
            if isinstance(n, ast.Name) and isinstance(n.ctx, (ast.Store, ast.Del)):
                self.stores[n.id] = self.stores.get(n.id, 0) + 1
                if isinstance(n.ctx, ast.Del):
                    self.tainted.add(n.id)
            if isinstance(n, (ast.Subscript, ast.Attribute)) and isinstance(n.ctx, (ast.Store, ast.Del)):
                b = n.value
                while isinstance(b, (ast.Subscript, ast.Attribute)):
                    b = b.value
                if isinstance(b, ast.Name):
                    self.tainted.add(b.id)
            if isinstance(n, ast.AugAssign):
                self.tainted |= {x.id for x in names_in(n.target)}
            if isinstance(n, (ast.Global, ast.Nonlocal)):
                self.tainted |= set(n.names)
            if isinstance(n, ast.Expr) and isinstance(n.value, ast.Call):
                self.tainted |= {x.id for x in names_in(n.value)}          # bare call statement: may mutate anything it names
            if isinstance(n, (ast.For, ast.AsyncFor)):
                for x in names_in(n.target):
                    self.for_targets.setdefault(x.id, []).append(n)
            if isinstance(n, (ast.With, ast.AsyncWith)):
                for it in n.items:
                    if it.optional_vars is not None:
                        self.tainted |= {x.id for x in names_in(it.optional_vars)}
            if isinstance(n, ast.ExceptHandler) and n.name:
                self.tainted.add(n.name)
            if isinstance(n, ast.NamedExpr):
                self.tainted |= {x.id for x in names_in(n.target)}
            if isinstance(n, ast.comprehension):
                self.comp_bound |= {x.id for x in names_in(n.target)}
            if isinstance(n, (ast.FunctionDef, ast.Lambda, ast.ClassDef)) and n is not func:
                self.tainted |= {x.id for x in names_in(n)}                 # closures: leave alone


def blocks_of(func):
    """every statement list of the function with the chain of enclosing statements"""
    out = []

    def rec(stmts, enclosing):
        out.append((stmts, enclosing))
        for s in stmts:
            if isinstance(s, (ast.FunctionDef, ast.ClassDef)):
                continue
            for fld in BLOCKS:
                b = getattr(s, fld, None)
                if isinstance(b, list) and b and isinstance(b[0], ast.stmt):
                    rec(b, enclosing + [s])
            if isinstance(s, ast.Try):
                for h in s.handlers:
                    rec(h.body, enclosing + [s])
    rec(func.body, [])
    return out


class Subst(ast.NodeTransformer):
    def __init__(self, name, value):
        self.name, self.value = name, value

    def visit_Name(self, n):
        if n.id == self.name and isinstance(n.ctx, ast.Load):
            return copy.deepcopy(self.value)
        return n


def header_exprs(s):
    """the expressions a statement evaluates once, before any nested block"""
    if isinstance(s, (ast.Assign, ast.AnnAssign, ast.AugAssign, ast.Return, ast.Expr, ast.Raise, ast.Assert, ast.Delete)):
        return [s]
    if isinstance(s, ast.If):
        return [s.test]
    if isinstance(s, (ast.For, ast.AsyncFor)):
        return [s.iter]
    return []


def under_repeater(root, target):
    """is `target` (a node inside `root`) inside a comprehension / lambda / generator of root?"""
    def rec(n, rep):
        if n is target:
            return rep
        for c in ast.iter_child_nodes(n):
            r = rec(c, rep or isinstance(n, (ast.ListComp, ast.SetComp, ast.DictComp, ast.GeneratorExp, ast.Lambda)))
            if r is not None:
                return r
        return None
    return bool(rec(root, False))


def inline_temps(func, keep=()):
    changed = True
    rounds = 0
    while changed and rounds < 200:
        changed = False
        rounds += 1
        cs = Census(func)
        inl = set()                      # temporaries validated by rule A in this round (not yet substituted)
        for stmts, enclosing in blocks_of(func):
            for i, s in enumerate(stmts):
                an = assign_name(s)
                if not an:
                    continue
                t, val = an
                if t in keep or t in cs.params or cs.stores.get(t) != 1 or t in cs.tainted or t in cs.comp_bound \
                        or mentions(val, t) or isinstance(val, (ast.Yield, ast.YieldFrom, ast.Await)):
                    continue
                loads = [n for n in names_in(func, ast.Load) if n.id == t]
                later = stmts[i + 1:]
                in_later = [n for b in later for n in names_in(b, ast.Load) if n.id == t]
                if len(in_later) != len(loads):
                    continue                                    # a use before the definition / outside its block
                # rule B: single use in the header of the very next statement
                ok = False
                if len(loads) == 1 and later:
                    hs = header_exprs(later[0])
                    for h in hs:
                        if any(n is loads[0] for n in ast.walk(h)) and not under_repeater(h, loads[0]):
                            ok = True
                # rule A: the definition reads only names that cannot change while it is in use
                if not ok:
                    ok = True
                    for n in free_loads(val):
                        nm = n.id
                        if nm in cs.tainted:
                            ok = False
                        elif nm in cs.params:
                            ok = ok and cs.stores.get(nm, 0) == 0
                        elif nm not in cs.stores:
                            pass                                 # global / builtin
                        elif nm in cs.for_targets:
                            fors = cs.for_targets[nm]
                            ok = ok and cs.stores[nm] == 1 and len(fors) == 1 and any(e is fors[0] for e in enclosing) \
                                and any(x is s for x in ast.walk(ast.Module(body=fors[0].body, type_ignores=[])))
                        else:
                            ok = False                           # another local: wait until it has been inlined itself
                        if not ok:
                            break
                    if ok and ({n.id for n in free_loads(val)} & cs.comp_bound or own_bound(val) & set(cs.params)):
                        ok = False                               # no capture by / of comprehension variables
                if ok and loads:
                    for b in later:
                        Subst(t, val).visit(b)
                    del stmts[i]
                    changed = True
                    break
            if changed:
                break
    return func


def normalize(func, inline=True, keep=()):
    f = copy.deepcopy(func)
    f = ExprCanon().visit(f)
    f.body = canon_block(f.body) or [ast.Pass()]
    if inline:
        inline_temps(f, keep)
        f.body = canon_block(f.body) or [ast.Pass()]      # chains / merges exposed by the inlining
    ast.fix_missing_locations(f)
    return f


# ------------------------------------------------------------------------------------------ calls
def bind(call, params, defaults=None):
    """param name -> argument node, from positional and keyword arguments; Refuse on *args, **kw, unknown or
    duplicate names"""
    out = {}
    if len(call.args) > len(params) or any(isinstance(a, ast.Starred) for a in call.args):
        raise Refuse("positional arguments of " + ast.unparse(call))
    for p, a in zip(params, call.args):
        out[p] = a
    for k in call.keywords:
        if k.arg is None or k.arg not in params or k.arg in out:
            raise Refuse("keyword arguments of " + ast.unparse(call))
        out[k.arg] = k.value
    for p, d in (defaults or {}).items():
        out.setdefault(p, d)
    return out


def func_params(f):
    if f.args.vararg or f.args.kwarg or f.args.posonlyargs or f.args.kwonlyargs:
        raise Refuse("parameter list of " + f.name)
    return [a.arg for a in f.args.args]


def rename(node, mapping):
    """a copy with names replaced (for canonical source strings)"""
    n = copy.deepcopy(node)
    for x in ast.walk(n):
        if isinstance(x, ast.Name) and x.id in mapping:
            x.id = mapping[x.id]
        if isinstance(x, ast.arg) and x.arg in mapping:
            x.arg = mapping[x.arg]
    return n


def replace_subtree(node, pred, make):
    """a copy of node in which every maximal subtree satisfying pred is replaced by make()"""
    class R(ast.NodeTransformer):
        def visit(self, n):
            if pred(n):
                return make()
            return self.generic_visit(n)
    return R().visit(copy.deepcopy(node))
