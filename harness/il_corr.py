"""
Translator validation for layer T3 (harness/facts_il.py -> Gen/IL.lean): every generated ILang program is
executed by the compiled Lean driver (`il prog=...`, at IEEE doubles) and the numba-compiled function of /repo
is called in-process on the same inputs; results, returned tuples and every array parameter after the call are
compared exactly.  Inputs are drawn from exactly computable domains (small integers, dyadic fractions, NaN, +-inf),
so that every float operation of the kernels is exact in float32 and float64 alike.

    stream(r, ["cpuBin", "trim", ...], n)      n generated cases per program, reported through the Runner `r`

A disagreement is reported as `r.disagree("il:<prog>", case, real, model)`: the generated program no longer
behaves like the code it was generated from (translator fault) -- or, for programs with a refinement theorem,
the theorem's subject no longer is the code.
"""
import importlib
import math

import numpy as np

import common
from common import tok

NAN = float("nan")
INF = float("inf")


def mod(name):
    return importlib.import_module(name)


def farr(a):
    a = np.asarray(a, dtype=np.float64)
    shape = "x".join(str(n) for n in a.shape)
    return f"{shape}:" + ",".join(tok(v) for v in a.ravel(order="C").tolist())


def iarr(a):
    a = np.asarray(a)
    shape = "x".join(str(n) for n in a.shape)
    return f"{shape}:" + ",".join(str(int(v)) for v in a.ravel(order="C").tolist())


def fval(x):
    return tok(float(x))


def pick_vals(rng, pool, n):
    return [rng.choice(pool) for _ in range(n)]


def grid(rng, pool, hmax=5, wmax=5, hmin=1, wmin=1):
    h, w = rng.randint(hmin, hmax), rng.randint(wmin, wmax)
    return np.array(pick_vals(rng, pool, h * w), dtype=np.float64).reshape(h, w)


# ----------------------------------------------------------------------------- per-program specifications
# each: gen(rng) -> case (json-able dict); line(case) -> driver arguments; real(case) -> list of reply fields

def gen_cpu_bin(rng):
    """`_cpu_bin(data, bins, new_values)`: bin lists of every kind the binary search can meet -- strictly ascending,
    ties (runs of equal bounds), not ascending, -inf / +inf ends, NaN bounds (first / inner / last: the `bins[mid-1]`
    read at `mid = 0` wraps around only then), one bin, long lists (17..130 bounds: many loop iterations), no bins
    at all (only with a raster that has no finite cell -- otherwise the real code reads out of bounds); cells on
    the bounds, just beside them, half way between, below / above all of them, NaN, +-inf, -0.0; rasters of every
    small shape including empty ones, float32 and float64; `new_values` as long as `bins` or longer.  All numbers
    are small dyadic fractions (exact in float32).  The driver gets `fuel = nbins + 1`: the bound of the
    refinement theorem (Props/C12.lean: generated_cpu_bin_refines) is exercised, not a generous default."""
    u = rng.random()
    cls = ("asc" if u < 0.34 else "ties" if u < 0.49 else "unsorted" if u < 0.60 else "inf" if u < 0.73
           else "nan" if u < 0.81 else "long" if u < 0.95 else "one" if u < 0.98 else "nobins")
    den = rng.choice([1, 1, 2, 4])
    if cls == "long":
        k = rng.choice([17, 31, 32, 33, 64, 65, 100, 127, 130, rng.randint(17, 130)])
        step = rng.choice([1, 1, 2, 3])
        lo = rng.randint(-40, 5)
        bins, x = [], lo
        for _ in range(k):
            bins.append(x)
            x += rng.choice([0, step, step, step, 2 * step]) if rng.random() < 0.5 else step
    elif cls == "one":
        bins = [rng.randint(-4, 9)]
    elif cls == "nobins":
        bins = []
    else:
        k = rng.choice([1, 2, 2, 3, 3, 4, 5, 6, 7, 8, 9, 12])
        if cls == "asc":
            bins = sorted(rng.sample(range(-8, 16), k))
        elif cls == "ties":
            bins = sorted(rng.choice(range(-3, 3 + max(1, k // 2))) for _ in range(k))
        elif cls == "unsorted":
            bins = [rng.choice(range(-3, 9)) for _ in range(k)]
        elif cls == "inf":
            bins = sorted(rng.sample(range(-8, 16), k))
            w = rng.random()
            if w < 0.45 or k == 1:
                bins[-1] = INF
            elif w < 0.7:
                bins[0] = -INF
            elif w < 0.9:
                bins[0], bins[-1] = -INF, INF
            else:                                  # several infinite bounds
                bins[-1] = INF
                bins[-2] = INF
                if k > 2 and rng.random() < 0.5:
                    bins[0] = -INF
            if rng.random() < 0.1:
                bins[rng.randrange(k)] = rng.choice([INF, -INF])     # an infinite bound out of order
        else:                                      # nan
            bins = sorted(rng.sample(range(-8, 16), k))
            w = rng.random()
            pos = 0 if w < 0.4 else (k - 1 if w < 0.65 else rng.randrange(k))
            bins[pos] = NAN
            if rng.random() < 0.15:
                bins[rng.randrange(k)] = NAN
    bins = [b / den if b == b and abs(b) != INF else b for b in bins]
    fin = [b for b in bins if b == b and abs(b) != INF]
    pool = [NAN, INF, -INF, -0.0, 0.0, -500.0, 500.0]
    for b in fin:
        pool += [b, b, b, b + 0.5 / den, b - 0.5 / den, b + 0.125, b - 0.125]
    for a, b in zip(fin, fin[1:]):
        pool.append((a + b) / 2)
    if fin:
        pool += [min(fin) - 1, max(fin) + 1, min(fin), max(fin)] * 2
    if cls == "nobins":
        pool = [NAN, INF, -INF]
    if rng.random() < 0.06:
        h, w = rng.choice([(0, 0), (0, 3), (2, 0), (0, 1), (1, 0)])
    elif cls == "long":
        h, w = rng.randint(1, 3), rng.randint(2, 6)
    else:
        h, w = rng.randint(1, 4), rng.randint(1, 5)
    data = np.array(pick_vals(rng, pool, h * w), dtype=np.float64).reshape(h, w)
    nv_len = len(bins) + (rng.choice([1, 2, 5]) if rng.random() < 0.12 else 0)
    nv_pool = [float(v) for v in range(-9, 10)] + [0.5, -2.25, 100.0, 1024.0]
    if rng.random() < 0.1:
        nv_pool += [NAN, INF, -INF]
    new_values = [rng.choice(nv_pool) for _ in range(nv_len)] if rng.random() < 0.5 else \
        [float(i) for i in range(nv_len)]
    return dict(data=data.tolist(), shape=[h, w], bins=bins, new_values=new_values, cls=cls,
                ddt=rng.choice(["float64", "float64", "float32"]))


def _cpu_bin_data(c):
    shape = c.get("shape") or list(np.asarray(c["data"]).shape)
    return np.array(c["data"], dtype=np.float64).reshape(shape)


def line_cpu_bin(c):
    fuel = f" fuel={len(c['bins']) + 1}" if "cls" in c else ""
    return (f"af.data={farr(_cpu_bin_data(c))} af.bins={farr(c['bins'])} af.new_values={farr(c['new_values'])}"
            + fuel)


def real_cpu_bin(c):
    f = mod("xrspatial.classify")._cpu_bin
    data = _cpu_bin_data(c).astype(c.get("ddt", "float64"))
    bins = np.array(c["bins"], dtype=np.float64)
    nv = np.array(c["new_values"], dtype=np.float64)
    out = f(data, bins, nv)
    return ["ret", farr(out), farr(data), farr(bins), farr(nv)]


def gen_strides(rng):
    """sorted runs (the contract of `_sort_and_stride`) plus everything the bare function accepts: ids absent from the
    array, values absent from the ids (in front, between, as a tail), NaN / +-inf on either side (`==` is IEEE), repeated
    and unsorted ids, unsorted arrays, empty arrays"""
    pool = rng.choice([list(range(-3, 9)), [-2.5, -0.75, 0.0, 0.5, 1.5, 2.25, 3.0, 7.0], [0.0, 1.0, 2.0, 3.0, 4.0]])
    nz = rng.randint(0, min(6, len(pool)))
    uz = sorted(rng.sample(pool, nz))
    kind = rng.random()
    fz = []
    for u in uz:
        fz += [u] * rng.choice([0, 1, 1, 2, 3, 5])
    if kind < 0.15:
        fz += [max(pool) + 1 + rng.randint(0, 2)] * rng.randint(0, 3)        # sorted tail of values not in uz
    elif kind < 0.3:
        fz += [INF] * rng.randint(0, 2) + [NAN] * rng.randint(1, 3)          # non-finite tail (not stripped)
    elif kind < 0.4:
        rng.shuffle(fz)                                                      # contract broken: not sorted
    elif kind < 0.5:
        fz = [min(pool) - 1.0] * rng.randint(1, 2) + fz                      # a leading run that matches no id
    elif kind < 0.6 and uz:
        k = rng.randrange(len(uz))                                           # an id is dropped: its run blocks the pointer
        uz = uz[:k] + uz[k + 1:]
    elif kind < 0.7:
        uz = uz + [rng.choice([NAN, INF, -INF])]                             # a non-finite id
        if rng.random() < 0.5:
            fz = fz + [uz[-1]] * rng.randint(1, 2)
    elif kind < 0.8 and uz:
        uz = uz + [rng.choice(uz)]                                           # repeated / unsorted ids
        if rng.random() < 0.5:
            rng.shuffle(uz)
    return dict(fz=[float(v) for v in fz], uz=[float(v) for v in uz])


def line_strides(c):
    return f"af.flatten_zones={farr(c['fz'])} af.unique_zones={farr(c['uz'])}"


def real_strides(c):
    f = mod("xrspatial.zonal")._strides
    fz, uz = np.array(c["fz"], dtype=np.float64), np.array(c["uz"], dtype=np.float64)
    out = f(fz, uz)
    return ["ret", iarr(out), farr(fz), farr(uz)]


def _shape(rng, hmax=7, wmax=7):
    """raster shape classes: empty (0 rows / 0 columns), single row / column / cell, general"""
    k = rng.random()
    if k < 0.06:
        return rng.choice([(0, 0), (0, rng.randint(1, 4)), (rng.randint(1, 4), 0)])
    if k < 0.16:
        return 1, rng.randint(1, wmax)
    if k < 0.26:
        return rng.randint(1, hmax), 1
    return rng.randint(1, hmax), rng.randint(1, wmax)


def _box(rng, h, w):
    """a target window; each raster border is touched or not with probability 1/2"""
    def axis(n):
        lo = 0 if (rng.random() < 0.5 or n == 1) else rng.randrange(1, n)
        hi = n - 1 if (rng.random() < 0.5 or lo >= n - 1) else rng.randrange(lo, n - 1)
        return lo, hi
    return axis(h) + axis(w)


def _scan_grid(rng, h, w, hit_vals, miss_vals):
    """h x w grid for the four scans: hits inside a box touching a random subset of the borders / a single hit
    (corners included) / no hit / only hits / random"""
    if h == 0 or w == 0:
        return np.zeros((h, w), dtype=np.float64), "empty-raster"
    hit_vals, miss_vals = hit_vals or miss_vals, miss_vals or hit_vals
    mode = rng.choice(["box", "box", "box", "single", "none", "all", "random"])
    g = np.array([rng.choice(miss_vals) for _ in range(h * w)], dtype=np.float64).reshape(h, w)
    if mode == "all":
        g = np.array([rng.choice(hit_vals) for _ in range(h * w)], dtype=np.float64).reshape(h, w)
    elif mode == "random":
        g = np.array([rng.choice(hit_vals + miss_vals) for _ in range(h * w)], dtype=np.float64).reshape(h, w)
    elif mode == "single":
        y = rng.choice([0, h - 1, rng.randrange(h)])
        x = rng.choice([0, w - 1, rng.randrange(w)])
        g[y, x] = rng.choice(hit_vals)
    elif mode == "box":
        t, b, l, r = _box(rng, h, w)
        cells = {(t, rng.randrange(l, r + 1)), (b, rng.randrange(l, r + 1)),
                 (rng.randrange(t, b + 1), l), (rng.randrange(t, b + 1), r)}
        for y in range(t, b + 1):
            for x in range(l, r + 1):
                if rng.random() < 0.25:
                    cells.add((y, x))
        for (y, x) in cells:
            g[y, x] = rng.choice(hit_vals)
    return g, mode


def _shape_class(h, w):
    return "0xN" if h == 0 or w == 0 else "1x1" if h * w == 1 else "1xN" if h == 1 else "Nx1" if w == 1 else "HxW"


TRIM_POOL = [NAN, 0.0, -0.0, 1.0, 2.0, INF, -INF, -1.5, 0.5]
TRIM_LISTS = [[NAN], [NAN], [0.0], [NAN, 0.0], [], [1.0, NAN], [INF, 0.0, NAN], [2.0], [NAN, NAN], [0.0, 0.0, 1.0],
              [-INF], [-0.0], [0.5, -1.5], [7.0], [0.0, 1.0, 2.0, INF, -INF, NAN, -1.5, 0.5], [1.0, 0.0, NAN, 2.0]]


def gen_trim(rng):
    ex = rng.choice(TRIM_LISTS)
    def listed(v):
        return any(e == v or (e != e and v != v) for e in ex)
    miss = [v for v in TRIM_POOL if listed(v)]
    hit = [v for v in TRIM_POOL if not listed(v)]
    h, w = _shape(rng)
    g, mode = _scan_grid(rng, h, w, hit, miss)
    return dict(data=g.tolist(), shape=[h, w], ex=ex, tags=[f"shape:{_shape_class(h, w)}", f"mode:{mode}",
                                                            f"list:{len(ex)}"])


def _data(c):
    a = np.array(c["data"], dtype=np.float64)
    return a.reshape(c["shape"]) if "shape" in c else a


def line_trim(c):
    return f"af.data={farr(_data(c))} af.excludes={farr(c['ex'])}"


def real_trim(c):
    f = mod("xrspatial.zonal")._trim
    data, ex = _data(c), np.array(c["ex"], dtype=np.float64)
    t = f(data, ex)
    return ["ret"] + [str(int(v)) for v in t] + [farr(data), farr(ex)]


CROP_POOL = [0.0, -0.0, 1.0, 2.0, 3.0, NAN, INF, 5.0, -1.0]
CROP_LISTS = [[1.0], [2.0, 1.0], [3.0], [1.0, 2.0, 3.0], [5.0], [], [0.0], [NAN], [3.0, 1.0], [INF], [NAN, 1.0],
              [-0.0], [7.0], [1.0, 1.0], [-1.0, 0.0], [9.0, NAN, 2.0]]


def gen_crop(rng):
    vals = rng.choice(CROP_LISTS)
    hit = [v for v in CROP_POOL if any(e == v for e in vals)]
    miss = [v for v in CROP_POOL if not any(e == v for e in vals)]
    h, w = _shape(rng)
    g, mode = _scan_grid(rng, h, w, hit, miss)
    return dict(data=g.tolist(), shape=[h, w], values=vals, tags=[f"shape:{_shape_class(h, w)}", f"mode:{mode}",
                                                                  f"list:{len(vals)}"])


def line_crop(c):
    return f"af.data={farr(_data(c))} af.values={farr(c['values'])}"


def real_crop(c):
    f = mod("xrspatial.zonal")._crop
    data, vals = _data(c), np.array(c["values"], dtype=np.float64)
    t = f(data, vals)
    return ["ret"] + [str(int(v)) for v in t] + [farr(data), farr(vals)]


def gen_not_crossable(rng):
    # value classes: NaN, +-0, small numbers, +-inf; barrier lists: empty, duplicates, NaN / +-inf entries, the value
    # first / last / absent, up to 6 entries
    pool = [0.0, -0.0, 1.0, 2.0, 3.0, 0.5, -1.0, NAN, INF, -INF]
    b = [rng.choice(pool) for _ in range(rng.choice([0, 0, 1, 1, 2, 3, 6]))]
    v = rng.choice([NAN, 0.0, -0.0, 1.0, 2.0, 5.0, 0.5, INF, -INF])
    k = rng.random()
    if b and k < 0.2 and v == v:
        b[-1] = v
    elif b and k < 0.3 and v == v:
        b[0] = v
    return dict(v=v, barriers=b)


def line_not_crossable(c):
    return f"f.cell_value={fval(c['v'])} af.barriers={farr(c['barriers'])}"


def real_not_crossable(c):
    f = mod("xrspatial.pathfinding")._is_not_crossable
    b = np.array(c["barriers"], dtype=np.float64)
    return ["ret", "1" if f(float(c["v"]), b) else "0", farr(b)]


def gen_inside(rng):
    h, w = rng.randint(0, 5), rng.randint(0, 5)
    edge = lambda n: rng.choice([-1, 0, n - 1, n, n + 1, rng.randint(-2, 6)])
    return dict(py=edge(h), px=edge(w), h=h, w=w)


def line_inside(c):
    return f"i.py={c['py']} i.px={c['px']} i.h={c['h']} i.w={c['w']}"


def real_inside(c):
    f = mod("xrspatial.pathfinding")._is_inside
    return ["ret", "1" if f(c["py"], c["px"], c["h"], c["w"]) else "0"]


def gen_min_cost(rng):
    # classes: mixed; every cost >= the initial bound (h+w)^2 (-> (NONE, NONE)); ties of the minimum (first wins);
    # NaN / +-inf / negative costs; nothing open; everything open
    h, w = rng.randint(1, 6), rng.randint(1, 6)
    big = (h + w) ** 2
    kind = rng.choice(["mixed", "mixed", "above", "ties", "nan", "neg"])
    pool = {"mixed": [0.0, 1.0, 1.0, 2.5, 3.0, float(big), float(big + 1), float(big) - 0.5, NAN, INF],
            "above": [float(big), float(big + 1), float(big) + 0.5, INF, NAN, float(2 * big)],
            "ties": [1.0, 1.0, 1.0, 2.0, float(big)],
            "nan": [NAN, NAN, NAN, 1.0, float(big) - 0.5, INF],
            "neg": [-1.0, -2.5, 0.0, -0.0, -INF, 1.0, NAN]}[kind]
    cost = np.array(pick_vals(rng, pool, h * w)).reshape(h, w)
    p = rng.choice([0.0, 0.2, 0.6, 1.0])
    is_open = np.array([rng.random() < p for _ in range(h * w)]).reshape(h, w)
    return dict(cost=cost.tolist(), is_open=is_open.astype(int).tolist())


def line_min_cost(c):
    return f"af.cost={farr(c['cost'])} ai.is_open={iarr(c['is_open'])}"


def real_min_cost(c):
    f = mod("xrspatial.pathfinding")._min_cost_pixel_id
    cost = np.array(c["cost"], dtype=np.float64)
    is_open = np.array(c["is_open"], dtype=np.bool_)
    py, px = f(cost, is_open)
    return ["ret", str(int(py)), str(int(px)), farr(cost), iarr(is_open.astype(int))]


def gen_nearest(rng):
    # snap classes: the queried cell crossable (returned as is); nothing crossable (-> (NONE, NONE)); one lone
    # crossable cell (often the far corner); equidistant candidates (row-major tie-breaking); barrier values in the list
    h, w = rng.randint(1, 6), rng.randint(1, 6)
    kind = rng.choice(["mixed", "mixed", "none", "lone", "ring", "keep"])
    pool = [0.0, 1.0, 1.0, 2.0, NAN, NAN, 3.0]
    data = np.array(pick_vals(rng, pool, h * w), dtype=np.float64).reshape(h, w)
    py, px = rng.randrange(h), rng.randrange(w)
    b = [rng.choice([0.0, 1.0, 2.0, 3.0, NAN, INF]) for _ in range(rng.randint(0, 3))]
    if kind == "none":
        data[:] = NAN if rng.random() < 0.5 else 2.0
        if 2.0 not in b:
            b.append(2.0)
    elif kind == "lone":
        data[:] = NAN
        y, x = rng.choice([(0, 0), (h - 1, w - 1), (0, w - 1), (h - 1, 0), (rng.randrange(h), rng.randrange(w))])
        data[y, x] = 5.0
        py, px = rng.choice([(0, 0), (h - 1, w - 1), (py, px)])
    elif kind == "ring":
        # every cell crossable except the queried one: its 4 / 8 neighbours tie
        data[:] = 5.0
        data[py, px] = NAN
    elif kind == "keep":
        data[py, px] = 7.0
    return dict(py=py, px=px, data=data.tolist(), barriers=b)


def line_nearest(c):
    return f"i.py={c['py']} i.px={c['px']} af.data={farr(c['data'])} af.barriers={farr(c['barriers'])}"


def real_nearest(c):
    f = mod("xrspatial.pathfinding")._find_nearest_pixel
    data, b = np.array(c["data"], dtype=np.float64), np.array(c["barriers"], dtype=np.float64)
    y, x = f(c["py"], c["px"], data, b)
    return ["ret", str(int(y)), str(int(x)), farr(data), farr(b)]


def gen_astar(rng):
    # classes: random mazes; a wall that cuts the raster (no route); start = goal; blocked start / goal; an island
    # goal; barrier lists with NaN / inf; custom offset arrays (unequal lengths -> zip truncates, the null offset,
    # knight moves) -- everything the jitted function accepts
    h, w = rng.randint(1, 7), rng.randint(1, 7)
    kind = rng.choice(["maze", "maze", "maze", "wall", "same", "blocked", "island", "open"])
    p = rng.choice([0.0, 0.15, 0.3, 0.5])
    if kind == "open":
        p = 0.0
    data = np.array([NAN if rng.random() < p * 0.5 else (0.0 if rng.random() < p else rng.choice([1.0, 2.0, 3.0]))
                     for _ in range(h * w)]).reshape(h, w)
    b = rng.choice([[], [0.0], [0.0, 3.0], [2.0], [0.0, NAN], [INF, 0.0]])
    sy, sx, gy, gx = rng.randrange(h), rng.randrange(w), rng.randrange(h), rng.randrange(w)
    if kind == "wall" and (h > 2 or w > 2):
        if h > 2 and (w <= 2 or rng.random() < 0.5):
            r0 = rng.randrange(1, h - 1)
            data[r0, :] = NAN if rng.random() < 0.5 else 0.0
            if 0.0 not in b:
                b = b + [0.0]
            sy, gy = rng.randrange(0, r0), rng.randrange(r0 + 1, h)
        else:
            c0 = rng.randrange(1, w - 1)
            data[:, c0] = NAN
            sx, gx = rng.randrange(0, c0), rng.randrange(c0 + 1, w)
    elif kind == "same":
        gy, gx = sy, sx
    elif kind == "blocked":
        if rng.random() < 0.5:
            data[sy, sx] = NAN
        else:
            data[gy, gx] = NAN
    elif kind == "island":
        for dy in (-1, 0, 1):
            for dx in (-1, 0, 1):
                y, x = gy + dy, gx + dx
                if (dy or dx) and 0 <= y < h and 0 <= x < w:
                    data[y, x] = NAN
        data[gy, gx] = 1.0
    c = dict(data=data.tolist(), barriers=b, conn=rng.choice([4, 8]), sy=sy, sx=sx, gy=gy, gx=gx)
    if rng.random() < 0.15:
        n1, n2 = rng.randint(0, 9), rng.randint(0, 9)
        c["nys"] = [rng.choice([-1, 0, 1, 0, 2, -2]) for _ in range(n1)]
        c["nxs"] = [rng.choice([-1, 0, 1, 1, 2, -2]) for _ in range(n2)]
    return c


def nbr(conn, c=None):
    if c is not None and "nys" in c:
        return np.asarray(c["nys"], dtype=np.int64), np.asarray(c["nxs"], dtype=np.int64)
    ys, xs = mod("xrspatial.pathfinding")._neighborhood_structure(conn)
    return np.asarray(ys, dtype=np.int64), np.asarray(xs, dtype=np.int64)


def line_astar(c):
    ys, xs = nbr(c["conn"], c)
    d = np.array(c["data"], dtype=np.float64)
    path = np.full(d.shape, NAN)
    return (f"af.data={farr(d)} af.path_img={farr(path)} i.start_py={c['sy']} i.start_px={c['sx']} "
            f"i.goal_py={c['gy']} i.goal_px={c['gx']} af.barriers={farr(c['barriers'])} "
            f"ai.neighbor_ys={iarr(ys)} ai.neighbor_xs={iarr(xs)}")


def real_astar(c):
    f = mod("xrspatial.pathfinding")._a_star_search
    ys, xs = nbr(c["conn"], c)
    d = np.array(c["data"], dtype=np.float64)
    path = np.full(d.shape, NAN)
    b = np.array(c["barriers"], dtype=np.float64)
    f(d, path, c["sy"], c["sx"], c["gy"], c["gx"], b, ys, xs)
    return ["*", farr(d), farr(path), farr(b), iarr(ys), iarr(xs)]


def gen_reconstruct(rng):
    # a parent forest that really leads to the start (as _a_star_search builds it); goals: a reached cell, the start
    # itself, an unreached cell (no parent: nothing is written), a cell with only one of the two pointers set
    # (never a cycle that avoids the start: the real function would not return)
    h, w = rng.randint(1, 6), rng.randint(1, 6)
    sy, sx = rng.randrange(h), rng.randrange(w)
    py = -np.ones((h, w), dtype=np.int64)
    px = -np.ones((h, w), dtype=np.int64)
    py[sy, sx], px[sy, sx] = sy, sx
    reached = [(sy, sx)]
    cells = [(y, x) for y in range(h) for x in range(w) if (y, x) != (sy, sx)]
    rng.shuffle(cells)
    deep = rng.random() < 0.4
    for (y, x) in cells[: rng.randint(0, len(cells))]:
        q = reached[-1] if deep else rng.choice(reached)
        py[y, x], px[y, x] = q
        reached.append((y, x))
    k = rng.random()
    if k < 0.65:
        gy, gx = reached[-1] if deep else rng.choice(reached)
    elif k < 0.75:
        gy, gx = sy, sx
    else:
        gy, gx = rng.randrange(h), rng.randrange(w)
        if (gy, gx) not in reached and rng.random() < 0.5:
            if rng.random() < 0.5:
                py[gy, gx] = sy
            else:
                px[gy, gx] = sx
    cost = np.array([rng.choice([float(rng.randint(0, 9)) / 2, NAN, INF]) if rng.random() < 0.1
                     else float(rng.randint(0, 9)) / 2 for _ in range(h * w)]).reshape(h, w)
    return dict(py=py.tolist(), px=px.tolist(), cost=cost.tolist(), sy=sy, sx=sx, gy=int(gy), gx=int(gx))


def line_reconstruct(c):
    cost = np.array(c["cost"], dtype=np.float64)
    path = np.full(cost.shape, NAN)
    return (f"af.path_img={farr(path)} ai.parent_ys={iarr(c['py'])} ai.parent_xs={iarr(c['px'])} af.cost={farr(cost)} "
            f"i.start_py={c['sy']} i.start_px={c['sx']} i.goal_py={c['gy']} i.goal_px={c['gx']}")


def real_reconstruct(c):
    f = mod("xrspatial.pathfinding")._reconstruct_path
    cost = np.array(c["cost"], dtype=np.float64)
    path = np.full(cost.shape, NAN)
    py, px = np.array(c["py"], dtype=np.int64), np.array(c["px"], dtype=np.int64)
    f(path, py, px, cost, c["sy"], c["sx"], c["gy"], c["gx"])
    return ["*", farr(path), iarr(py), iarr(px), farr(cost)]


def gen_prox_line(rng):
    """one call of `_process_proximity_line` in a state as `_process_numpy` produces them: integer coordinates and
    the MANHATTAN metric (2) keep every distance, square and square root exact in float32"""
    w, h = rng.randint(1, 6), rng.randint(1, 4)
    line_id = rng.randrange(h)
    sx, sy = rng.choice([1, 1, 2, 3]), rng.choice([1, 1, 2, 5])
    x0, y0 = rng.randint(-3, 3), rng.randint(-3, 3)
    xs = np.array([[x0 + sx * j for j in range(w)] for _ in range(h)], dtype=np.float64)
    ys = np.array([[y0 + sy * i for _ in range(w)] for i in range(h)], dtype=np.float64)
    src = np.array(pick_vals(rng, [0.0, 0.0, 0.0, 1.0, 2.0, NAN, INF], w))
    values = rng.choice([[], [], [1.0], [2.0, 1.0], [0.0], [7.0]])
    pan_x, pan_y = -np.ones(w, dtype=np.int64), -np.ones(w, dtype=np.int64)
    near_x, near_y = -np.ones(w, dtype=np.int64), -np.ones(w, dtype=np.int64)
    prox = -np.ones(w, dtype=np.float64)
    for j in range(w):
        if rng.random() < 0.5:                 # a remembered target somewhere on the grid
            pan_x[j], pan_y[j] = rng.randrange(w), rng.randrange(h)
        if rng.random() < 0.4:                 # a proximity already written by an earlier pass
            tx, ty = rng.randrange(w), rng.randrange(h)
            near_x[j], near_y[j] = tx, ty
            prox[j] = abs(xs[ty, tx] - xs[line_id, j]) + abs(ys[ty, tx] - ys[line_id, j])
    if rng.random() < 0.08:
        # malformed but accepted: a remembered index other than -1 that is negative wraps around once (numba's index
        # normalisation = ILang's `normIdx`); only where the wrapped index exists
        j = rng.randrange(w)
        if rng.random() < 0.5 and w >= 2:
            pan_x[j], pan_y[j] = -2, rng.randrange(h)
        elif h >= 2:
            pan_x[j], pan_y[j] = rng.randrange(w), -2
    md = rng.choice([INF, INF, 1.0, 2.0, 3.0, 5.0, 8.0, 0.0, 2.5])
    return dict(src=src.tolist(), xs=xs.tolist(), ys=ys.tolist(), pan_x=pan_x.tolist(), pan_y=pan_y.tolist(),
                fwd=rng.random() < 0.5, line_id=line_id, w=w, md=md, prox=prox.tolist(),
                near_x=near_x.tolist(), near_y=near_y.tolist(), values=values, metric=2)


def line_prox_line(c):
    return (f"af.source_line={farr(c['src'])} af.xs={farr(c['xs'])} af.ys={farr(c['ys'])} "
            f"ai.pan_near_x={iarr(c['pan_x'])} ai.pan_near_y={iarr(c['pan_y'])} b.is_forward={1 if c['fwd'] else 0} "
            f"i.line_id={c['line_id']} i.width={c['w']} f.max_distance={fval(c['md'])} "
            f"af.line_proximity={farr(c['prox'])} ai.nearest_xs={iarr(c['near_x'])} ai.nearest_ys={iarr(c['near_y'])} "
            f"af.values={farr(c['values'])} i.distance_metric={c['metric']}")


def real_prox_line(c):
    f = mod("xrspatial.proximity")._process_proximity_line
    src = np.array(c["src"], dtype=np.float64)
    xs, ys = np.array(c["xs"], dtype=np.float64), np.array(c["ys"], dtype=np.float64)
    pan_x, pan_y = np.array(c["pan_x"], dtype=np.int64), np.array(c["pan_y"], dtype=np.int64)
    near_x, near_y = np.array(c["near_x"], dtype=np.int64), np.array(c["near_y"], dtype=np.int64)
    prox = np.array(c["prox"], dtype=np.float32)
    values = np.array(c["values"], dtype=np.float64)
    f(src, xs, ys, pan_x, pan_y, bool(c["fwd"]), c["line_id"], c["w"], np.float32(c["md"]), prox,
      near_x, near_y, values, c["metric"])
    return ["*", farr(src), farr(xs), farr(ys), iarr(pan_x), iarr(pan_y), farr(prox), iarr(near_x), iarr(near_y),
            farr(values)]


def gen_convolve(rng):
    """odd kernel shapes 1..7 (square and not), rasters 1x1..9x9 (kernel smaller than, equal to and larger than the raster
    in either axis, 1xN / Nx1), small integers and dyadic fractions (exact in float32), NaN and +-inf cells in the raster
    (`0 * inf`, `inf - inf`), zero / negative / fractional and occasionally NaN / inf weights.
    Even kernels are rejected by the public wrapper; the bare kernel then reads out of bounds (undefined behaviour in numba,
    `Ctl.err` in the model: Proofs/ILFocal.lean `convolve2d_even_err`), so they are not generated."""
    kh, kw = rng.choice([1, 3, 3, 5, 7]), rng.choice([1, 3, 3, 5, 7])
    kind = rng.random()
    if kind < 0.55:                      # at least one interior cell
        h, w = rng.randint(kh, kh + 4), rng.randint(kw, kw + 4)
    elif kind < 0.7:                     # exactly one interior row / column, or none
        h, w = rng.choice([kh - 1, kh, kh]), rng.choice([kw - 1, kw, kw])
    else:
        h, w = rng.randint(1, 9), rng.randint(1, 9)
    h, w = max(h, 1), max(w, 1)
    dpool = rng.choice([[0.0, 1.0, 2.0, -1.0, 0.5, 4.0], [0.0, 1.0, 2.0, -1.0, 0.5, NAN, 4.0],
                        [1.0, 2.0, 3.0, INF, -INF, NAN, 0.0, -0.25], [1.0]])
    kpool = rng.choice([[0.0, 1.0, 1.0, 2.0, -1.0, 0.5], [1.0], [0.0, 1.0], [0.25, -0.5, 3.0, 0.0, NAN],
                        [0.0, 1.0, INF, -2.0]])
    data = np.array(pick_vals(rng, dpool, h * w), dtype=np.float64).reshape(h, w)
    kernel = np.array(pick_vals(rng, kpool, kh * kw)).reshape(kh, kw)
    return dict(data=data.tolist(), kernel=kernel.tolist())


def line_convolve(c):
    return f"af.data={farr(c['data'])} af.kernel={farr(c['kernel'])}"


def real_convolve(c):
    f = mod("xrspatial.convolution")._convolve_2d_numpy
    d, k = np.array(c["data"], dtype=np.float64), np.array(c["kernel"], dtype=np.float64)
    out = f(d, k)
    return ["ret", farr(out), farr(d), farr(k)]


def gen_process(rng):
    """whole raster through the jitted closure `_process._process_numpy`, reached through the public functions
    (numpy backend); MANHATTAN on integer coordinates keeps every distance exact"""
    h, w = rng.randint(1, 5), rng.randint(1, 6)
    sx, sy = rng.choice([1, 1, 2, 3]), rng.choice([1, 1, 2, 5])
    x0, y0 = rng.randint(-3, 3), rng.randint(-3, 3)
    xdir, ydir = rng.choice([1, 1, -1]), rng.choice([1, 1, -1])
    xs = [x0 + xdir * sx * j for j in range(w)]
    ys = [y0 + ydir * sy * i for i in range(h)]
    p = rng.choice([0.1, 0.3, 0.6])
    vals = [0.0 if rng.random() > p else float(rng.choice([1, 2, 3])) for _ in range(h * w)]
    if rng.random() < 0.2:
        vals[rng.randrange(h * w)] = rng.choice([NAN, INF])
    img = np.array(vals).reshape(h, w)
    targets = rng.choice([[], [], [1.0], [2.0, 3.0], [0.0], [9.0]])
    md = rng.choice([None, None, 1.0, 2.0, 3.0, 5.0, 8.0, 2.5])
    return dict(img=img.tolist(), xs=xs, ys=ys, targets=targets, md=md, mode=rng.choice([0, 0, 1, 2]))


def line_process(c):
    img = np.array(c["img"], dtype=np.float64)
    h, w = img.shape
    xg = np.tile(np.array(c["xs"], dtype=np.float64), h).reshape(h, w)
    yg = np.repeat(np.array(c["ys"], dtype=np.float64), w).reshape(h, w)
    md = INF if c["md"] is None else c["md"]
    return (f"af.img={farr(img)} af.x_coords={farr(xg)} af.y_coords={farr(yg)} af.target_values={farr(c['targets'])} "
            f"f.max_distance={fval(md)} i.distance_metric=2 i.process_mode={c['mode']}")


def real_process(c):
    import xarray as xr
    px = mod("xrspatial.proximity")
    img = np.array(c["img"], dtype=np.float64)
    r = xr.DataArray(img.copy(), dims=["y", "x"], coords=dict(y=np.array(c["ys"], dtype=np.float64),
                                                            x=np.array(c["xs"], dtype=np.float64)))
    f = [px.proximity, px.allocation, px.direction][c["mode"]]
    kw = dict(target_values=list(c["targets"]), distance_metric="MANHATTAN")
    if c["md"] is not None:
        kw["max_distance"] = c["md"]
    out = np.asarray(f(r, **kw).data)
    return ["ret", ("img_distance" if c["mode"] == 0 else "output_img", farr(out))]


def gen_direction(rng):
    g = lambda: float(rng.randint(-4, 4)) / rng.choice([1, 1, 2])
    x1, y1 = g(), g()
    if rng.random() < 0.4:
        x2, y2 = (x1, g()) if rng.random() < 0.5 else (g(), y1)
    else:
        x2, y2 = g(), g()
    return dict(x1=x1, x2=x2, y1=y1, y2=y2)


def line_direction(c):
    return f"f.x1={fval(c['x1'])} f.x2={fval(c['x2'])} f.y1={fval(c['y1'])} f.y2={fval(c['y2'])}"


def real_direction(c):
    f = mod("xrspatial.proximity")._calc_direction
    return ["ret", fval(f(c["x1"], c["x2"], c["y1"], c["y2"]))]


# `_area_connectivity`: the cases are built for the two passes (many provisional labels that merge late, stale
# captured labels in the merge loop), the clamped windows (1xN, Nx1, borders), the closeness test (values that are
# close but not equal, asymmetric pairs, +-inf) and the NaN guards; the array handed to the numba function carries a
# memory layout (`lay`): the generated program sees the logical raster.
AREA_LAYOUTS = ["C", "C", "F", "T", "strided", "neg", "negrow"]
# close but not equal: 1 ~ 1.000001 ~ 1.00001 (1.00002 is not); 100000 ~ 100001; 99999 is close to the centre 100000
# but 100000 is not close to the centre 99999; 0 ~ 1e-9; an infinite centre matches every finite neighbour
AREA_CLOSE = [1.0, 1.000001, 1.00001, 1.00002, 1.0 + 2.0 ** -20, 100000.0, 100001.0, 99999.0, 0.0, 1e-9, -1e-9,
              INF, -INF, 2.0]


def area_lay(a, layout):
    a = np.ascontiguousarray(a)
    h, w = a.shape
    if layout == "F":
        return np.asfortranarray(a)
    if layout == "T":
        return np.ascontiguousarray(a.T).T
    if layout == "strided":
        big = np.full((2 * h + 1, 3 * w + 2), 99.0, dtype=a.dtype)
        v = big[1::2, 2::3][:h, :w]
        v[...] = a
        return v
    if layout == "neg":
        return np.ascontiguousarray(a[::-1, ::-1])[::-1, ::-1]
    if layout == "negrow":
        return np.ascontiguousarray(a[::-1, :])[::-1, :]
    return a


def area_shape(rng, h, w):
    """0/1 shapes whose first-pass labels merge late"""
    kind = rng.choice(["comb_down", "comb_up", "u", "s", "checker", "stripes_d", "rings", "snake", "trident", "teeth"])
    a = np.zeros((h, w), dtype=np.float64)
    if kind == "comb_down":
        a[:, ::2] = 1
        a[h - 1, :] = 1
    elif kind == "comb_up":
        a[:, ::2] = 1
        a[0, :] = 1
    elif kind == "u":
        a[:, 0] = 1
        a[:, w - 1] = 1
        a[h - 1, :] = 1
    elif kind == "s":
        a[::2, :] = 1
        for k in range(1, h, 2):
            a[k, (w - 1) if (k // 2) % 2 == 0 else 0] = 1
    elif kind == "checker":
        a = (np.add.outer(np.arange(h), np.arange(w)) % 2).astype(np.float64)
    elif kind == "stripes_d":
        a = (np.add.outer(np.arange(h), np.arange(w)) % 3 == 0).astype(np.float64)
    elif kind == "rings":
        for k in range(0, (min(h, w) + 1) // 2):
            a[k:h - k, k:w - k] = k % 2
    elif kind == "snake":
        for k in range(min(h, w)):
            a[h - 1 - k, k] = 1
            if k + 1 < w:
                a[h - 1 - k, k + 1] = 1
    elif kind == "trident":            # diagonal arms meeting in one cell: [high, low, other] captured in pass 2
        a[:] = 9
        y, x = h - 1 - rng.randrange(0, max(1, h // 3)), w // 2
        for t in range(0, h):
            for (yy, xx) in ((y - t, x - t), (y - t, x + t)):
                if 0 <= yy < h and 0 <= xx < w and rng.random() < 0.9:
                    a[yy, xx] = 0
        a[:, 0] = 0
        a[h - 1, 0:x] = 0
    else:                              # teeth of random length hanging from isolated cells, joined at the bottom
        a[h - 1, :] = 1
        for xx in range(0, w, 2):
            a[rng.randrange(0, h):, xx] = 1
    if rng.random() < 0.5:
        a = a[:, ::-1].copy()
    if rng.random() < 0.4:
        a = a[::-1, :].copy()
    return kind, a


def area_nan(rng, a):
    """NaN placement: frame, corners, a row / column, a diagonal, scattered, everything, everything but one"""
    h, w = a.shape
    kind = rng.choice(["frame", "corners", "row", "col", "diag", "scatter", "scatter", "all", "all_but_one", "first"])
    if kind == "frame":
        a[0, :] = a[h - 1, :] = NAN
        a[:, 0] = a[:, w - 1] = NAN
    elif kind == "corners":
        for (y, x) in ((0, 0), (0, w - 1), (h - 1, 0), (h - 1, w - 1)):
            a[y, x] = NAN
    elif kind == "row":
        a[rng.randrange(h), :] = NAN
    elif kind == "col":
        a[:, rng.randrange(w)] = NAN
    elif kind == "diag":
        for k in range(min(h, w)):
            a[k, k] = NAN
    elif kind == "scatter":
        p = rng.choice([0.1, 0.3, 0.6])
        for y in range(h):
            for x in range(w):
                if rng.random() < p:
                    a[y, x] = NAN
    elif kind == "all":
        a[:] = NAN
    elif kind == "all_but_one":
        v = a[h // 2, w // 2]
        a[:] = NAN
        a[rng.randrange(h), rng.randrange(w)] = 1.0 if v != v else v
    else:
        a[0, 0] = NAN
    return kind


def _focal_raster(rng, pool, hmax=6, wmax=6):
    """raster shapes: 1x1, one row, one column, general; contents: from `pool`, all NaN, all one value, one non-NaN cell"""
    k = rng.random()
    if k < 0.03:                             # an empty raster: no rows, no columns, or neither
        h, w = rng.choice([(0, 3), (2, 0), (0, 0), (0, 1)])
        return np.zeros((h, w)), ["empty", "zeros"]
    if k < 0.08:
        h, w, cls = 1, 1, "1x1"
    elif k < 0.2:
        h, w, cls = 1, rng.randint(2, wmax), "1xN"
    elif k < 0.32:
        h, w, cls = rng.randint(2, hmax), 1, "Nx1"
    elif k < 0.4:
        h, w, cls = 2, 2, "2x2"
    else:
        h, w, cls = rng.randint(2, hmax), rng.randint(2, wmax), "HxW"
    k = rng.random()
    if k < 0.08:
        data, fill = np.full((h, w), NAN), "allnan"
    elif k < 0.14:
        data, fill = np.full((h, w), rng.choice([0.0, 1.0, -2.0, INF])), "const"
    elif k < 0.22:
        data, fill = np.full((h, w), NAN), "onecell"
        data[rng.randrange(h), rng.randrange(w)] = rng.choice([1.0, -3.0, 0.5, INF, -INF])
    else:
        data, fill = np.array(pick_vals(rng, pool, h * w), dtype=np.float64).reshape(h, w), "mixed"
    return data, [cls, fill]


def gen_mean(rng):
    """rasters 1x1 / 1xN / Nx1 / 2x2 / general up to 6x6 (the 3x3 window clipped on one, two, three or four sides); cells: small
    integers and dyadic fractions, NaN (none, some, all, all but one), +-inf (`inf - inf` in a window), -0.0; excludes: empty,
    [NaN], one or several finite values (present in the raster or not, duplicates), +-inf, NaN together with values, -0.0
    against 0.0."""
    pool = rng.choice([[0.0, 1.0, 2.0, 3.0, -1.0, 0.5, NAN, NAN, INF],
                       [0.0, 1.0, 2.0, 3.0, -1.0, 0.5, 4.0, -2.5],
                       [1.0, 2.0, NAN, NAN, NAN],
                       [0.0, -0.0, 1.0, INF, -INF, NAN, 7.0],
                       [1.0, 2.0, 3.0, 4.0, 5.0, 6.0, 7.0, 8.0, 9.0]])
    data, tags = _focal_raster(rng, pool)
    k = rng.random()
    if k < 0.15:
        ex, et = [], "ex-empty"
    elif k < 0.35:
        ex, et = [NAN], "ex-nan"
    elif k < 0.5:
        ex, et = [rng.choice([0.0, 1.0, 2.0, -1.0, 9.0])], "ex-one"
    elif k < 0.62:
        ex, et = [rng.choice([INF, -INF])], "ex-inf"
    elif k < 0.8:
        ex, et = pick_vals(rng, [0.0, 1.0, 2.0, 3.0, 0.5, -1.0, 1.0, NAN, INF, -INF, -0.0], rng.randint(2, 5)), "ex-many"
    elif k < 0.9:                            # values taken from the raster itself (several cells excluded, possibly all)
        flat = data.ravel().tolist() or [0.0]
        ex, et = [rng.choice(flat) for _ in range(rng.randint(1, 3))], "ex-from-data"
    else:
        ex, et = [-0.0, NAN], "ex-negzero-nan"
    return dict(data=data.tolist(), shape=list(data.shape), ex=ex, tags=tags + [et])


def _focal_data(c):
    d = np.array(c["data"], dtype=np.float64)
    return d.reshape(c["shape"]) if "shape" in c else d


def line_mean(c):
    return f"af.data={farr(_focal_data(c))} af.excludes={farr(c['ex'])}"


def real_mean(c):
    f = mod("xrspatial.focal")._mean_numpy
    d, ex = _focal_data(c), np.array(c["ex"], dtype=np.float64)
    out = f(d, ex)
    return ["ret", farr(out), farr(d), farr(ex)]


def gen_apply(rng):
    """odd kernel shapes 1..7 (square and not; smaller than, equal to and larger than the raster in either axis), rasters as for
    `gen_mean` (float32-exact cells: `_apply_numpy` casts the raster to float32); kernels: 0/1 masks (none, some, all entries 1),
    and entries that are *not* 1 and must not select a cell -- 2, 0.5, -1, NaN, inf, 1 + 2^-40 (a double next to 1); windows with
    no selected cell, only NaN cells, +-inf cells (`inf - inf` in range / var / std).
    Even kernel sides are rejected by `custom_kernel`; the bare function then indexes past the kernel (undefined behaviour in
    numba, `Ctl.err` in the generated program: Proofs/ILApplyEven.lean), so they are not generated."""
    pool = rng.choice([[0.0, 1.0, 2.0, 3.0, -1.0, 0.5, 8.0, NAN, NAN],
                       [0.0, 1.0, 2.0, 3.0, -1.0, 0.5, 8.0, -4.0],
                       [1.0, NAN, NAN, NAN],
                       [0.0, 1.0, 2.0, INF, -INF, NAN, 16.0],
                       [1.0, 2.0, 3.0, 4.0, 5.0, 6.0, 7.0]])
    data, tags = _focal_raster(rng, pool)
    h, w = data.shape
    k = rng.random()
    if k < 0.6 or h == 0 or w == 0:
        kh, kw = rng.choice([1, 3, 3, 5]), rng.choice([1, 3, 3, 5])
    elif k < 0.8:                            # larger than the raster in at least one axis
        kh, kw = rng.choice([x for x in (3, 5, 7) if x > h] or [7]), rng.choice([1, 3, 5, 7])
        tags.append("k>raster")
    else:
        kh, kw = rng.choice([1, 3, 5, 7]), rng.choice([x for x in (3, 5, 7) if x > w] or [7])
        tags.append("k>raster")
    k = rng.random()
    if k < 0.35:
        kpool, kt = [1.0, 1.0, 1.0, 0.0, 0.0], "k01"
    elif k < 0.45:
        kpool, kt = [1.0], "kones"
    elif k < 0.52:
        kpool, kt = [0.0], "kzeros"
    elif k < 0.6:
        kpool, kt = [0.0, 0.0, 0.0, 0.0, 1.0], "ksparse"
    elif k < 0.85:
        kpool, kt = [1.0, 1.0, 0.0, 2.0, 0.5, -1.0, NAN, INF, 1.0 + 2.0 ** -40], "kweights"
    else:
        kpool, kt = [2.0, 0.5, -1.0, NAN, 1.0 + 2.0 ** -40, 0.0], "kno1"
    kernel = np.array(pick_vals(rng, kpool, kh * kw)).reshape(kh, kw)
    return dict(data=data.tolist(), shape=list(data.shape), kernel=kernel.tolist(), tags=tags + [kt])


def line_apply(c):
    return f"af.data={farr(_focal_data(c))} af.kernel={farr(c['kernel'])}"


def real_apply(fname):
    def real(c):
        fo = mod("xrspatial.focal")
        d, k = _focal_data(c), np.array(c["kernel"], dtype=np.float64)
        out = fo._apply_numpy(d, k, getattr(fo, fname))
        return ["ret", farr(out), farr(d), farr(k)]
    return real


def gen_area(rng):
    mode = rng.choice(["rand", "rand", "shape", "shape", "many", "close", "close", "line", "nan"])
    h, w = rng.randint(1, 7), rng.randint(1, 8)
    tag = mode
    if mode == "line":
        (h, w) = (1, rng.randint(1, 14)) if rng.random() < 0.5 else (rng.randint(1, 14), 1)
        a = np.array(pick_vals(rng, [0.0, 1.0, 1.0, 2.0, 1.000001], h * w), dtype=np.float64).reshape(h, w)
    elif mode == "shape":
        h, w = max(h, 2), max(w, 2)
        kind, a = area_shape(rng, h, w)
        tag = "shape:" + kind
        if rng.random() < 0.3:
            a = a * 2 - 1
    elif mode == "many":               # many provisional labels: alternating rows / isolated cells with bridges
        h, w = rng.randint(4, 9), rng.randint(6, 12)
        a = np.zeros((h, w), dtype=np.float64)
        if rng.random() < 0.5:
            a[::2, ::2] = 1
            for _ in range(rng.randint(0, 6)):
                a[rng.randrange(h), rng.randrange(w)] = 1
        else:
            a[:, ::2] = 1
            for _ in range(rng.randint(1, 5)):
                a[rng.randrange(h), :] = rng.choice([0.0, 1.0])
        if rng.random() < 0.5:
            a[h - 1, :] = 1
    elif mode == "close":
        pool = rng.sample(AREA_CLOSE, rng.randint(2, 5))
        a = np.array(pick_vals(rng, pool, h * w), dtype=np.float64).reshape(h, w)
    else:
        kind = rng.random()
        vals = [0.0, 1.0, 1.0, 2.0] if kind < 0.5 else [1.0, 2.0] if kind < 0.8 else [0.0, 1.0, 2.0, 3.0, 1.00000001, 1.5]
        a = np.array(pick_vals(rng, vals, h * w), dtype=np.float64).reshape(h, w)
    if mode == "nan" or rng.random() < 0.3:
        tag += "+nan:" + area_nan(rng, a)
    return dict(data=a.tolist(), n=rng.choice([4, 8]), lay=rng.choice(AREA_LAYOUTS), tag=tag)


def line_area(c):
    return f"af.data={farr(c['data'])} i.n={c['n']}"


def real_area(c):
    f = mod("xrspatial.zonal")._area_connectivity
    d = area_lay(np.array(c["data"], dtype=np.float64), c.get("lay", "C"))
    out = f(d, c["n"])
    return ["ret", farr(out), farr(d)]


# ---- the red-black status tree of viewshed.py: a case is the arrays after a random history built with the real
# routines, plus one final operation
VS_N = 12


def vs_mod():
    return importlib.import_module("xrspatial.viewshed")


def vs_value(rng, key, mode=0):
    """one status node.  mode 0: three distinct-ish gradients, a narrow span somewhere in [0, 5.5];
    mode 1: every node spans every queried bearing (as in the sweep), centre anywhere in between -- the exact walk of
    the query interpolates on every node and its early exit fires; mode 2: as 1 with gradients from a two-value
    alphabet (ties in every comparison of the stored maxima)"""
    if mode == 2:
        g = [rng.choice([-1.0, 0.5]) for _ in range(3)]
    else:
        g = sorted(float(rng.randint(-8, 8)) / 2 for _ in range(3))
        rng.shuffle(g)
    if mode == 0:
        a0 = float(rng.randint(0, 20)) / 4
        return [float(key), g[0], g[1], g[2], a0, a0 + 0.25, a0 + 0.5, 0.0]
    a1 = float(rng.randint(1, 21)) / 4
    return [float(key), g[0], g[1], g[2], 0.0, a1, 5.5, 0.0]


def vs_build(rng, n_ops, mode=0):
    v = vs_mod()
    tv = np.zeros((VS_N, 8), dtype=np.float64)
    tn = np.zeros((VS_N, 4), dtype=np.int64)
    root = int(v._create_status_struct(tv, tn))
    free = list(range(1, VS_N - 1))
    keys = []
    for _ in range(n_ops):
        if keys and (rng.random() < 0.35 or not free):
            k = keys.pop(rng.randrange(len(keys)))
            root, d = v._delete_from_tree(tv, tn, root, float(k))
            root = int(root)
            free.append(int(d))
        elif free:
            k = rng.choice([x for x in range(1, 40) if x not in keys])
            nid = free.pop(rng.randrange(len(free)))
            root = int(v._insert_into_tree(tv, tn, root, nid, np.array(vs_value(rng, k, mode))))
            keys.append(k)
    return tv, tn, root, free, keys


def gen_vs(op):
    def gen(rng):
        mode = rng.choice([0, 1, 1, 2])
        tv, tn, root, free, keys = vs_build(rng, rng.randint(0, 14), mode)
        c = dict(op=op, tv=tv.tolist(), tn=tn.tolist(), root=root)
        if op == "insert":
            if not free:
                keys_ = keys
                tv, tn, root, free, keys = vs_build(rng, 3, mode)
                c.update(tv=tv.tolist(), tn=tn.tolist(), root=root)
            k = rng.choice([x for x in range(1, 40) if x not in keys])
            c.update(node_id=rng.choice(free), value=vs_value(rng, k, mode))
        elif op in ("delete", "search"):
            present = bool(keys) and rng.random() < 0.8
            c.update(key=float(rng.choice(keys)) if present else float(rng.choice([x for x in range(1, 40) if x not in keys])))
            if op == "delete" and not present:
                c["absent"] = True
        elif op == "query":
            # mostly the largest keys (many nearer nodes to walk over); sometimes a key that is not in the tree
            # (the code answers SMALLEST_GRAD), sometimes the permanent dummy's key 0
            u = rng.random()
            if keys and u < 0.85:
                ks = sorted(keys)
                key = float(rng.choice(ks[len(ks) // 2:]) if rng.random() < 0.6 else rng.choice(ks))
            elif u < 0.93:
                key = 0.0
            else:
                key = float(rng.choice([x for x in range(1, 40) if x not in keys])) + rng.choice([0.0, 0.5])
            c.update(key=key, ang=float(rng.randint(0, 22)) / 4, grad=float(rng.randint(-9, 8)) / 2)
        elif op in ("min", "succ", "fvmin"):
            used = [i for i in range(VS_N - 1) if i not in free]
            c.update(x=rng.choice(used))
        elif op in ("lrot", "rrot"):
            side = 2 if op == "lrot" else 1
            cand = [i for i in range(0, VS_N - 1) if i not in free and tn[i, side] != -1]
            c.update(x=rng.choice(cand) if cand else None)
        return c
    return gen


def line_vs(c):
    base = f"af.tree_vals={farr(c['tv'])} ai.tree_nodes={iarr(c['tn'])} "
    op = c["op"]
    if op == "insert":
        return base + f"i.root={c['root']} i.node_id={c['node_id']} af.value={farr(c['value'])}"
    if op in ("delete", "search"):
        return base + f"i.root={c['root']} f.key={fval(c['key'])}"
    if op == "query":
        return base + f"i.root={c['root']} f.distance={fval(c['key'])} f.angle={fval(c['ang'])} f.gradient={fval(c['grad'])}"
    if op == "fvmin":
        return f"af.tree_vals={farr(c['tv'])} i.node_id={c['x']}"
    if op in ("min", "succ"):
        return f"ai.tree_nodes={iarr(c['tn'])} i.x={c['x']}"
    if op == "lrot":
        return base + f"i.root={c['root']} i.x={c['x'] if c['x'] is not None else 0}"
    return base + f"i.root={c['root']} i.y={c['x'] if c['x'] is not None else 0}"


def real_vs(c):
    v = vs_mod()
    tv, tn = np.array(c["tv"], dtype=np.float64), np.array(c["tn"], dtype=np.int64)
    op = c["op"]
    if op == "insert":
        val = np.array(c["value"], dtype=np.float64)
        root = v._insert_into_tree(tv, tn, c["root"], c["node_id"], val)
        return ["ret", str(int(root)), farr(tv), iarr(tn), farr(val)]
    if op == "delete":
        if c.get("absent"):
            return ["err", "ValueError"]
        root, d = v._delete_from_tree(tv, tn, c["root"], c["key"])
        return ["ret", str(int(root)), str(int(d)), farr(tv), iarr(tn)]
    if op == "search":
        return ["ret", str(int(v._search_for_node(tv, tn, c["root"], c["key"]))), farr(tv), iarr(tn)]
    if op == "query":
        import contextlib
        import io
        with contextlib.redirect_stdout(io.StringIO()):     # the code prints "Angles outside angle" for a non-spanning node
            q = v._max_grad_in_status_struct(tv, tn, c["root"], c["key"], c["ang"], c["grad"])
        return ["ret", fval(q), farr(tv), iarr(tn)]
    if op == "fvmin":
        return ["ret", fval(v._find_value_min_value(tv, c["x"])), farr(tv)]
    if op == "min":
        return ["ret", str(int(v._tree_minimum(tn, c["x"]))), iarr(tn)]
    if op == "succ":
        return ["ret", str(int(v._tree_successor(tn, c["x"]))), iarr(tn)]
    if c["x"] is None:
        return ["skip"]
    f = v._left_rotate if op == "lrot" else v._right_rotate
    root = f(tv, tn, c["root"], c["x"])
    return ["ret", str(int(root)), farr(tv), iarr(tn)]


# ---- viewshed: event geometry, event list, radial sweep
def gen_vs_rowcol(rng):
    return dict(t=rng.choice([1, -1, 1, -1, 0]), r=rng.randint(0, 4), c=rng.randint(0, 4), vr=rng.randint(0, 4),
                vc=rng.randint(0, 4))


def line_vs_rowcol(c):
    return (f"i.event_type={c['t']} i.event_row={c['r']} i.event_col={c['c']} "
            f"i.viewpoint_row={c['vr']} i.viewpoint_col={c['vc']}")


def real_vs_rowcol(c):
    y, x = vs_mod()._calculate_event_row_col(c["t"], c["r"], c["c"], c["vr"], c["vc"])
    return ["ret", str(int(y)), str(int(x))]


def real_vs_pos(c):
    y, x = vs_mod()._calc_event_pos(c["t"], c["r"], c["c"], c["vr"], c["vc"])
    return ["ret", fval(y), fval(x)]


def gen_vs_angle(rng):
    g = lambda: float(rng.randint(-8, 8)) / 2
    vx, vy = rng.randint(-3, 3), rng.randint(-3, 3)
    ex, ey = (float(vx), g()) if rng.random() < 0.2 else (g(), float(vy)) if rng.random() < 0.25 else (g(), g())
    return dict(ex=ex, ey=ey, vx=vx, vy=vy)


def line_vs_angle(c):
    return f"f.event_x={fval(c['ex'])} f.event_y={fval(c['ey'])} i.viewpoint_x={c['vx']} i.viewpoint_y={c['vy']}"


def real_vs_angle(c):
    return ["ret", fval(vs_mod()._calculate_angle(c["ex"], c["ey"], c["vx"], c["vy"]))]


def gen_vs_vang(rng):
    return dict(ve=float(rng.randint(-6, 6)) / 2, d=float(rng.randint(1, 40)) / 4, e=float(rng.randint(-6, 6)) / 2)


def line_vs_vang(c):
    return f"f.viewpoint_elev={fval(c['ve'])} f.distance_to_viewpoint={fval(c['d'])} f.elev={fval(c['e'])}"


def real_vs_vang(c):
    return ["ret", fval(vs_mod()._get_vertical_ang(c["ve"], c["d"], c["e"]))]


def vs_terrain(rng):
    h, w = rng.randint(1, 4), rng.randint(1, 5)
    if h * w == 1:
        w = 2
    kind = rng.random()
    pool = [0.0, 1.0, 2.0, 3.0, 5.0, 0.5] if kind < 0.6 else [0.0, 0.0, 1.0] if kind < 0.85 else [0.0, 1.0, 2.0, NAN]
    t = np.array(pick_vals(rng, pool, h * w), dtype=np.float64).reshape(h, w)
    return t, rng.randrange(h), rng.randrange(w)


def gen_vs_init(rng):
    t, vr, vc = vs_terrain(rng)
    return dict(raster=t.tolist(), vr=vr, vc=vc)


def vs_init_arrays(c):
    t = np.array(c["raster"], dtype=np.float64)
    h, w = t.shape
    ev = np.zeros((3 * (h * w - 1), 7), dtype=np.float64)
    data = np.zeros((3, w), dtype=np.float64)
    vis = np.full((h, w), -1.0)
    return t, ev, data, vis


def line_vs_init(c):
    t, ev, data, vis = vs_init_arrays(c)
    return (f"af.event_list={farr(ev)} af.raster={farr(t)} i.vp_row={c['vr']} i.vp_col={c['vc']} "
            f"af.data={farr(data)} af.visibility_grid={farr(vis)}")


def real_vs_init(c):
    t, ev, data, vis = vs_init_arrays(c)
    vs_mod()._init_event_list(ev, t, c["vr"], c["vc"], data, vis)
    return ["*", farr(ev), farr(t), farr(data), farr(vis)]


def gen_vs_sweep(rng):
    t, vr, vc = vs_terrain(rng)
    return dict(raster=t.tolist(), vr=vr, vc=vc, obs=rng.choice([0.0, 0.0, 1.0, 2.5, -1.0]),
                tgt=rng.choice([0.0, 0.0, 0.5, 1.0]), ew=rng.choice([1.0, 1.0, 2.0, 0.5]), ns=rng.choice([1.0, 1.0, 3.0]))


def vs_sweep_arrays(c):
    """the arrays `_viewshed_cpu` hands to the sweep, built with the real event-list routine"""
    v = vs_mod()
    t, ev, data, vis = vs_init_arrays(c)
    v._init_event_list(ev, t, c["vr"], c["vc"], data, vis)
    ev = ev[np.lexsort((ev[:, v.E_TYPE_ID], ev[:, v.E_ANG_ID]))]
    rcts = np.array(ev[:, :3], dtype=np.int64)
    aes = np.array(ev[:, 3:], dtype=np.float64)
    vp_elev = float(t[c["vr"], c["vc"]]) + c["obs"]
    return t, rcts, aes, data, vis, vp_elev


def line_vs_sweep(c):
    t, rcts, aes, data, vis, vp_elev = vs_sweep_arrays(c)
    return (f"af.raster={farr(t)} i.vp_row={c['vr']} i.vp_col={c['vc']} f.vp_elev={fval(vp_elev)} "
            f"f.vp_target={fval(c['tgt'])} f.ew_res={fval(c['ew'])} f.ns_res={fval(c['ns'])} "
            f"ai.event_rcts={iarr(rcts)} af.event_aes={farr(aes)} af.data={farr(data)} af.visibility_grid={farr(vis)}")


def real_vs_sweep(c):
    t, rcts, aes, data, vis, vp_elev = vs_sweep_arrays(c)
    if np.isnan(vp_elev):
        return ["skip"]
    out = vs_mod()._viewshed_cpu_sweep(t, c["vr"], c["vc"], vp_elev, c["tgt"], c["ew"], c["ns"], rcts, aes, data, vis)
    return ["ret", farr(out), farr(t), iarr(rcts), farr(aes), farr(data), farr(vis)]


# programs whose numeric results go through libm / float32 rounding: compared within this relative tolerance
TOL = {"vsAngle": 1e-12, "vsVerticalAng": 1e-12, "vsInitEventList": 1e-12, "vsSweep": 1e-9, "calcDirection": 1e-6, "processNumpy": 1e-6, "applyMean": 1e-6, "applySum": 1e-6, "applyMin": 1e-6,
       "applyMax": 1e-6, "applyRange": 1e-6, "applyStd": 2e-6, "applyVar": 2e-6}

SPECS = {
    "cpuBin": (gen_cpu_bin, line_cpu_bin, real_cpu_bin),
    "strides": (gen_strides, line_strides, real_strides),
    "trim": (gen_trim, line_trim, real_trim),
    "crop": (gen_crop, line_crop, real_crop),
    "isNotCrossable": (gen_not_crossable, line_not_crossable, real_not_crossable),
    "isInside": (gen_inside, line_inside, real_inside),
    "minCostPixelId": (gen_min_cost, line_min_cost, real_min_cost),
    "findNearestPixel": (gen_nearest, line_nearest, real_nearest),
    "aStarSearch": (gen_astar, line_astar, real_astar),
    "reconstructPath": (gen_reconstruct, line_reconstruct, real_reconstruct),
    "proximityLine": (gen_prox_line, line_prox_line, real_prox_line),
    "convolve2d": (gen_convolve, line_convolve, real_convolve),
    "processNumpy": (gen_process, line_process, real_process),
    "calcDirection": (gen_direction, line_direction, real_direction),
    "areaConnectivity": (gen_area, line_area, real_area),
    "meanNumpy": (gen_mean, line_mean, real_mean),
    "applyMean": (gen_apply, line_apply, real_apply("_calc_mean")),
    "applySum": (gen_apply, line_apply, real_apply("_calc_sum")),
    "applyMin": (gen_apply, line_apply, real_apply("_calc_min")),
    "applyMax": (gen_apply, line_apply, real_apply("_calc_max")),
    "applyRange": (gen_apply, line_apply, real_apply("_calc_range")),
    "applyStd": (gen_apply, line_apply, real_apply("_calc_std")),
    "applyVar": (gen_apply, line_apply, real_apply("_calc_var")),
    "vsEventRowCol": (gen_vs_rowcol, line_vs_rowcol, real_vs_rowcol),
    "vsEventPos": (gen_vs_rowcol, line_vs_rowcol, real_vs_pos),
    "vsAngle": (gen_vs_angle, line_vs_angle, real_vs_angle),
    "vsVerticalAng": (gen_vs_vang, line_vs_vang, real_vs_vang),
    "vsInitEventList": (gen_vs_init, line_vs_init, real_vs_init),
    "vsSweep": (gen_vs_sweep, line_vs_sweep, real_vs_sweep),
    "vsInsert": (gen_vs("insert"), line_vs, real_vs),
    "vsDelete": (gen_vs("delete"), line_vs, real_vs),
    "vsSearch": (gen_vs("search"), line_vs, real_vs),
    "vsQuery": (gen_vs("query"), line_vs, real_vs),
    "vsFindValueMin": (gen_vs("fvmin"), line_vs, real_vs),
    "vsTreeMinimum": (gen_vs("min"), line_vs, real_vs),
    "vsTreeSuccessor": (gen_vs("succ"), line_vs, real_vs),
    "vsLeftRotate": (gen_vs("lrot"), line_vs, real_vs),
    "vsRightRotate": (gen_vs("rrot"), line_vs, real_vs),
}


def canon_tok(t):
    if t == "":
        return t
    x = common.untok(t)
    return "nan" if x != x else repr(x + 0.0)          # -0.0 + 0.0 = 0.0: the sign of zero is not compared


def canon(fields):
    out = []
    for f in fields:
        if ":" in f:
            shape, body = f.split(":", 1)
            out.append(shape + ":" + ",".join(canon_tok(t) for t in body.split(",")))
        else:
            out.append(canon_tok(f))
    return out


def close_field(a, b, tol):
    if ":" in a and ":" in b:
        sa, ba = a.split(":", 1)
        sb, bb = b.split(":", 1)
        ta, tb = ba.split(","), bb.split(",")
        return sa == sb and len(ta) == len(tb) and all(close_field(x, y, tol) for x, y in zip(ta, tb))
    if a == "" or b == "":
        return a == b
    return common.close(common.untok(a), common.untok(b), rel=tol, abs_=tol)


def compare(real, reply, prog=None, rets=None):
    """real: [ctl or '*', fields...]; reply: driver line.  A field of `real` may be a pair (result name, value):
    then only the result with that name is compared (programs that return one of several arrays)."""
    got = reply.split("|")
    if len(got) < 2 or got[1] != "ok":
        return False
    ctl, fields = got[0], got[2:]
    if real[0] == "*":
        if ctl not in ("end", "ret"):
            return False
    elif ctl != real[0]:
        return False
    want = real[1:]
    if any(isinstance(f, tuple) for f in want):
        names = rets or []
        pairs = []
        for nm, val in want:
            if nm not in names:
                return False
            pairs.append((fields[names.index(nm)], val))
        fields, want = [p[0] for p in pairs], [p[1] for p in pairs]
    tol = TOL.get(prog)
    if tol:
        return len(fields) == len(want) and all(close_field(a, b, tol) for a, b in zip(fields, want))
    return canon(fields) == canon(want)


_RETS = {}


def ret_names(prog):
    """names of the results of a generated program, read from Gen/report.json"""
    if not _RETS:
        import json
        import os
        rep = json.load(open(os.path.join(common.LEAN, "XrsVerif", "Gen", "report.json")))
        for k, v in rep.get("facts:IL.lean", {}).items():
            _RETS[k] = [r[0] for r in v.get("rets", [])]
    return _RETS.get(prog, [])


def stream(r, progs, n, driver=None):
    """n generated cases per program; returns the number of disagreements"""
    driver = driver or common.Driver()
    bad = 0
    for prog in progs:
        gen, line, real = SPECS[prog]
        cases, lines, reals = [], [], []
        for _ in range(n):
            c = gen(r.rng)
            try:
                rv = real(c)
            except Exception as ex:          # the real code rejects the input: the model must fail too
                rv = ["err", type(ex).__name__]
            cases.append(c)
            reals.append(rv)
            lines.append(f"il prog={prog} " + line(c))
        replies = driver.ask(lines)
        for c, rv, rep in zip(cases, reals, replies):
            key = dict(prog=prog, case=c)
            tags = [f"il:{prog}"]
            if isinstance(c, dict):
                if "cls" in c:
                    tags.append(f"il:{prog}:{c['cls']}")
                tags += [f"il:{prog}:{t}" for t in c.get("tags", [])]
            r.case(key, desc=f"il:{prog} {str(c)[:120]}", nontrivial=True, tags=tags)
            if rv[0] == "skip":
                continue
            if rv[0] == "err":
                ok = rep.startswith("err:")
            else:
                ok = compare(rv, rep, prog, ret_names(prog))
            if not ok:
                bad += 1
                r.disagree(f"il:{prog}", key, "|".join(str(x) for x in rv)[:600], rep[:600])
    return bad


def replay_case(case, driver=None):
    """1 iff the recorded il case still disagrees"""
    driver = driver or common.Driver()
    prog, c = case["prog"], case["case"]
    gen, line, real = SPECS[prog]
    rv = real(c)
    rep = driver.ask([f"il prog={prog} " + line(c)])[0]
    return 0 if compare(rv, rep, prog, ret_names(prog)) else 1


if __name__ == "__main__":
    import sys
    sys.path.insert(0, common.HERE)
    if common.REPO != "/repo":
        sys.path.insert(0, common.REPO)
    r = common.Runner("IL", "quick", int(sys.argv[1]) if len(sys.argv) > 1 else 0)
    progs = sys.argv[3:] or list(SPECS)
    n = int(sys.argv[2]) if len(sys.argv) > 2 else 100
    import time
    for p in progs:
        t0 = time.time()
        b = stream(r, [p], n)
        print(f"{p}: {n} cases, {b} disagreements, {time.time() - t0:.1f}s")
    for d in r.disagreements[:8]:
        print(d)
