"""
T2 facts for C16 (zonal.regions / _area_connectivity), regenerated from /repo on every run.

The facts are *normal forms*, not source text: an expression is first resolved (a local name is replaced by
the expression it was bound to when that is syntactically evident, see `Fn.resolve`), then the remaining local
names are renamed by their *role* (see `kernel_roles`), then a few meaning-preserving spellings are
normalised (`canon`).  So hoisting / inlining a constant, introducing a temporary for a sub-expression,
renaming a local, `range(0, n)` vs `range(n)`, mirrored comparisons, swapped operands of `+` / `*`,
`np.absolute` vs `np.abs`, keyword order ... leave the facts unchanged, while a changed tolerance, window
offset, comparison operator, guard or kernel argument changes them.  The rule is: normalise only what is
evident from the syntax, never guess -- a local name that is neither resolved nor has a role is printed as
`?name` (which no theorem accepts), an unrecognised shape is a `problem` (`ok = False` in the report).

Facts (Props/C16.lean pins them):
  * regionsWindows8 / regionsWindows4: for both passes, the index expressions of `src[i] = data[ey, ex]` and
    `area[i] = out[ey, ex]` in the `n == 8` branch resp. the other one, in index order, each classified as
    max(k-1,0) -> D.m,  k -> D.z,  min(k+1,size-1) -> D.p  (k = y with rows, x with cols).  The two arrays are
    identified by what is stored into them (cells of `data` resp. `out`), not by their names.
  * regionsIsClose: per pass the argument of `np.where(...)[0]`, i.e. the closeness test with its constants;
  * regionsNanGuard: per pass the guard on a NaN centre cell (test -> body);
  * regionsLabelledTest (pass 1: when a window cell counts as labelled), regionsUid0;
  * the wrapper: validation guard, what the kernel runs on (and the conditional int64 widening), the kernel's
    other arguments, and where data/name/dims/coords/attrs of the returned DataArray come from.
"""
import ast
import copy
import os

from translate import find_func, lean_str, str_list

REL = "xrspatial/zonal.py"

PURE_BUILTINS = {"len", "range", "min", "max", "abs", "int", "float", "bool", "isinstance", "type", "tuple", "round"}
ABS_NAMES = {"np.abs", "np.absolute", "numpy.abs", "numpy.absolute"}
ISNAN_NAMES = {"np.isnan", "numpy.isnan"}


# ---------------------------------------------------------------- analysis of one function
def target_names(t):
    """names bound or mutated by assigning to target `t`"""
    if isinstance(t, ast.Name):
        return {t.id}
    if isinstance(t, (ast.Tuple, ast.List)):
        out = set()
        for e in t.elts:
            out |= target_names(e)
        return out
    if isinstance(t, ast.Starred):
        return target_names(t.value)
    if isinstance(t, (ast.Subscript, ast.Attribute)):
        b = t
        while isinstance(b, (ast.Subscript, ast.Attribute)):
            b = b.value
        return {b.id} if isinstance(b, ast.Name) else {"*"}
    return {"*"}


class Fn:
    def __init__(self, f):
        self.f = f
        self.where = {}         # statement -> (owner statement or the function, block, index)
        self.params = [a.arg for a in f.args.posonlyargs + f.args.args + f.args.kwonlyargs]
        if f.args.vararg:
            self.params.append(f.args.vararg.arg)
        if f.args.kwarg:
            self.params.append(f.args.kwarg.arg)
        self._index(f)
        self.local = set(self.params)
        for st in ast.walk(f):
            if not isinstance(st, ast.Call):
                self.local |= {n for n in self._binds_here(st) if n != "*"}
        self._bind_cache = {}

    def nbind(self, name, root=None):
        """number of binding / mutating nodes for `name` below `root` (default: the whole function)"""
        return sum(1 for st in ast.walk(root or self.f) if not isinstance(st, ast.Call) and name in self._binds_here(st))

    def innermost_stmt(self, node):
        best = None
        for st in self.where:
            if any(n is node for n in ast.walk(st)):
                if best is None or any(n is st for n in ast.walk(best)):
                    best = st
        return best

    def _index(self, owner):
        for field in ("body", "orelse", "finalbody"):
            block = getattr(owner, field, None)
            if isinstance(block, list):
                for i, st in enumerate(block):
                    if isinstance(st, ast.stmt):
                        self.where[st] = (owner, block, i)
                        self._index(st)
        for h in getattr(owner, "handlers", []) or []:
            self._index(h)

    def _binds_here(self, n):
        """names bound / possibly mutated by node `n` itself (not its children)"""
        if isinstance(n, ast.Assign):
            out = set()
            for t in n.targets:
                out |= target_names(t)
            return out
        if isinstance(n, (ast.AugAssign, ast.AnnAssign)):
            return target_names(n.target)
        if isinstance(n, (ast.For, ast.AsyncFor)):
            return target_names(n.target)
        if isinstance(n, ast.NamedExpr):
            return target_names(n.target)
        if isinstance(n, (ast.With, ast.AsyncWith)):
            out = set()
            for it in n.items:
                if it.optional_vars is not None:
                    out |= target_names(it.optional_vars)
            return out
        if isinstance(n, ast.Delete):
            out = set()
            for t in n.targets:
                out |= target_names(t)
            return out
        if isinstance(n, (ast.Import, ast.ImportFrom)):
            return {(a.asname or a.name).split(".")[0] for a in n.names}
        if isinstance(n, (ast.FunctionDef, ast.AsyncFunctionDef, ast.ClassDef)) and n is not self.f:
            return {n.name, "*"}
        if isinstance(n, ast.ExceptHandler):
            return {n.name} if n.name else set()
        if isinstance(n, (ast.Global, ast.Nonlocal)):
            return {"*"}
        if isinstance(n, ast.Call):
            # a method call on a local object, or a local object handed to a function that is not known to be pure,
            # may change that object
            out = set()
            fn = n.func
            root = fn
            while isinstance(root, ast.Attribute):
                root = root.value
            fname = ast.unparse(fn)
            pure = (isinstance(fn, ast.Name) and fn.id in PURE_BUILTINS and fn.id not in self.local) or \
                   (isinstance(fn, ast.Attribute) and isinstance(root, ast.Name) and root.id in ("np", "numpy", "math")
                    and root.id not in self.local)
            if isinstance(fn, ast.Attribute) and isinstance(root, ast.Name) and root.id not in ("np", "numpy", "math"):
                if fname.split(".")[-1] not in ("astype", "copy", "item", "sum", "min", "max", "any", "all"):
                    out.add(root.id)
                pure = True         # the receiver is handled; arguments of a method call are not followed further
            if not pure:
                for a in list(n.args) + [k.value for k in n.keywords]:
                    for m in ast.walk(a):
                        if isinstance(m, ast.Name):
                            out.add(m.id)
            return out
        return set()

    def binds(self, st):
        """names bound / possibly mutated anywhere inside statement `st`"""
        if st not in self._bind_cache:
            out = set()
            for n in ast.walk(st):
                out |= self._binds_here(n)
            self._bind_cache[st] = out
        return self._bind_cache[st]

    # -- resolution
    def definition(self, name, stmt):
        """the expression `name` evidently holds when `stmt` starts: the nearest preceding `name = <expr>` in the block
        of `stmt` or of an enclosing statement, provided nothing executed in between (conservatively: nothing
        anywhere in the statements in between, nor in the enclosing compound statements) binds `name` or binds /
        mutates a name read by <expr>.  None when that is not evident."""
        between = set()
        cur = stmt
        while cur in self.where:
            owner, block, idx = self.where[cur]
            for k in range(idx - 1, -1, -1):
                s = block[k]
                if (isinstance(s, ast.Assign) and len(s.targets) == 1 and isinstance(s.targets[0], ast.Name)
                        and s.targets[0].id == name):
                    free = {n.id for n in ast.walk(s.value) if isinstance(n, ast.Name)}
                    if "*" in between or name in between or (free & between) or name in free:
                        return None
                    return s.value
                b = self.binds(s)
                if name in b or "*" in b:
                    return None
                between |= b
            if owner is self.f:
                return None
            between |= self.binds(owner)        # everything of the enclosing compound statement (loops re-run)
            cur = owner
        return None

    def resolve(self, expr, stmt, stop=(), depth=0):
        """copy of `expr` (as evaluated when `stmt` starts) with evidently defined local names replaced"""
        fn = self

        class R(ast.NodeTransformer):
            def visit_Name(self, n):
                if not isinstance(n.ctx, ast.Load) or n.id in stop or n.id not in fn.local or depth > 12:
                    return n
                d = fn.definition(n.id, stmt)
                if d is None:
                    return n
                return fn.resolve(d, stmt, stop, depth + 1)

            def _opaque(self, n):      # own scopes (their variables may shadow locals): nothing is replaced inside
                return n

            visit_ListComp = visit_SetComp = visit_DictComp = visit_GeneratorExp = visit_Lambda = _opaque

        return R().visit(copy.deepcopy(expr))


# ---------------------------------------------------------------- normal form of an expression
def _s(e):
    return ast.unparse(e)


def _const_key(c):
    return (type(c.value).__name__, repr(c.value))


class Canon(ast.NodeTransformer):
    """meaning-preserving normalisations (bottom-up) and role renaming"""

    def __init__(self, rmap, local):
        self.rmap, self.local = rmap, local

    def visit_Name(self, n):
        if n.id in self.rmap:
            return ast.Name(id=self.rmap[n.id], ctx=n.ctx)
        if n.id in self.local:
            return ast.Name(id="?" + n.id, ctx=n.ctx)
        return n

    def visit_Attribute(self, n):
        s = _s(n)
        if s in ABS_NAMES and "np" not in self.local and "numpy" not in self.local:
            return ast.Name(id="abs", ctx=ast.Load())
        if s in ISNAN_NAMES and "np" not in self.local and "numpy" not in self.local:
            return ast.Name(id="isnan", ctx=ast.Load())
        self.generic_visit(n)
        return n

    def visit_Subscript(self, n):
        self.generic_visit(n)
        # data.shape[0] / data.shape[1] are rows / cols
        if (isinstance(n.value, ast.Attribute) and n.value.attr == "shape" and isinstance(n.value.value, ast.Name)
                and n.value.value.id == "data" and isinstance(n.slice, ast.Constant) and n.slice.value in (0, 1)
                and "data" in self.rmap.values()):
            return ast.Name(id=("rows", "cols")[n.slice.value], ctx=ast.Load())
        return n

    def visit_BinOp(self, n):
        self.generic_visit(n)
        if isinstance(n.op, (ast.Add, ast.Mult)):
            # a + b == b + a and a * b == b * a for numbers and numeric arrays (not for sequences / strings)
            seq = (ast.List, ast.Tuple, ast.JoinedStr, ast.ListComp)
            if not any(isinstance(x, seq) or (isinstance(x, ast.Constant) and isinstance(x.value, (str, bytes)))
                       for x in (n.left, n.right)):
                if _s(n.right) < _s(n.left):
                    n.left, n.right = n.right, n.left
        return n

    def visit_Compare(self, n):
        self.generic_visit(n)
        if len(n.ops) != 1:
            return n
        op, a, b = n.ops[0], n.left, n.comparators[0]
        if isinstance(op, ast.Gt):
            return ast.Compare(left=b, ops=[ast.Lt()], comparators=[a])
        if isinstance(op, ast.GtE):
            return ast.Compare(left=b, ops=[ast.LtE()], comparators=[a])
        if isinstance(op, (ast.Eq, ast.NotEq)):
            if isinstance(op, ast.NotEq) and _s(a) == _s(b):
                return ast.Call(func=ast.Name(id="isnan", ctx=ast.Load()), args=[a], keywords=[])
            if _s(b) < _s(a):
                return ast.Compare(left=b, ops=[op], comparators=[a])
        if isinstance(op, (ast.In, ast.NotIn)) and isinstance(b, (ast.Tuple, ast.List, ast.Set)) \
                and all(isinstance(x, ast.Constant) and not isinstance(x.value, float) for x in b.elts):
            elts = sorted(b.elts, key=_const_key)
            return ast.Compare(left=a, ops=[op], comparators=[ast.Tuple(elts=elts, ctx=ast.Load())])
        return n

    def visit_UnaryOp(self, n):
        self.generic_visit(n)
        if isinstance(n.op, ast.Not) and isinstance(n.operand, ast.Compare) and len(n.operand.ops) == 1:
            c = n.operand
            flip = {ast.In: ast.NotIn, ast.NotIn: ast.In, ast.Eq: ast.NotEq, ast.Is: ast.IsNot, ast.IsNot: ast.Is}
            # (not a != b is a == b only without NaN; `not <` is not `>=` with NaN: left alone)
            for k, v in flip.items():
                if type(c.ops[0]) is k:
                    return ast.Compare(left=c.left, ops=[v()], comparators=c.comparators)
        return n

    def visit_BoolOp(self, n):
        self.generic_visit(n)
        # a != c1 and a != c2 ...  ->  a not in (c1, c2, ...)     (integer / string constants only)
        if isinstance(n.op, ast.And) and len(n.values) >= 2:
            subj, consts = None, []
            for v in n.values:
                if not (isinstance(v, ast.Compare) and len(v.ops) == 1 and isinstance(v.ops[0], ast.NotEq)):
                    return n
                a, b = v.left, v.comparators[0]
                if isinstance(a, ast.Constant):
                    a, b = b, a
                if not (isinstance(b, ast.Constant) and isinstance(b.value, (int, str)) and not isinstance(b.value, bool)):
                    return n
                if subj is None:
                    subj = a
                elif _s(a) != _s(subj):
                    return n
                consts.append(b)
            if not isinstance(subj, (ast.Name, ast.Attribute)):
                return n
            return ast.Compare(left=subj, ops=[ast.NotIn()],
                               comparators=[ast.Tuple(elts=sorted(consts, key=_const_key), ctx=ast.Load())])
        return n


def canon(fn, expr, stmt, rmap, stop=None):
    """normal form (a string) of `expr` as evaluated when `stmt` starts"""
    stop = (set(rmap) - set(fn.params)) if stop is None else stop
    e = fn.resolve(expr, stmt, stop)
    e = Canon(rmap, fn.local).visit(e)
    ast.fix_missing_locations(e)
    return ast.unparse(e)


def canon_stmt(fn, st, rmap):
    if isinstance(st, ast.Assign) and len(st.targets) == 1:
        t = Canon(rmap, fn.local).visit(fn.resolve_target(st.targets[0], st, set(rmap) - set(fn.params)))
        return f"{ast.unparse(t)} = {canon(fn, st.value, st, rmap)}"
    if isinstance(st, ast.Continue):
        return "continue"
    if isinstance(st, ast.Break):
        return "break"
    if isinstance(st, ast.Pass):
        return "pass"
    return "?" + ast.unparse(st)


def _resolve_target(self, t, stmt, stop):
    """a store target: the indices are resolved, the stored-to name is not"""
    t = copy.deepcopy(t)
    if isinstance(t, ast.Subscript):
        t.slice = self.resolve(t.slice, stmt, stop)
    return t


Fn.resolve_target = _resolve_target


# ---------------------------------------------------------------- shapes of _area_connectivity
def range_bound(it):
    """`range(e)` / `range(0, e)` / `range(0, e, 1)` -> e"""
    if not (isinstance(it, ast.Call) and isinstance(it.func, ast.Name) and it.func.id == "range" and not it.keywords):
        return None
    a = it.args
    if len(a) == 1:
        return a[0]
    if len(a) in (2, 3) and isinstance(a[0], ast.Constant) and a[0].value == 0 and type(a[0].value) is int:
        if len(a) == 3 and not (isinstance(a[2], ast.Constant) and a[2].value == 1 and type(a[2].value) is int):
            return None
        return a[1]
    return None


def classify(s, var, size):
    s = s.replace(" ", "")
    if s == var:
        return "D.z"
    if s in (f"max({var}-1,0)", f"max(0,{var}-1)", f"max(-1+{var},0)", f"max(0,-1+{var})"):
        return "D.m"
    if s in (f"min({var}+1,{size}-1)", f"min({size}-1,{var}+1)", f"min(1+{var},{size}-1)", f"min({size}-1,1+{var})",
             f"min({var}+1,-1+{size})", f"min(-1+{size},{var}+1)", f"min(1+{var},-1+{size})", f"min(-1+{size},1+{var})"):
        return "D.p"
    return None


def window_stores(fn, stmts, rmap, problems, where):
    """{'data': (array name, [(dy,dx)..]), 'out': (...)} from the stores `T[i] = data[ey, ex]` / `T[i] = out[ey, ex]`
    among the statements (a branch of the `n == 8` test)"""
    inv = {v: k for k, v in rmap.items()}
    found = {"data": {}, "out": {}}
    arrays = {"data": set(), "out": set()}
    for st in stmts:
        if not (isinstance(st, ast.Assign) and len(st.targets) == 1 and isinstance(st.targets[0], ast.Subscript)):
            problems.append(f"{where}: unexpected statement `{ast.unparse(st)}`")
            continue
        t = st.targets[0]
        v = fn.resolve(st.value, st, set(rmap) - set(fn.params))
        if not (isinstance(t.value, ast.Name) and isinstance(v, ast.Subscript) and isinstance(v.value, ast.Name)
                and v.value.id in (inv.get("data"), inv.get("out")) and isinstance(v.slice, ast.Tuple) and len(v.slice.elts) == 2):
            problems.append(f"{where}: unrecognised store `{ast.unparse(st)}`")
            continue
        idx = fn.resolve(t.slice, st, set(rmap) - set(fn.params))
        if not (isinstance(idx, ast.Constant) and type(idx.value) is int and idx.value >= 0):
            problems.append(f"{where}: index of `{ast.unparse(st)}` is not a literal")
            continue
        src = "data" if v.value.id == inv.get("data") else "out"
        ey = ast.unparse(Canon(rmap, fn.local).visit(v.slice.elts[0]))
        ex = ast.unparse(Canon(rmap, fn.local).visit(v.slice.elts[1]))
        dy, dx = classify(ey, "y", "rows"), classify(ex, "x", "cols")
        if dy is None or dx is None:
            problems.append(f"{where}: offsets of `{ast.unparse(st)}` not recognised ({ey}, {ex})")
            continue
        arrays[src].add(t.value.id)
        found[src][idx.value] = (dy, dx)
    out = {}
    for src in ("data", "out"):
        if len(arrays[src]) > 1:
            problems.append(f"{where}: cells of {src} are stored into several arrays {sorted(arrays[src])}")
        if sorted(found[src]) != list(range(len(found[src]))):
            problems.append(f"{where}: indices {sorted(found[src])}")
        out[src] = (sorted(arrays[src])[0] if arrays[src] else None, [found[src][i] for i in sorted(found[src])])
    if out["data"][0] is not None and out["data"][0] == out["out"][0]:
        problems.append(f"{where}: cells of data and of out go into the same array")
    return out


def lean_window(w):
    return "[" + ", ".join(f"({a}, {b})" for a, b in w) + "]"


def kernel_facts(f, problems):
    fn = Fn(f)
    w8, w4, isclose, nanguard, labelled, uid0 = [], [], [], [], [], "?"
    base = {}
    if len(fn.params) < 2:
        problems.append("kernel: expected the parameters (data, n)")
        return w8, w4, isclose, nanguard, labelled, uid0
    base[fn.params[0]] = "data"
    base[fn.params[1]] = "n"
    for p_ in fn.params[:2]:
        if fn.nbind(p_):
            problems.append(f"kernel: the parameter `{p_}` is re-bound or written to")
    rets = {ast.unparse(n.value) for n in ast.walk(f) if isinstance(n, ast.Return) and n.value is not None}
    if len(rets) == 1 and next(iter(rets)).isidentifier():
        base[next(iter(rets))] = "out"
    else:
        problems.append(f"kernel: returns {sorted(rets)}")
    # rows, cols
    for st in f.body:
        if isinstance(st, ast.Assign) and len(st.targets) == 1:
            t, v = st.targets[0], st.value
            if (isinstance(t, ast.Tuple) and len(t.elts) == 2 and all(isinstance(e, ast.Name) for e in t.elts)
                    and ast.unparse(v) == f"{fn.params[0]}.shape"):
                base[t.elts[0].id], base[t.elts[1].id] = "rows", "cols"
            elif isinstance(t, ast.Name) and ast.unparse(v) in (f"{fn.params[0]}.shape[0]", f"{fn.params[0]}.shape[1]"):
                base[t.id] = "rows" if ast.unparse(v).endswith("[0]") else "cols"
    for nm in [k for k, v in base.items() if v in ("rows", "cols")]:
        if fn.nbind(nm) != 1:
            problems.append(f"kernel: `{nm}` is bound {fn.nbind(nm)} times")
    passes = [st for st in f.body if isinstance(st, ast.For)]
    if len(passes) != 2:
        problems.append(f"expected 2 top-level loops (pass 1, pass 2), found {len(passes)}")
    for k, outer in enumerate(passes):
        P = f"pass {k + 1}"
        rmap = dict(base)
        ob = range_bound(outer.iter)
        inner = outer.body[0] if len(outer.body) == 1 and isinstance(outer.body[0], ast.For) else None
        ib = range_bound(inner.iter) if inner is not None else None
        if (ob is None or inner is None or ib is None or outer.orelse or inner.orelse
                or not isinstance(outer.target, ast.Name) or not isinstance(inner.target, ast.Name)
                or canon(fn, ob, outer, rmap) != "rows" or canon(fn, ib, inner, rmap) != "cols"):
            problems.append(f"{P}: not `for y in range(rows): for x in range(cols):`")
            continue
        rmap[outer.target.id], rmap[inner.target.id] = "y", "x"
        for v_ in (outer.target.id, inner.target.id):
            if fn.nbind(v_, outer) != 1:
                problems.append(f"{P}: the loop variable `{v_}` is bound {fn.nbind(v_, outer)} times inside the pass")
        body = inner.body
        # the n == 8 test and the windows
        n8 = [st for st in body if isinstance(st, ast.If) and canon(fn, st.test, st, rmap) in ("8 == n", "8 != n")]
        if len(n8) != 1:
            problems.append(f"{P}: expected one `if n == 8` in the cell loop, found {len(n8)}")
            continue
        n8 = n8[0]
        b8, b4 = (n8.body, n8.orelse) if canon(fn, n8.test, n8, rmap) == "8 == n" else (n8.orelse, n8.body)
        s8 = window_stores(fn, b8, rmap, problems, f"{P} n=8")
        s4 = window_stores(fn, b4, rmap, problems, f"{P} n=4")
        for src, role in (("data", "src_window"), ("out", "area_window")):
            if s8[src][0] is None or s8[src][0] != s4[src][0]:
                problems.append(f"{P}: window array of {src}: {s8[src][0]} / {s4[src][0]}")
            else:
                rmap[s8[src][0]] = role
            w8.append((f"pass{k + 1}.{role}", s8[src][1]))
            w4.append((f"pass{k + 1}.{role}", s4[src][1]))
        # the window arrays are written nowhere else in the pass
        inv = {v: kk for kk, v in rmap.items()}
        in_n8 = {id(x) for x in ast.walk(n8)}
        for st in ast.walk(outer):
            if isinstance(st, ast.stmt) and id(st) not in in_n8 and not hasattr(st, "body"):
                hit = fn.binds(st) & {inv.get("src_window"), inv.get("area_window")}
                if hit - {None}:
                    problems.append(f"{P}: window array written outside the n == 8 test: `{ast.unparse(st)}`")
        # matches = np.where(<closeness>)[0]
        wh = []
        for st in body:
            if isinstance(st, ast.Assign) and len(st.targets) == 1 and isinstance(st.targets[0], ast.Name):
                v = st.value
                if (isinstance(v, ast.Subscript) and isinstance(v.slice, ast.Constant) and v.slice.value == 0
                        and isinstance(v.value, ast.Call) and ast.unparse(v.value.func) in ("np.where", "np.nonzero")
                        and len(v.value.args) == 1 and not v.value.keywords):
                    wh.append((st, v.value.args[0]))
                elif (isinstance(v, ast.Call) and ast.unparse(v.func) == "np.flatnonzero" and len(v.args) == 1
                      and not v.keywords):
                    wh.append((st, v.args[0]))
        if len(wh) != 1:
            problems.append(f"{P}: expected one `m = np.where(<test>)[0]` in the cell loop, found {len(wh)}")
            continue
        wst, wexpr = wh[0]
        isclose.append(canon(fn, wexpr, wst, rmap))
        rmap[wst.targets[0].id] = "matches"
        if fn.nbind(wst.targets[0].id, outer) != 1:
            problems.append(f"{P}: `{wst.targets[0].id}` is bound {fn.nbind(wst.targets[0].id, outer)} times")
        # loops over the matches
        for st in ast.walk(inner):
            if isinstance(st, ast.For) and isinstance(st.target, ast.Name):
                rb = range_bound(st.iter)
                if rb is not None and canon(fn, rb, st, rmap) == "len(matches)":
                    rmap[st.target.id] = "j"
        # NaN guard: `if isnan(centre): ...; continue` before the matches are computed
        guards = [st for st in body[:body.index(wst)] if isinstance(st, ast.If) and not st.orelse
                  and st.body and isinstance(st.body[-1], ast.Continue)]
        for g in guards:
            nanguard.append(canon(fn, g.test, g, rmap) + " -> " + "; ".join(canon_stmt(fn, b, rmap) for b in g.body))
        # pass 1: the tests under which a window label is taken over
        if k == 0:
            for st in body[body.index(wst) + 1:]:
                if isinstance(st, ast.If):
                    loops = [x for x in ast.walk(st) if isinstance(x, ast.For) and isinstance(x.target, ast.Name)
                             and rmap.get(x.target.id) == "j"]
                    if loops:
                        labelled.append(canon(fn, st.test, st, rmap))
                        for lp in loops:
                            for x in lp.body:
                                if isinstance(x, ast.If) and any(isinstance(y, ast.Break) for y in x.body):
                                    labelled.append(canon(fn, x.test, x, rmap))
            # uid: `out[y, x] = u` followed by `u += 1`
            uids = set()
            for blk_owner in ast.walk(inner):
                for field in ("body", "orelse"):
                    blk = getattr(blk_owner, field, None)
                    if not isinstance(blk, list):
                        continue
                    for a, b in zip(blk, blk[1:]):
                        if (isinstance(a, ast.Assign) and len(a.targets) == 1 and isinstance(a.value, ast.Name)
                                and canon_stmt(fn, a, dict(rmap, **{a.value.id: "uid"})) == "out[y, x] = uid"):
                            u = a.value.id
                            inc = (isinstance(b, ast.AugAssign) and isinstance(b.op, ast.Add) and ast.unparse(b.target) == u
                                   and ast.unparse(b.value) == "1") or \
                                  (isinstance(b, ast.Assign) and ast.unparse(b.targets[0]) == u
                                   and ast.unparse(b.value) in (f"{u} + 1", f"1 + {u}"))
                            if inc:
                                uids.add(u)
            if len(uids) != 1:
                problems.append(f"{P}: the label counter is not evident ({sorted(uids)})")
            else:
                u = next(iter(uids))
                # its value when pass 1 starts
                uid0 = canon(fn, ast.Name(id=u, ctx=ast.Load()), outer, rmap)
                if uid0.startswith("?"):
                    problems.append(f"{P}: initial value of the label counter `{u}` is not evident")
    return w8, w4, isclose, nanguard, labelled, uid0


# ---------------------------------------------------------------- the wrapper
def wrapper_facts(g, kernel, problems):
    fn = Fn(g)
    guard, kdata, kn, widen, kwargs = "?", "?", "?", [], []
    calls = [n for n in ast.walk(g) if isinstance(n, ast.Call) and ast.unparse(n.func) == "_area_connectivity"]
    if len(calls) != 1:
        problems.append(f"regions: {len(calls)} calls of _area_connectivity")
        return guard, kdata, kn, widen, kwargs
    call = calls[0]
    call_stmt = fn.innermost_stmt(call)
    kparams = [a.arg for a in kernel.args.args] if kernel is not None else ["data", "n"]
    bound = {}
    for i, a in enumerate(call.args):
        if i < len(kparams):
            bound[kparams[i]] = a
    for kw in call.keywords:
        if kw.arg is None or kw.arg in bound:
            problems.append("regions: kernel call arguments not evident")
        else:
            bound[kw.arg] = kw.value
    p0 = kparams[0] if kparams else "data"
    rmap = {p_: p_ for p_ in fn.params}
    for p_ in fn.params:
        if fn.nbind(p_):
            problems.append(f"regions: the parameter `{p_}` is re-bound or written to")
    arg0 = bound.get(p0)
    if arg0 is None:
        problems.append("regions: the kernel's first argument is missing")
        return guard, kdata, kn, widen, kwargs
    if isinstance(arg0, ast.Name) and arg0.id in fn.local and arg0.id not in fn.params:
        # a local: first binding = what the kernel runs on; any further binding must be a conditional re-binding
        loc = arg0.id
        rmap[loc] = "data"
        defs = [st for st in ast.walk(g) if isinstance(st, ast.stmt) and not hasattr(st, "body")
                and (loc in fn._binds_here(st) or (st is not call_stmt and loc in fn.binds(st)))]
        defs.sort(key=lambda st: (st.lineno, st.col_offset))
        first = defs[0] if defs else None
        if not (first is not None and isinstance(first, ast.Assign) and len(first.targets) == 1
                and isinstance(first.targets[0], ast.Name) and fn.where.get(first, (None,))[0] is g):
            problems.append(f"regions: first binding of `{loc}` not evident")
        else:
            kdata = canon(fn, first.value, first, {p_: p_ for p_ in fn.params})
        for d in defs[1:]:
            owner = fn.where.get(d, (None,))[0]
            if (isinstance(d, ast.Assign) and len(d.targets) == 1 and isinstance(d.targets[0], ast.Name)
                    and isinstance(owner, ast.If) and not owner.orelse and fn.where.get(owner, (None,))[0] is g
                    and d.lineno < call_stmt.lineno):
                widen.append(canon(fn, owner.test, owner, rmap) + " -> " + "; ".join(canon_stmt(fn, b, rmap) for b in owner.body))
            else:
                problems.append(f"regions: re-binding `{ast.unparse(d)}` of the kernel input not recognised")
    else:
        kdata = canon(fn, arg0, call_stmt, rmap)
    kn = ";".join(f"{k}={canon(fn, v, call_stmt, rmap)}" for k, v in sorted(bound.items()) if k != p0)
    # validation guard(s): `if <test>: raise ...` at the top level
    guards = [st for st in g.body if isinstance(st, ast.If) and any(isinstance(b, ast.Raise) for b in st.body)]
    if len(guards) == 1 and not guards[0].orelse and g.body.index(guards[0]) < min(
            (i for i, st in enumerate(g.body) if any(n is call for n in ast.walk(st))), default=0):
        guard = canon(fn, guards[0].test, guards[0], rmap)
    else:
        problems.append(f"regions: expected one validation guard before the kernel call, found {len(guards)}")
    # the returned DataArray
    rets = [n for n in ast.walk(g) if isinstance(n, ast.Return)]
    if len(rets) == 1 and isinstance(rets[0].value, ast.Call) and ast.unparse(rets[0].value.func) in ("DataArray", "xr.DataArray"):
        rc = rets[0].value
        items = {}
        if len(rc.args) > 1 or any(k.arg is None for k in rc.keywords):
            problems.append("regions: DataArray arguments not evident")
        if rc.args:
            items["data"] = rc.args[0]
        for kw in rc.keywords:
            if kw.arg is not None:
                items[kw.arg] = kw.value

        def show(e):
            # the kernel's result, directly or through a local bound once to it
            if e is call:
                return "out"
            if isinstance(e, ast.Name) and e.id in fn.local:
                d = fn.definition(e.id, rets[0])
                if d is call or (d is not None and ast.dump(d) == ast.dump(call)):
                    return "out"
            return canon(fn, e, rets[0], rmap, stop=set())

        kwargs = [("data", show(items["data"]))] if "data" in items else []
        kwargs += [(k, show(items[k])) for k in sorted(items) if k != "data"]
    else:
        problems.append("regions: the return statement is not `return DataArray(...)`")
    return guard, kdata, kn, widen, kwargs


def generate(repo):
    mod = ast.parse(open(os.path.join(repo, REL)).read())
    rep = {"ok": True, "problems": []}
    out = ["import XrsVerif.Model.Regions",
           "/-! GENERATED by harness/facts_regions.py from xrspatial/zonal.py -- do not edit. -/",
           "namespace XrsVerif.Gen", "open XrsVerif.Regions", ""]
    f = find_func(mod, "_area_connectivity")
    w8, w4, isclose, nanguard, labelled, uid0 = [], [], [], [], [], "?"
    if f is None:
        rep["problems"].append("_area_connectivity not found")
    else:
        try:
            w8, w4, isclose, nanguard, labelled, uid0 = kernel_facts(f, rep["problems"])
        except Exception as ex:  # noqa: BLE001 -- an unforeseen shape is a problem, not a crash of every check
            rep["problems"].append(f"kernel: {type(ex).__name__}: {ex}")
    out.append("/-- (dy, dx) of `src_window[i]` / `area_window[i]` for n == 8, per pass and array -/")
    out.append("def regionsWindows8 : List (String × List (D × D)) := [" +
               ", ".join(f"({lean_str(k)}, {lean_window(w)})" for k, w in w8) + "]")
    out.append("/-- the same for the other branch (n == 4) -/")
    out.append("def regionsWindows4 : List (String × List (D × D)) := [" +
               ", ".join(f"({lean_str(k)}, {lean_window(w)})" for k, w in w4) + "]")
    out.append("/-- the closeness test (normal form, constants inlined), pass 1 then pass 2 -/")
    out.append(f"def regionsIsClose : List String := {str_list(isclose)}")
    out.append("/-- the guard on a NaN centre cell (normal form `test -> body`), pass 1 then pass 2 -/")
    out.append(f"def regionsNanGuard : List String := {str_list(nanguard)}")
    out.append("/-- pass 1: when a matching window cell counts as already labelled -/")
    out.append(f"def regionsLabelledTest : List String := {str_list(labelled)}")
    out.append(f"def regionsUid0 : String := {lean_str(uid0)}")
    # wrapper
    g = find_func(mod, "regions")
    guard, kdata, kn, widen, kwargs = "?", "?", "?", [], []
    if g is None:
        rep["problems"].append("regions not found")
    else:
        try:
            guard, kdata, kn, widen, kwargs = wrapper_facts(g, f, rep["problems"])
        except Exception as ex:  # noqa: BLE001
            rep["problems"].append(f"regions: {type(ex).__name__}: {ex}")
    out.append("/-- `regions`: validation guard, what the kernel is run on (and its conditional re-binding), the kernel's")
    out.append("    other arguments, and the DataArray it returns (keywords sorted) -/")
    out.append(f"def regionsGuard : String := {lean_str(guard)}")
    out.append(f"def regionsKernelData : String := {lean_str(kdata)}")
    out.append(f"def regionsWiden : List String := {str_list(widen)}")
    out.append(f"def regionsKernelArgs : String := {lean_str(kn)}")
    out.append("def regionsReturn : List (String × String) := [" +
               ", ".join(f"({lean_str(k)}, {lean_str(v)})" for k, v in kwargs) + "]")
    out.append("")
    out.append("end XrsVerif.Gen")
    rep["ok"] = not rep["problems"]
    rep.update(windows8=[(k, w) for k, w in w8], windows4=[(k, w) for k, w in w4], isclose=isclose, nanguard=nanguard,
               labelled=labelled, uid0=uid0, guard=guard, kernel_data=kdata, kernel_args=kn, widen=widen, ret=kwargs)
    yield "RegionsFacts.lean", "\n".join(out) + "\n", rep
