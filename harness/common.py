"""
Shared machinery of the checks (see DESIGN.md section 3.2).

  regen()            translate /repo -> lean/XrsVerif/Gen
  lake_build()       build theorem modules + driver (the proof check)
  audit()            `#print axioms` of every property theorem + forbidden-token grep
  Driver             line protocol to the compiled Lean driver
  Runner             correspondence / oracle bookkeeping, evidence, violations, known findings
"""
import hashlib
import json
import math
import os
import random
import re
import subprocess
import sys
import time

HERE = os.path.dirname(os.path.abspath(__file__))
VERIF = os.path.dirname(HERE)
LEAN = os.path.join(VERIF, "lean")
REPO = os.environ.get("XRS_REPO", "/repo")
DRIVER = os.path.join(LEAN, ".lake", "build", "bin", "driver")
ALLOWED_AXIOMS = {"propext", "Classical.choice", "Quot.sound"}
FORBIDDEN = re.compile(r"\bsorry\b|\badmit\b|^\s*axiom\s|native_decide|bv_decide|implemented_by|\bunsafe\s|maxHeartbeats\s+0\b",
                       re.M)
GUARD = "MAKEPATH_XARRAY_SPATIAL_VERIF"


class Infra(Exception):
    """infrastructure failure: exit 2, never a VIOLATION"""


# ---------------------------------------------------------------- numbers on the wire
def tok(x):
    """exact token for a python float / int / Fraction / numpy scalar"""
    from fractions import Fraction
    if isinstance(x, Fraction):
        return f"{x.numerator}/{x.denominator}" if x.denominator != 1 else str(x.numerator)
    if isinstance(x, (bool,)):
        return "1" if x else "0"
    try:
        import numpy as np
        if isinstance(x, np.generic):
            x = x.item()
    except ImportError:
        pass
    if isinstance(x, int):
        return str(x)
    x = float(x)
    if math.isnan(x):
        return "nan"
    if math.isinf(x):
        return "inf" if x > 0 else "-inf"
    if x == 0:
        return "0"
    if x == int(x) and abs(x) < 2 ** 53:
        return str(int(x))
    m, e = math.frexp(x)
    return f"{int(m * 2 ** 53)}@{e - 53}"


def untok(s):
    from fractions import Fraction
    if s == "nan":
        return float("nan")
    if s == "inf":
        return float("inf")
    if s == "-inf":
        return float("-inf")
    if "@" in s:
        m, e = s.split("@")
        return math.ldexp(int(m), int(e))
    if "/" in s:
        return float(Fraction(s))
    return float(int(s))


def untok_exact(s):
    """token -> Fraction | 'nan' | 'inf' | '-inf'"""
    from fractions import Fraction
    if s in ("nan", "inf", "-inf"):
        return s
    if "@" in s:
        m, e = s.split("@")
        return Fraction(int(m)) * (Fraction(2) ** int(e))
    return Fraction(s)


def grid_tok(a):
    """2-D numpy array -> HxW:v,v,..."""
    h, w = a.shape
    return f"{h}x{w}:" + ",".join(tok(v) for v in a.ravel(order="C").tolist())


def list_tok(xs):
    return ",".join(tok(v) for v in xs)


def parse_grid(s, conv=untok):
    shape, body = s.split(":", 1)
    h, w = (int(t) for t in shape.split("x"))
    vals = [conv(t) for t in body.split(",")] if body else []
    assert len(vals) == h * w, (s[:80], h, w, len(vals))
    return [vals[i * w:(i + 1) * w] for i in range(h)]


def close(a, b, rel=2e-6, abs_=1e-6):
    """float comparison used by correspondence: NaN pattern exact, values within tolerance"""
    if a != a or b != b:
        return a != a and b != b
    if math.isinf(a) or math.isinf(b):
        return a == b
    return abs(a - b) <= abs_ + rel * max(abs(a), abs(b))


# ---------------------------------------------------------------- build / audit
def sh(cmd, cwd=None, timeout=3600, env=None):
    p = subprocess.run(cmd, cwd=cwd, stdout=subprocess.PIPE, stderr=subprocess.STDOUT, text=True,
                       timeout=timeout, env=env)
    return p.returncode, p.stdout


def regen():
    rc, out = sh([sys.executable, os.path.join(HERE, "translate.py"), "--repo", REPO])
    if rc != 0:
        raise Infra("translate.py failed:\n" + out)
    return json.loads(out.strip().splitlines()[-1])


class Relevance:
    """which generated definitions the theorems of one property depend on: the words of Props/<prop>.lean and of
    every non-generated module it imports (transitively), closed under the references between generated
    definitions.  Used to decide whether an untranslatable kernel / failed fact / crashed facts module is an
    obligation of *this* property; when in doubt the answer is yes."""

    def __init__(self, prop):
        root = os.path.join(LEAN, "XrsVerif")
        seen, todo, text, gen_imported = set(), [f"XrsVerif.Props.{prop}"], [], set()
        while todo:
            m = todo.pop()
            if m in seen:
                continue
            seen.add(m)
            path = os.path.join(LEAN, *m.split(".")) + ".lean"
            try:
                t = open(path).read()
            except OSError:
                continue
            if m.startswith("XrsVerif.Gen."):
                gen_imported.add(m.split(".")[-1] + ".lean")
            else:
                text.append(strip_comments(t))
            todo += re.findall(r"^import\s+(XrsVerif\.[\w.]+)", t, flags=re.M)
        self.gen_imported = gen_imported
        # generated definitions: name -> (file, body)
        self.defs = {}
        gdir = os.path.join(root, "Gen")
        for f in sorted(os.listdir(gdir)) if os.path.isdir(gdir) else []:
            if not f.endswith(".lean"):
                continue
            t = strip_comments(open(os.path.join(gdir, f)).read())
            parts = re.split(r"^(?=(?:def|abbrev|structure|inductive|instance|theorem)\s)", t, flags=re.M)
            for part in parts:
                mm = re.match(r"(?:def|abbrev|structure|inductive|instance|theorem)\s+([\w.']+)", part)
                if mm:
                    self.defs[mm.group(1).split(".")[-1]] = (f, part)
        words = set(re.findall(r"[A-Za-z_][\w']*", "\n".join(text)))
        reach, todo = set(), [w for w in words if w in self.defs]
        while todo:
            n = todo.pop()
            if n in reach:
                continue
            reach.add(n)
            body = self.defs[n][1]
            todo += [w for w in set(re.findall(r"[A-Za-z_][\w']*", body)) if w in self.defs and w not in reach]
        self.reach = reach
        self.files_reached = {self.defs[n][0] for n in reach}

    def item(self, key):
        if key.startswith("facts:"):
            f = key[len("facts:"):]
            return f in self.files_reached or (f in self.gen_imported and not any(v[0] == f for v in self.defs.values()))
        return key in self.reach or key not in self.defs   # unknown name: be conservative

    def module_files(self, files):
        return (not files) or any(f in self.files_reached or f in self.gen_imported for f in files)


def lake_build(targets):
    """returns (ok, log).  A failing build is a broken proof obligation, not an infra error --
    unless the toolchain itself is missing."""
    try:
        rc, out = sh([os.path.join(LEAN, "lk"), "build"] + targets, cwd=LEAN, timeout=3000)
    except FileNotFoundError as ex:
        raise Infra(str(ex))
    return rc == 0, out


def strip_comments(text):
    text = re.sub(r"/-.*?-/", "", text, flags=re.S)
    return re.sub(r"--.*", "", text)


def forbidden_tokens():
    hits = []
    for root, _, files in os.walk(os.path.join(LEAN, "XrsVerif")):
        for f in files:
            if f.endswith(".lean"):
                p = os.path.join(root, f)
                t = strip_comments(open(p).read())
                for m in FORBIDDEN.finditer(t):
                    hits.append((os.path.relpath(p, LEAN), m.group(0).strip()))
    return hits


def audit(prop):
    """run `#print axioms` file for the property; returns dict theorem -> list of axioms"""
    path = os.path.join("XrsVerif", "Audit", f"{prop}.lean")
    if not os.path.exists(os.path.join(LEAN, path)):
        return False, {}, f"missing {path}"
    rc, out = sh([os.path.join(LEAN, "lk"), "env", "lean", path], cwd=LEAN, timeout=1200)
    res = {}
    for m in re.finditer(r"'([^']+)' depends on axioms: \[([^\]]*)\]", out, flags=re.S):
        res[m.group(1)] = [a.strip() for a in m.group(2).replace("\n", " ").split(",") if a.strip()]
    for m in re.finditer(r"'([^']+)' does not depend on any axioms", out):
        res[m.group(1)] = []
    return rc == 0, res, out


def leanchecker(modules):
    rc, out = sh([os.path.join(LEAN, "lk"), "env", "leanchecker"] + modules, cwd=LEAN, timeout=3000)
    return rc == 0, out


class Driver:
    """batch use of the compiled driver: send request lines, get one reply per line"""

    def __init__(self):
        if not os.path.exists(DRIVER):
            raise Infra("driver executable missing (lake build driver)")

    def ask(self, lines, timeout=1800):
        if not lines:
            return []
        p = subprocess.run([DRIVER], input="\n".join(lines) + "\n", stdout=subprocess.PIPE,
                           stderr=subprocess.PIPE, text=True, timeout=timeout)
        if p.returncode != 0:
            raise Infra(f"driver exited {p.returncode}: {p.stderr[:2000]}")
        out = p.stdout.split("\n")
        if out and out[-1] == "":
            out.pop()
        if len(out) != len(lines):
            raise Infra(f"driver returned {len(out)} replies for {len(lines)} requests")
        return out


# ---------------------------------------------------------------- known findings
def load_known():
    known, fixed = [], []
    p = os.path.join(VERIF, "KNOWN_FINDINGS.txt")
    if os.path.exists(p):
        for line in open(p):
            line = line.strip()
            if line.startswith("known:"):
                m = re.match(r"known:\s+property=(\S+)\s+key=(\S+)\s+(.*)", line)
                if m:
                    known.append(dict(property=m.group(1), key=m.group(2), text=m.group(3)))
            elif line.startswith("fixed:"):
                fixed.append(line)
    return known, fixed


# ---------------------------------------------------------------- the runner
class Runner:
    """
    One check run.  A property module (`harness/corr_Cxx.py`) fills it in:

      r.case(key, desc, nontrivial)                 count a generated case
      r.disagree(stream, case, real, model)         model and implementation differ
      r.fail(key, what, case)                       the *property* fails on the real code for `case`
                                                     (key identifies the finding class for KNOWN_FINDINGS)
    """

    def __init__(self, prop, tier, seed):
        self.prop, self.tier, self.seed = prop, tier, seed
        self.rng = random.Random((seed * 1000003) ^ int(hashlib.sha1(prop.encode()).hexdigest()[:8], 16))
        self.t0 = time.time()
        self.evaluations = 0
        self.nontrivial = set()
        self.samples = []
        self.hist = {}
        self.disagreements = []
        self.failures = []
        self.broken = []            # names of theorems / builds that no longer check
        self.obligations = {}
        self.notes = []
        self.assumptions = []
        self.trusted = []
        self.extra = {}
        self.exhaustive = None
        self.rule = ""

    def corpus(self):
        """minimised past failures for this property (replayed first by the corr modules)"""
        d = os.path.join(VERIF, "corpus", self.prop)
        out = []
        if os.path.isdir(d):
            for f in sorted(os.listdir(d)):
                if f.endswith(".json"):
                    out.append(json.load(open(os.path.join(d, f))))
        return out

    # -- counting
    def case(self, key, desc=None, nontrivial=True, tags=()):
        self.evaluations += 1
        if nontrivial:
            self.nontrivial.add(key if isinstance(key, str) else json.dumps(key, sort_keys=True, default=str))
        if desc is not None and len(self.samples) < 6:
            self.samples.append(desc)
        for t in tags:
            self.hist[t] = self.hist.get(t, 0) + 1

    def tag(self, t, n=1):
        self.hist[t] = self.hist.get(t, 0) + n

    def disagree(self, stream, case, real, model):
        self.disagreements.append(dict(stream=stream, case=case, real=real, model=model))

    def fail(self, key, what, case):
        self.failures.append(dict(key=key, what=what, case=case))

    # -- proof side
    def proofs(self, extra_targets=()):
        """regen + build + audit.  Fills self.obligations / self.broken."""
        regen_info = regen()
        self.extra["translator"] = regen_info
        # only what this property's theorems (transitively) mention is an obligation of this property
        rel = Relevance(self.prop)
        unt = [u for u in regen_info.get("untranslatable", []) if rel.item(u)]
        if unt:
            self.broken.append("translator: untranslatable " + ",".join(unt))
        for mname, info in (regen_info.get("crashed") or {}).items():
            if rel.module_files(info.get("files") or []):
                self.broken.append(f"translator: {mname} crashed on the current source ({info.get('error')}); "
                                   f"its generated files {info.get('files')} are stale")
        self.extra["translator_not_relevant_here"] = [u for u in regen_info.get("untranslatable", []) if u not in unt]
        targets = [f"XrsVerif.Props.{self.prop}", "driver"] + list(extra_targets)
        ok, log = lake_build(targets)
        self.extra["build_ok"] = ok
        if not ok:
            errs = re.findall(r"error: ([^\n]*\.lean:\d+:\d+: [^\n]*)", log)
            self.broken.append("lake build " + " ".join(targets) + " failed: " + "; ".join(errs[:8]))
            self.extra["build_log_tail"] = log[-4000:]
            # the driver alone may still build: try, so the search can use the model
            lake_build(["driver"])
        bad = forbidden_tokens()
        if bad:
            self.broken.append(f"forbidden tokens in Lean sources: {bad[:5]}")
        if ok:
            aok, axioms, out = audit(self.prop)
            if not aok:
                self.broken.append("audit file does not check: " + out[-1500:])
            for thm, ax in axioms.items():
                good = set(ax) <= ALLOWED_AXIOMS
                self.obligations[thm] = dict(axioms=ax, ok=good)
                if not good:
                    self.broken.append(f"theorem {thm} uses axioms {ax}")
            if aok and not axioms:
                self.broken.append("audit produced no theorem")
            if self.tier == "thorough":
                cok, cout = leanchecker([f"XrsVerif.Props.{self.prop}"])
                self.extra["leanchecker_ok"] = cok
                if not cok:
                    self.broken.append("leanchecker rejected XrsVerif.Props." + self.prop + ": " + cout[-1500:])
        return not self.broken

    # -- finishing
    def finish(self):
        known, _ = load_known()
        lines = []
        rc = 0
        os.makedirs(os.path.join(VERIF, "replays"), exist_ok=True)
        reported = set()
        unknown_fail = 0
        for f in self.failures:
            if f["key"] in reported:
                continue
            reported.add(f["key"])
            kn = [k for k in known if k["property"] == self.prop and k["key"] == f["key"]]
            if kn:
                lines.append(f"KNOWN-FINDING: property={self.prop} {kn[0]['text']}")
                continue
            unknown_fail += 1
            path = self.write_replay("failing-input", f)
            lines.append(f"VIOLATION property={self.prop} replay={path}")
            rc = 1
        if unknown_fail == 0 and (self.broken or self.disagreements):
            # a proof obligation or the correspondence broke and no failing input was found
            path = self.write_replay("no-failing-input-found", None)
            lines.append(f"VIOLATION property={self.prop} replay={path} no-failing-input-found")
            rc = 1
        self.write_evidence(violations=sum(1 for ln in lines if ln.startswith("VIOLATION")))
        for ln in lines:
            print(ln)
        status = "ok" if rc == 0 else "VIOLATION"
        print(f"[{self.prop}] {status}: {len(self.obligations)} theorems audited, "
              f"{self.evaluations} cases, {len(self.nontrivial)} distinct non-trivial, "
              f"{len(self.disagreements)} disagreements, {len(self.failures)} property failures, "
              f"broken={self.broken[:2]} wall={time.time() - self.t0:.1f}s")
        return rc

    def write_replay(self, kind, f):
        body = dict(property=self.prop, seed=self.seed, tier=self.tier, kind=kind,
                    broken=self.broken, disagreements=self.disagreements[:5])
        if f is not None:
            body.update(key=f["key"], what=f["what"], case=f["case"])
        body["how_to_replay"] = f"./check {self.prop} --replay <this file>"
        text = json.dumps(body, indent=1, sort_keys=True, default=str)
        h = hashlib.sha1(text.encode()).hexdigest()[:10]
        path = os.path.join("replays", f"{self.prop}-{h}.json")
        with open(os.path.join(VERIF, path), "w") as fh:
            fh.write(text + "\n")
        return path

    def write_evidence(self, violations):
        n_obl = len(self.obligations) + (1 if not self.obligations else 0)
        n_ok = sum(1 for v in self.obligations.values() if v["ok"])
        if self.broken and n_ok == len(self.obligations) and self.obligations:
            n_obl += 1  # something outside the audited theorems is broken
        cov = dict(
            obligations=n_obl, discharged=n_ok,
            checker_cmd=f"cd lean && ./lk build XrsVerif.Props.{self.prop} driver && ./lk env lean XrsVerif/Audit/{self.prop}.lean"
                        + (f" && ./lk env leanchecker XrsVerif.Props.{self.prop}" if self.tier == "thorough" else ""),
            trusted_base=["Lean 4.33 kernel", "axioms: " + ", ".join(sorted({a for v in self.obligations.values() for a in v["axioms"]}) or ["none"]),
                          "harness/translate.py (Python ast -> Gen/*.lean)", "correspondence harness + Lean driver parser/printer"] + self.trusted,
            theorems=sorted(self.obligations),
            evaluations=self.evaluations, distinct_nontrivial=len(self.nontrivial),
            rule=self.rule, samples=self.samples[:6] or ["(no correspondence cases in this run)"],
            distribution=self.hist, disagreements=len(self.disagreements),
            property_failures_on_real_code=len(self.failures), broken=self.broken,
        )
        if self.exhaustive is not None:
            # the schema wants a boolean; a description of the enumerated space goes next to it
            cov["exhaustive"] = bool(self.exhaustive)
            if not isinstance(self.exhaustive, bool):
                cov["exhaustive_space"] = str(self.exhaustive)
        cov.update(self.extra)
        ev = dict(property_id=self.prop, tier=self.tier, seed=self.seed, level="proof", coverage=cov,
                  assumptions=self.assumptions, wall_s=round(time.time() - self.t0, 2), violations=violations)
        os.makedirs(os.path.join(VERIF, "evidence"), exist_ok=True)
        with open(os.path.join(VERIF, "evidence", f"{self.prop}.json"), "w") as fh:
            json.dump(ev, fh, indent=1, sort_keys=True, default=str)
            fh.write("\n")
