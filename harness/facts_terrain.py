"""
T2 facts for C08 (terrain: slope / aspect / curvature / hillshade), regenerated from /repo on every run
into lean/XrsVerif/Gen/Terrain.lean:

* `hillshade_cpu : Kernel`   -- `hillshade._run_numpy` (whole-array numpy code) read as a per-cell program.
      Contract used (stated, and checked by the correspondence run): at a cell that is not in the first /
      last row / column, `x, y = np.gradient(data)` is `x = (data[i+1,j]-data[i-1,j])/2`,
      `y = (data[i,j+1]-data[i,j-1])/2`; every other statement is elementwise.  The margins come from the
      `result[(0, -1), :] = np.nan` / `result[:, (0, -1)] = np.nan` statements (no such statement -> margin 0,
      and then the border theorems of Props/C08.lean stop checking).
* `<f>_wiring : TerrainWiring` -- how the public function feeds the kernel: which local names receive the
      pair returned by `get_dataarray_resolution`, the scalar statements executed before the call
      (`cellsize = (cellsize_x + cellsize_y) / 2`), and the expression handed to every kernel scalar,
      followed through `mapper(agg)(agg.data, ...)` -> `_run_numpy(data, ...)` -> `_cpu(data, ...)`.
* `res_facts` / `calc_res_x` / `calc_res_y` -- `utils.get_dataarray_resolution` returns (x, y) in that order
      from the `res` attribute or from `calc_res`; `calc_res`'s two quotients as expressions.
* `summarize_calls` -- which function `analytics.summarize_terrain` stores under which suffix.

Nothing is defaulted: a shape that is not recognised yields an `S.fail` kernel / `false` flag / "?" name,
which the theorems cannot satisfy.
"""
import ast
import os

from translate import (KERNELS, KernelTranslator, Untranslatable, call_name, emit_kernel,
                       emit_untranslatable, find_func, lean_str, str_list)

FUNC_TO_LEAN = {(rel, fn): lean for lean, rel, fn, _ in KERNELS}


def parse(repo, rel):
    return ast.parse(open(os.path.join(repo, rel)).read())


def is_nan(v):
    return (isinstance(v, ast.Attribute) and v.attr == "nan") or (isinstance(v, ast.Name) and v.id == "nan")


# ------------------------------------------------------------------ hillshade._run_numpy -> Kernel
def border_axis(t):
    """`name[(0, -1), :]` -> (name, 0);  `name[:, (0, -1)]` -> (name, 1); else None"""
    if not (isinstance(t, ast.Subscript) and isinstance(t.value, ast.Name) and isinstance(t.slice, ast.Tuple)
            and len(t.slice.elts) == 2):
        return None

    def ends(e):
        if not isinstance(e, ast.Tuple) or len(e.elts) != 2:
            return False
        vals = []
        for c in e.elts:
            if isinstance(c, ast.Constant) and isinstance(c.value, int):
                vals.append(c.value)
            elif isinstance(c, ast.UnaryOp) and isinstance(c.op, ast.USub) and isinstance(c.operand, ast.Constant):
                vals.append(-c.operand.value)
            else:
                return False
        return sorted(vals) == [-1, 0]

    def full(e):
        return isinstance(e, ast.Slice) and e.lower is None and e.upper is None and e.step is None

    a, b = t.slice.elts
    if ends(a) and full(b):
        return t.value.id, 0
    if full(a) and ends(b):
        return t.value.id, 1
    return None


def small_shape_test(t, arr):
    """True iff `t` can only hold for rasters with fewer than 3 rows or columns:
    an `or` of `arr.shape[i] < c` (c <= 3) / `arr.shape[i] <= c` (c <= 2) / `min(arr.shape) < c`"""
    if isinstance(t, ast.BoolOp) and isinstance(t.op, ast.Or):
        return all(small_shape_test(v, arr) for v in t.values)
    if isinstance(t, ast.Compare) and len(t.ops) == 1 and isinstance(t.comparators[0], ast.Constant) \
            and isinstance(t.comparators[0].value, int):
        c = t.comparators[0].value
        lim = 3 if isinstance(t.ops[0], ast.Lt) else 2 if isinstance(t.ops[0], ast.LtE) else None
        if lim is None or c > lim:
            return False
        src = ast.unparse(t.left)
        return src in (f"{arr}.shape[0]", f"{arr}.shape[1]", f"min({arr}.shape)", f"{arr}.shape[-1]", f"{arr}.shape[-2]")
    return False


def all_nan_return(st, arr):
    """`return np.full(arr.shape, np.nan[, dtype])`"""
    if not (isinstance(st, ast.Return) and isinstance(st.value, ast.Call) and call_name(st.value.func) == "full"):
        return False
    a = st.value.args
    return len(a) >= 2 and ast.unparse(a[0]) == f"{arr}.shape" and is_nan(a[1])


def hillshade_kernel(repo):
    rel = "xrspatial/hillshade.py"
    mod = parse(repo, rel)
    func = find_func(mod, "_run_numpy")
    if func is None:
        raise Untranslatable("hillshade._run_numpy not found")
    tr = KernelTranslator(mod, func)
    tr.yvar = tr.xvar = None
    arr = tr.args[0]
    tr.args = list(tr.args)
    parts, nan_axes, ret, grad_seen = [], {}, None, False
    last_assign = {}
    for idx, st in enumerate(func.body):
        if isinstance(st, ast.Expr) and isinstance(st.value, ast.Constant):
            continue
        if isinstance(st, ast.If) and not st.orelse and len(st.body) == 1 and all_nan_return(st.body[0], arr) \
                and small_shape_test(st.test, arr):
            # rasters without an interior answered early with all-NaN: what margins (1,1,1,1) give anyway
            tr.casts.append("small-raster guard: " + ast.unparse(st.test))
            continue
        if isinstance(st, ast.Return):
            if not isinstance(st.value, ast.Name):
                raise Untranslatable("return of a non-name")
            ret = st.value.id
            parts.append(f"(S.store (E.var {lean_str(ret)}))")
            break
        if not (isinstance(st, ast.Assign) and len(st.targets) == 1):
            raise Untranslatable("statement " + ast.unparse(st).splitlines()[0])
        t, v = st.targets[0], st.value
        if isinstance(t, ast.Name) and t.id == arr and isinstance(v, ast.Call) and call_name(v.func) == "astype" \
                and isinstance(v.func.value, ast.Name) and v.func.value.id == arr:
            tr.casts.append(ast.unparse(st))
            continue
        if isinstance(t, ast.Tuple) and isinstance(v, ast.Call) and call_name(v.func) == "gradient":
            if not (len(t.elts) == 2 and all(isinstance(e, ast.Name) for e in t.elts) and len(v.args) == 1
                    and not v.keywords and isinstance(v.args[0], ast.Name) and v.args[0].id == arr):
                raise Untranslatable("np.gradient call shape " + ast.unparse(st))
            g0, g1 = t.elts[0].id, t.elts[1].id
            if arr not in tr.arrays:
                tr.arrays.append(arr)
            a = lean_str(arr)
            parts.append(f"(S.assign {lean_str(g0)} (E.bin .div (E.bin .sub (E.rd {a} 1 0) (E.rd {a} (-1) 0)) (E.lit 2 1)))")
            parts.append(f"(S.assign {lean_str(g1)} (E.bin .div (E.bin .sub (E.rd {a} 0 1) (E.rd {a} 0 (-1))) (E.lit 2 1)))")
            tr.locals |= {g0, g1}
            grad_seen = True
            continue
        ba = border_axis(t)
        if ba is not None:
            if not is_nan(v):
                raise Untranslatable("border assignment of a non-NaN value")
            nan_axes.setdefault(ba[0], set()).add(ba[1])
            last_assign[("border", ba[0], ba[1])] = idx
            continue
        if isinstance(t, ast.Name):
            if t.id == arr:
                raise Untranslatable("input array reassigned")
            parts.append(tr.stmt(st))
            last_assign[t.id] = idx
            continue
        raise Untranslatable("assignment target " + ast.unparse(t))
    if ret is None or not grad_seen:
        raise Untranslatable("no `x, y = np.gradient(data)` ... `return result` shape")
    axes = set()
    for ax in nan_axes.get(ret, ()):
        if last_assign[("border", ret, ax)] > last_assign.get(ret, -1):
            axes.add(ax)
    body = parts[-1]
    for p in reversed(parts[:-1]):
        body = f"(S.seq {p}\n {body})"
    scalars = [a for a in tr.args if a != arr]
    mv, mh = (1 if 0 in axes else 0), (1 if 1 in axes else 0)
    return func, tr, dict(arrays=[arr], scalars=scalars, vectors=[], fill="nan", top=mv, bottom=mv, left=mh, right=mh,
                          pre="S.skip", guard="C.tt", body=body)


# ------------------------------------------------------------------ public function -> kernel wiring
class Scal(KernelTranslator):
    """scalar expressions of a wrapper body (names are locals / parameters of the wrapper)"""

    def __init__(self, mod, func):
        super().__init__(mod, func)
        self.yvar = self.xvar = None


def find_kernel_call(mod, rel, fname, depth=0):
    """follow `fname(args)` to the translated kernel: returns (lean kernel name, params of `fname`,
    for each kernel parameter the *name of the fname parameter* passed to it)"""
    if (rel, fname) in FUNC_TO_LEAN:
        f = find_func(mod, fname)
        params = [a.arg for a in f.args.args]
        return FUNC_TO_LEAN[(rel, fname)], params, params
    f = find_func(mod, fname)
    if f is None or depth > 2:
        return None
    params = [a.arg for a in f.args.args]
    hits = []
    for n in ast.walk(f):
        if isinstance(n, ast.Call) and isinstance(n.func, ast.Name) and (rel, n.func.id) in FUNC_TO_LEAN:
            hits.append(n)
    if len(hits) != 1 or hits[0].keywords or not all(isinstance(a, ast.Name) for a in hits[0].args):
        return None
    # the names handed on must still hold the wrapper's own parameters (re-binding only by astype of itself)
    for st in ast.walk(f):
        if isinstance(st, ast.Assign):
            for t in st.targets:
                for nm in ast.walk(t):
                    if isinstance(nm, ast.Name) and nm.id in params:
                        v = st.value
                        ok = (isinstance(v, ast.Call) and call_name(v.func) == "astype"
                              and isinstance(v.func.value, ast.Name) and v.func.value.id == nm.id)
                        if not ok:
                            return None
    passed = [a.id for a in hits[0].args]
    if not set(passed) <= set(params):
        return None
    return FUNC_TO_LEAN[(rel, hits[0].func.id)], params, passed


def wiring_of(repo, fn, rel, kernel_override=None):
    mod = parse(repo, rel)
    f = find_func(mod, fn)
    bad = dict(kernel="?", resX="?", resY="?", pre="S.skip", args=[], aggData=False, dask=dict(ok=False))
    if f is None:
        return bad
    sc = Scal(mod, f)
    res_names = None
    pre = []
    numpy_func = dask_func = None
    call_args = None
    pub_arr = f.args.args[0].arg
    for st in f.body:
        if isinstance(st, ast.Expr):
            continue
        if isinstance(st, ast.Assign) and len(st.targets) == 1:
            t, v = st.targets[0], st.value
            if isinstance(t, ast.Tuple) and isinstance(v, ast.Call) and call_name(v.func) == "get_dataarray_resolution":
                if len(t.elts) == 2 and all(isinstance(e, ast.Name) for e in t.elts) and len(v.args) == 1 \
                        and isinstance(v.args[0], ast.Name) and v.args[0].id == pub_arr and not v.keywords:
                    res_names = (t.elts[0].id, t.elts[1].id)
                    sc.locals |= set(res_names)
                    continue
                return bad
            if isinstance(t, ast.Name) and isinstance(v, ast.Call) and call_name(v.func) == "ArrayTypeFunctionMapping":
                for k in v.keywords:
                    if k.arg == "numpy_func" and isinstance(k.value, ast.Name):
                        numpy_func = k.value.id
                    if k.arg == "dask_func" and isinstance(k.value, ast.Name):
                        dask_func = k.value.id
                continue
            if isinstance(t, ast.Name) and isinstance(v, ast.Call) and isinstance(v.func, ast.Call) \
                    and isinstance(v.func.func, ast.Name) and v.func.func.id == "mapper":
                call_args = v.args
                continue
            if isinstance(t, ast.Name):
                try:
                    pre.append(sc.stmt(st))
                    continue
                except Untranslatable:
                    pass
        # anything else (raise guards, isinstance dispatch, return) is looked at below / ignored
    if kernel_override is not None:
        # hillshade: direct call `_run_numpy(agg.data, azimuth, angle_altitude)` in the numpy branch
        calls = [n for n in ast.walk(f) if isinstance(n, ast.Call) and isinstance(n.func, ast.Name)
                 and n.func.id == "_run_numpy"]
        if len(calls) != 1 or calls[0].keywords:
            return bad
        call_args = calls[0].args
        kf = find_func(mod, "_run_numpy")
        kparams = [a.arg for a in kf.args.args]
        found = (kernel_override, kparams, kparams)
        # dask wrapper of hillshade: map_overlap of partial(_run_numpy, ...)
        dask_func = "_run_dask_numpy"
    else:
        if numpy_func is None or call_args is None:
            return bad
        found = find_kernel_call(mod, rel, numpy_func)
    if found is None:
        return bad
    kern, wparams, passed = found
    if len(call_args) != len(wparams):
        return bad
    a0 = call_args[0]
    agg_data = (isinstance(a0, ast.Attribute) and a0.attr == "data" and isinstance(a0.value, ast.Name)
                and a0.value.id == pub_arr)
    by_param = dict(zip(wparams, call_args))
    args = []
    try:
        for kp in (passed[1:] if passed is not wparams else wparams[1:]):
            args.append((None, sc.expr(by_param[kp])))
    except Untranslatable:
        return bad
    # kernel scalar names, in kernel order
    if kernel_override is not None:
        knames = wparams[1:]
    else:
        kfn = [fnn for (lean, r, fnn, _) in KERNELS if lean == kern][0]
        knames = [a.arg for a in find_func(mod, kfn).args.args][1:]
    if len(knames) != len(args) or (passed is not wparams and passed[0] != wparams[0]):
        return bad
    args = [(kn, e) for kn, (_, e) in zip(knames, args)]
    pre_l = "S.skip"
    for p in reversed(pre):
        pre_l = p if pre_l == "S.skip" else f"(S.seq {p} {pre_l})"
    # dask wrapper: `data.map_overlap(_func, depth=(1, 1), boundary=np.nan, ...)`
    dask = dict(ok=False)
    df = find_func(mod, dask_func) if dask_func else None
    if df is not None:
        for n in ast.walk(df):
            if isinstance(n, ast.Call) and call_name(n.func) == "map_overlap":
                d = {k.arg: k.value for k in n.keywords}
                depth = d.get("depth")
                # respellings with the same meaning: a local name bound to the depth, a dict by axis,
                # a scalar (dask broadcasts it to every axis)
                local = {t.id: st.value for st in ast.walk(df) if isinstance(st, ast.Assign)
                         and len(st.targets) == 1 and isinstance((t := st.targets[0]), ast.Name)}
                for _ in range(4):
                    if isinstance(depth, ast.Name) and depth.id in local:
                        depth = local[depth.id]
                if isinstance(depth, ast.Dict) and sorted(getattr(k, "value", None) for k in depth.keys) == [0, 1]:
                    by_axis = {k.value: v for k, v in zip(depth.keys, depth.values)}
                    depth = ast.Tuple(elts=[by_axis[0], by_axis[1]], ctx=ast.Load())
                if isinstance(depth, ast.Constant) and isinstance(depth.value, int) and not isinstance(depth.value, bool):
                    depth = ast.Tuple(elts=[depth, depth], ctx=ast.Load())
                if isinstance(depth, ast.Tuple):
                    depth = ast.Tuple(elts=[local.get(e.id, e) if isinstance(e, ast.Name) else e for e in depth.elts],
                                      ctx=ast.Load())
                dv = [e.value for e in depth.elts] if isinstance(depth, ast.Tuple) and all(
                    isinstance(e, ast.Constant) and isinstance(e.value, int) for e in depth.elts) else None
                dask = dict(ok=True, depth=dv, boundary_nan=is_nan(d.get("boundary")))
    return dict(kernel=kern, resX=res_names[0] if res_names else "", resY=res_names[1] if res_names else "",
                pre=pre_l, args=args, aggData=agg_data, dask=dask)


def emit_wiring(name, fn, w):
    kexpr = w["kernel"] if w["kernel"] != "?" else (
        '{ name := "?", arrays := [], scalars := [], vectors := [], fill := .nan, top := 0, bottom := 0, '
        'left := 0, right := 0, pre := S.skip, guard := C.tt, body := S.fail "wiring not found" }')
    args = ", ".join(f"({lean_str(k)}, {e})" for k, e in w["args"])
    d = w["dask"]
    depth = d.get("depth") or []
    return (f"def {name} : TerrainWiring := {{\n  func := {lean_str(fn)}\n  kernel := {kexpr}\n"
            f"  resX := {lean_str(w['resX'])}\n  resY := {lean_str(w['resY'])}\n  pre := {w['pre']}\n"
            f"  scalarArgs := [{args}]\n  aggData := {'true' if w['aggData'] else 'false'}\n"
            f"  daskDepth := [{', '.join(str(int(x)) for x in depth)}]\n"
            f"  daskBoundaryNan := {'true' if d.get('boundary_nan') else 'false'}\n}}\n")


# ------------------------------------------------------------------ utils.get_dataarray_resolution / calc_res
def res_facts(repo):
    mod = parse(repo, "xrspatial/utils.py")
    g = find_func(mod, "get_dataarray_resolution")
    c = find_func(mod, "calc_res")
    facts = dict(returnsXY=False, attrTupleXY=False, attrScalarBoth=False, fallbackCalcRes=False,
                 calcResReturnsXY=False, shapeHW=False, rangeMinMax=False)
    ex, ey = 'E.nan', 'E.nan'
    if g is not None:
        rets = [n for n in ast.walk(g) if isinstance(n, ast.Return)]
        facts["returnsXY"] = bool(rets) and all(
            isinstance(r.value, ast.Tuple) and [getattr(e, "id", None) for e in r.value.elts] == ["cellsize_x", "cellsize_y"]
            for r in rets)
        tup, fall, scal_x, scal_y = [], [], False, False
        for n in ast.walk(g):
            if isinstance(n, ast.Assign) and len(n.targets) == 1:
                t, v = n.targets[0], n.value
                if isinstance(t, ast.Tuple) and [getattr(e, "id", None) for e in t.elts] == ["cellsize_x", "cellsize_y"]:
                    if isinstance(v, ast.Name) and v.id == "cellsize":
                        tup.append(n)
                    elif isinstance(v, ast.Call) and call_name(v.func) == "calc_res" \
                            and [ast.unparse(a) for a in v.args] == ["agg", "xdim", "ydim"]:
                        fall.append(n)
                    else:
                        tup.append(None)
                elif isinstance(t, ast.Tuple):
                    tup.append(None)
                elif isinstance(t, ast.Name) and t.id == "cellsize_x":
                    scal_x = isinstance(v, ast.Name) and v.id == "cellsize"
                elif isinstance(t, ast.Name) and t.id == "cellsize_y":
                    scal_y = isinstance(v, ast.Name) and v.id == "cellsize"
                elif isinstance(t, ast.Name) and t.id == "cellsize":
                    if ast.unparse(v) not in ("agg.attrs.get('res')", 'agg.attrs.get("res")'):
                        tup.append(None)
        facts["attrTupleXY"] = len(tup) == 1 and tup[0] is not None
        facts["attrScalarBoth"] = scal_x and scal_y
        facts["fallbackCalcRes"] = len(fall) >= 1
    if c is not None:
        sc = Scal(mod, c)
        sc.args = ["xmin", "xmax", "ymin", "ymax", "h", "w"]
        rets = [n for n in ast.walk(c) if isinstance(n, ast.Return)]
        facts["calcResReturnsXY"] = len(rets) == 1 and isinstance(rets[0].value, ast.Tuple) and \
            [getattr(e, "id", None) for e in rets[0].value.elts] == ["xres", "yres"]

        def sub(node):
            """xrange[-1] -> xmax, xrange[0] -> xmin (get_xy_range returns (min, max) pairs)"""
            class T(ast.NodeTransformer):
                def visit_Subscript(self, n):
                    if isinstance(n.value, ast.Name) and n.value.id in ("xrange", "yrange"):
                        s = n.slice
                        idx = s.value if isinstance(s, ast.Constant) else (
                            -s.operand.value if isinstance(s, ast.UnaryOp) and isinstance(s.op, ast.USub)
                            and isinstance(s.operand, ast.Constant) else None)
                        if idx in (0, -1):
                            return ast.Name(id=n.value.id[0] + ("min" if idx == 0 else "max"), ctx=ast.Load())
                    return n
            return T().visit(node)

        for n in c.body:
            if isinstance(n, ast.Assign) and len(n.targets) == 1:
                t, v = n.targets[0], n.value
                if isinstance(t, ast.Tuple) and [getattr(e, "id", None) for e in t.elts] == ["h", "w"] \
                        and ast.unparse(v) == "raster.shape[-2:]":
                    facts["shapeHW"] = True
                if isinstance(t, ast.Tuple) and [getattr(e, "id", None) for e in t.elts] == ["xrange", "yrange"] \
                        and isinstance(v, ast.Call) and call_name(v.func) == "get_xy_range":
                    facts["rangeMinMax"] = xy_range_ok(mod)
                if isinstance(t, ast.Name) and t.id in ("xres", "yres"):
                    try:
                        e = sc.expr(sub(v))
                    except Untranslatable:
                        e = "E.nan"
                    if t.id == "xres":
                        ex = e
                    else:
                        ey = e
    return facts, ex, ey


def xy_range_ok(mod):
    """get_xy_range: xdim defaults to dims[-1], ydim to dims[-2]; returns ((xmin, xmax), (ymin, ymax))"""
    f = find_func(mod, "get_xy_range")
    if f is None:
        return False
    src = ast.unparse(f)
    need = ["xdim = raster.dims[-1]", "ydim = raster.dims[-2]", "xmin = raster[xdim].min().item()",
            "xmax = raster[xdim].max().item()", "ymin = raster[ydim].min().item()",
            "ymax = raster[ydim].max().item()", "xrange = (xmin, xmax)", "yrange = (ymin, ymax)",
            "return (xrange, yrange)"]
    return all(s in src for s in need)


def summarize_calls(repo):
    mod = parse(repo, "xrspatial/analytics.py")
    f = find_func(mod, "summarize_terrain")
    out = []
    if f is None:
        return out
    arg = f.args.args[0].arg
    for n in f.body:
        if isinstance(n, ast.Assign) and len(n.targets) == 1 and isinstance(n.targets[0], ast.Subscript) \
                and isinstance(n.targets[0].slice, ast.JoinedStr) and isinstance(n.value, ast.Call) \
                and isinstance(n.value.func, ast.Name):
            js = n.targets[0].slice
            suffix = "".join(v.value for v in js.values if isinstance(v, ast.Constant))
            head_ok = js.values and isinstance(js.values[0], ast.FormattedValue) \
                and ast.unparse(js.values[0].value) == f"{arg}.name"
            args_ok = len(n.value.args) == 1 and isinstance(n.value.args[0], ast.Name) \
                and n.value.args[0].id == arg and not n.value.keywords
            out.append((suffix if head_ok else "?", n.value.func.id if args_ok else "?"))
    return out


# ------------------------------------------------------------------ the generated file
def terrain(repo):
    out = ["import XrsVerif.Core.KLang", "import XrsVerif.Gen.Kernels",
           "/-! GENERATED by harness/facts_terrain.py from the current /repo source -- do not edit. -/",
           "namespace XrsVerif.Gen", "open XrsVerif", ""]
    rep = {}
    try:
        func, tr, k = hillshade_kernel(repo)
        out.append(f"/-- `hillshade._run_numpy` (xrspatial/hillshade.py:{func.lineno}) per cell; `np.gradient` by its "
                   f"interior stencil (contract); casts dropped: {tr.casts} -/")
        out.append(emit_kernel("hillshade_cpu", "hillshade._run_numpy", k))
        rep["hillshade_cpu"] = dict(ok=True, arrays=k["arrays"], scalars=k["scalars"],
                                    margins=[k["top"], k["bottom"], k["left"], k["right"]])
    except (Untranslatable, OSError, SyntaxError) as ex:
        out.append(emit_untranslatable("hillshade_cpu", "hillshade._run_numpy", str(ex)))
        rep["hillshade_cpu"] = dict(ok=False, why=str(ex))
    out += ["structure TerrainWiring where",
            "  func : String",
            "  kernel : Kernel",
            "  /-- local names that receive `get_dataarray_resolution(agg)` = (x cell size, y cell size) -/",
            "  resX : String",
            "  resY : String",
            "  /-- scalar statements executed between that call and the kernel call -/",
            "  pre : S",
            "  /-- (kernel scalar, expression over the wrapper's locals / parameters handed to it) in kernel order -/",
            "  scalarArgs : List (String × E)",
            "  /-- the kernel's array argument is `agg.data` -/",
            "  aggData : Bool",
            "  daskDepth : List Nat",
            "  daskBoundaryNan : Bool", ""]
    names = []
    for fn, rel, override in (("slope", "xrspatial/slope.py", None), ("aspect", "xrspatial/aspect.py", None),
                              ("curvature", "xrspatial/curvature.py", None),
                              ("hillshade", "xrspatial/hillshade.py", "hillshade_cpu")):
        try:
            w = wiring_of(repo, fn, rel, override)
        except (OSError, SyntaxError, Untranslatable, AttributeError, IndexError, KeyError):
            w = dict(kernel="?", resX="?", resY="?", pre="S.skip", args=[], aggData=False, dask=dict(ok=False))
        out.append(emit_wiring(f"{fn}_wiring", fn, w))
        names.append(f"{fn}_wiring")
        rep[fn] = dict(kernel=w["kernel"], resX=w["resX"], resY=w["resY"], scalars=[k for k, _ in w["args"]],
                       aggData=w["aggData"], dask=w["dask"])
    out.append("def terrainWirings : List (String × TerrainWiring) := ["
               + ", ".join(f"({lean_str(n[:-7])}, {n})" for n in names) + "]\n")
    try:
        facts, ex, ey = res_facts(repo)
    except (OSError, SyntaxError):
        facts, ex, ey = {}, "E.nan", "E.nan"
    keys = ["returnsXY", "attrTupleXY", "attrScalarBoth", "fallbackCalcRes", "calcResReturnsXY", "shapeHW", "rangeMinMax"]
    out.append("/-- `utils.get_dataarray_resolution` / `calc_res` / `get_xy_range`: every flag is a syntactic fact of the source -/")
    out.append("structure ResFacts where\n" + "\n".join(f"  {k} : Bool" for k in keys) + "\n  deriving DecidableEq\n")
    out.append("def res_facts : ResFacts := { " + ", ".join(
        f"{k} := {'true' if facts.get(k) else 'false'}" for k in keys) + " }\n")
    out.append("/-- `calc_res`: xres / yres over the variables xmin xmax ymin ymax h w -/")
    out.append(f"def calc_res_x : E := {ex}\ndef calc_res_y : E := {ey}\n")
    try:
        sc = summarize_calls(repo)
    except (OSError, SyntaxError):
        sc = []
    out.append("/-- `analytics.summarize_terrain`: (variable suffix, function applied to the terrain) -/")
    out.append("def summarize_calls : List (String × String) := ["
               + ", ".join(f"({lean_str(a)}, {lean_str(b)})" for a, b in sc) + "]\n")
    rep["res_facts"] = facts
    rep["summarize_calls"] = sc
    out.append("end XrsVerif.Gen")
    return "Terrain.lean", "\n".join(out) + "\n", rep


def generate(repo):
    yield terrain(repo)
