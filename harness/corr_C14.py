"""
C14 -- A* returns a valid, shortest path between the cells the caller named.

Tie:  T  harness/facts_astar.py regenerates Gen/AStarFacts.lean (heuristic / step kernels, neighbour tables, relaxation
         body, min-cost scan, barrier test, pixel rule, snap scan); Props/C14.lean proves them equal to the model's.
      H  `lean/XrsVerif/Model/AStar.lean` is a hand model of pathfinding.py (after repairs D6, D7);
         the theorems of Props/C14.lean are about that model for every cost structure / every
         ordered field.  Here the public `a_star_search` (and the two helpers `_get_pixel_id`,
         `_find_nearest_pixel`) run on generated inputs and are compared with the compiled model:
           F  the model executed over IEEE doubles (the operations numba performs): the whole
              path raster must be identical, NaN pattern and values bit for bit;
           Q  the model executed over exact costs a + b*sqrt2 with heuristic 0 (Dijkstra): all-NaN
              must coincide and the goal's value must be a + b*sqrt2.
      histories: several searches in a row on rasters derived from one another by attrs-preserving xarray operations
         (stream `derived`): each must be what a search on a fresh raster with the same data and coordinates gives.
Oracle (independent of the model, from the property text): nearest centre in exact rational
arithmetic on the actual float coordinates, nearest crossable cell by squared distance, and an
exact Dijkstra (costs as integer pairs (a, b)) for reachability and the minimum.
"""
import itertools
import json
import math
import os
from fractions import Fraction

import numpy as np
import xarray as xr

from common import Driver, parse_grid, tok, untok

PROP = "C14"
SQRT2 = math.sqrt(2.0)

N8 = [(-1, -1), (0, -1), (1, -1), (-1, 0), (1, 0), (-1, 1), (0, 1), (1, 1)]
N4 = [(0, -1), (-1, 0), (1, 0), (0, 1)]


# ---------------------------------------------------------------- cases
def F(s):
    return Fraction(s)


def ftok(q):
    q = Fraction(q)
    return str(q.numerator) if q.denominator == 1 else f"{q.numerator}/{q.denominator}"


def axis(c0, step, n):
    """the float coordinate array the caller would build for centres c0 + i*step"""
    return np.array([float(F(c0) + i * F(step)) for i in range(n)], dtype=np.float64)


INT_RANGE = {"int8": (-2 ** 7, 2 ** 7 - 1), "uint8": (0, 2 ** 8 - 1), "int16": (-2 ** 15, 2 ** 15 - 1),
             "uint16": (0, 2 ** 16 - 1), "int32": (-2 ** 31, 2 ** 31 - 1), "uint32": (0, 2 ** 32 - 1),
             "int64": (-2 ** 63, 2 ** 63 - 1), "uint64": (0, 2 ** 64 - 1)}
FLOAT_DT = ("float32", "float64")


def cell_exact(t):
    """a data token -> 'nan' | 'inf' | '-inf' | Fraction (the exact value of the cell)"""
    from common import untok_exact
    return untok_exact(t)


def data_rows(case):
    """token rows of the surface; long grids are stored compactly as `grid` = shape + blocked rectangles
    (cells 1, blocked cells 0)"""
    if "data" in case:
        return case["data"]
    g = case["grid"]
    rows = [["1"] * g["w"] for _ in range(g["h"])]
    for r0, r1, c0, c1 in g["blocks"]:
        for i in range(r0, r1 + 1):
            for j in range(c0, c1 + 1):
                rows[i][j] = "0"
    return rows


def make_data(case):
    """the surface array in the dtype the case names (float64 when it names none)"""
    dt = case.get("dtype", "float64")
    if dt in INT_RANGE:
        return np.array([[int(t) for t in row] for row in data_rows(case)], dtype=dt)
    return np.array([[untok(t) for t in row] for row in data_rows(case)], dtype=dt)


def barrier_objects(case):
    """the Python list the caller passes as `barriers=`: case['bar'] holds typed tokens ('i:-9999', 'f:2.5',
    'f:nan', 'f:inf'); older cases hold plain numbers in case['barriers'] (passed as floats)"""
    if "bar" in case:
        out = []
        for t in case["bar"]:
            kind, v = t.split(":", 1)
            out.append(int(v) if kind == "i" else untok(v))
        return out
    return [float(b) for b in case["barriers"]]


def barrier_tokens(case):
    """exact wire tokens of the listed numbers"""
    if "bar" in case:
        return [t.split(":", 1)[1] for t in case["bar"]]
    return [tok(b) for b in case["barriers"]]


_RASTER_MEMO = {}


def make_raster(case):
    if "grid" in case:          # the cases of one long-grid group share their raster
        key = (json.dumps(case["grid"]), case["y0"], case["ystep"], case["x0"], case["xstep"], bool(case.get("res")))
        if key not in _RASTER_MEMO:
            _RASTER_MEMO.clear()
            _RASTER_MEMO[key] = _make_raster(case)
        return _RASTER_MEMO[key]
    return _make_raster(case)


def _make_raster(case):
    data = make_data(case)
    h, w = data.shape
    attrs = {}
    if case.get("res"):
        attrs["res"] = (float(abs(F(case["xstep"]))), float(abs(F(case["ystep"]))))
    return xr.DataArray(data, dims=["y", "x"],
                        coords={"y": axis(case["y0"], case["ystep"], h), "x": axis(case["x0"], case["xstep"], w)},
                        attrs=attrs)


def real_search(case):
    from xrspatial import a_star_search
    ras = make_raster(case)
    start = (float(F(case["sy"])), float(F(case["sx"])))
    goal = (float(F(case["gy"])), float(F(case["gx"])))
    try:
        out = a_star_search(ras, start, goal, barriers=barrier_objects(case),
                            connectivity=case["conn"], snap_start=bool(case["snaps"]), snap_goal=bool(case["snapg"]))
    except ValueError:
        return "err:ValueError", None
    except ZeroDivisionError:
        return "err:ZeroDivisionError", None
    except (IndexError, OverflowError) as ex:
        return "err:" + type(ex).__name__, None
    return "ok", np.asarray(out.data, dtype=np.float64)


HANG_S = 30.0       # a single a_star_search call on an 8x8 raster takes well under a millisecond
MAX_HANGS = 3


def _read_exact(fd, n, timeout):
    import select
    buf = b""
    while len(buf) < n:
        ready, _, _ = select.select([fd], [], [], timeout)
        if not ready:
            return None
        chunk = os.read(fd, n - len(buf))
        if not chunk:
            raise EOFError
        buf += chunk
    return buf


def guarded_search(cases):
    """real_search for every case, computed in a forked child: numba's nopython loops cannot be
    interrupted, so a call that does not return within HANG_S seconds is killed and reported as
    ('hang', None); after MAX_HANGS hangs the remaining cases get ('skipped', None)"""
    return guarded_map(real_search, cases)


def guarded_map(fn, cases):
    """fn(case) for every case in a forked child (see guarded_search); fn returns a picklable (status, payload)"""
    import pickle
    import signal
    import struct
    cases = list(cases)
    out = []
    hangs = 0
    while len(out) < len(cases):
        if hangs >= MAX_HANGS:
            out.extend([("skipped", None)] * (len(cases) - len(out)))
            break
        start = len(out)
        rfd, wfd = os.pipe()
        pid = os.fork()
        if pid == 0:
            try:
                os.close(rfd)
                for c in cases[start:]:
                    try:
                        res = fn(c)
                    except Exception as ex:          # noqa: BLE001  (reported, not swallowed)
                        res = ("err:" + type(ex).__name__, None)
                    blob = pickle.dumps(res)
                    os.write(wfd, struct.pack("<I", len(blob)) + blob)
            finally:
                os._exit(0)
        os.close(wfd)
        try:
            while len(out) < len(cases):
                # the first frame of a child may include a JIT compilation
                head = _read_exact(rfd, 4, HANG_S * (4 if len(out) == start else 1))
                if head is None:
                    out.append(("hang", None))
                    hangs += 1
                    break
                body = _read_exact(rfd, struct.unpack("<I", head)[0], HANG_S)
                if body is None:
                    out.append(("hang", None))
                    hangs += 1
                    break
                out.append(pickle.loads(body))
        except EOFError:
            out.append(("err:child-died", None))
        finally:
            try:
                os.kill(pid, signal.SIGKILL)
            except ProcessLookupError:
                pass
            os.waitpid(pid, 0)
            os.close(rfd)
    return out


def search_request(case):
    rows = data_rows(case)
    h, w = len(rows), len(rows[0])
    g = f"{h}x{w}:" + ",".join(t for row in rows for t in row)
    parts = [f"astar data={g}", "barriers=" + ",".join(barrier_tokens(case)), f"conn={case['conn']}",
             f"y0={ftok(case['y0'])}", f"ystep={ftok(case['ystep'])}", f"x0={ftok(case['x0'])}", f"xstep={ftok(case['xstep'])}",
             f"sy={ftok(case['sy'])}", f"sx={ftok(case['sx'])}", f"gy={ftok(case['gy'])}", f"gx={ftok(case['gx'])}",
             f"snaps={int(case['snaps'])}", f"snapg={int(case['snapg'])}"]
    if case.get("res"):
        parts += [f"resy={ftok(abs(F(case['ystep'])))}", f"resx={ftok(abs(F(case['xstep'])))}"]
    return " ".join(parts)


def parse_reply(rep):
    """-> (status, dict)"""
    if not rep.startswith("ok "):
        return rep, {}
    d = dict(kv.split("=", 1) for kv in rep.split(" ")[1:])
    return "ok", d


def crossable(data, barriers):
    return ~(np.isnan(data) | np.isin(data, np.array(barriers, dtype=np.float64)))


def crossable_exact(case):
    """the property's reading of `barriers`, in exact arithmetic and independent of any dtype: a cell is not
    crossable iff it is NaN or its value equals one of the listed numbers (NaN in the list matches nothing,
    an infinity only a cell holding that infinity)"""
    listed = set()
    for b in barrier_objects(case):
        if isinstance(b, int):
            listed.add(Fraction(b))
        elif b != b:
            continue
        elif math.isinf(b):
            listed.add("inf" if b > 0 else "-inf")
        else:
            listed.add(Fraction(b))
    rows = [[cell_exact(t) for t in row] for row in data_rows(case)]
    return np.array([[v != "nan" and v not in listed for v in row] for row in rows], dtype=bool)


# ---------------------------------------------------------------- oracle pieces (independent of the model)
def nearest_centres(coords, p, slack=1e-6):
    """indices of the cell centres nearest to p (several when p is within `slack` cells of a tie);
    None when p is not within half a cell of the axis extent (outside the documented domain)"""
    cf = [Fraction(float(c)) for c in coords]
    pf = Fraction(float(p))
    n = len(cf)
    step = abs(cf[-1] - cf[0]) / (n - 1) if n > 1 else None
    if step is None or step == 0:
        return None
    lo, hi = min(cf), max(cf)
    half = step * Fraction(1, 2) * (1 - Fraction(slack))
    if pf <= lo - half or pf >= hi + half:
        return None          # outside the raster, or on its outer edge
    d = [abs(pf - c) for c in cf]
    m = min(d)
    return [i for i in range(n) if d[i] - m <= step * Fraction(slack)]


def nearest_crossable(cross, py, px):
    """set of crossable cells at minimum distance from (py, px) (the cell itself when crossable)"""
    if cross[py, px]:
        return {(py, px)}
    cells = [(int(y), int(x)) for y, x in np.argwhere(cross)]
    if not cells:
        return set()
    m = min((y - py) ** 2 + (x - px) ** 2 for y, x in cells)
    return {(y, x) for y, x in cells if (y - py) ** 2 + (x - px) ** 2 == m}


def dijkstra(cross, conn, s):
    """exact shortest costs from s over crossable cells: dict cell -> (a, b) meaning a + b*sqrt2"""
    import heapq
    h, w = cross.shape
    if not cross[s]:
        return {}
    nb = N8 if conn == 8 else N4
    best = {s: (0, 0)}
    pq = [(0.0, s)]
    done = set()
    while pq:
        k, u = heapq.heappop(pq)
        if u in done:
            continue
        done.add(u)
        a, b = best[u]
        for dy, dx in nb:
            v = (u[0] + dy, u[1] + dx)
            if 0 <= v[0] < h and 0 <= v[1] < w and cross[v] and v not in done:
                na, nb_ = (a + 1, b) if dy == 0 or dx == 0 else (a, b + 1)
                kv = na + nb_ * SQRT2
                if v not in best or kv < best[v][0] + best[v][1] * SQRT2 - 1e-9:
                    best[v] = (na, nb_)
                    heapq.heappush(pq, (kv, v))
    return best


def check_path(out, cross, conn, S, G, best=None):
    """None when `out` is what the property demands for start cell S and goal cell G, else a description;
    `best` = {cell: (a, b)} exact minimum costs (at least for G when reachable), computed here when not given"""
    nn = ~np.isnan(out)
    if not cross[S] or not cross[G]:
        return None if not nn.any() else f"end point not crossable (start {S}, goal {G}) but {int(nn.sum())} cells are not NaN"
    if best is None:
        best = dijkstra(cross, conn, S)
    if G not in best:
        return None if not nn.any() else f"no route from {S} to {G} but {int(nn.sum())} cells are not NaN"
    if not nn.any():
        return f"a route from {S} to {G} of cost {best[G]} exists but every cell is NaN"
    cells = sorted(((float(out[y, x]), (int(y), int(x))) for y, x in np.argwhere(nn)))
    if cells[0][1] != S or cells[0][0] != 0.0:
        return f"chain does not begin at start {S} with value 0: first cell {cells[0][1]} value {cells[0][0]}"
    if cells[-1][1] != G:
        return f"chain does not end at goal {G}: last cell {cells[-1][1]}"
    a = b = 0
    for (v0, c0), (v1, c1) in zip(cells, cells[1:]):
        dy, dx = c1[0] - c0[0], c1[1] - c0[1]
        if max(abs(dy), abs(dx)) != 1 or (conn == 4 and dy != 0 and dx != 0):
            return f"cells {c0} -> {c1} are not {conn}-neighbours"
        ln = 1.0 if dy == 0 or dx == 0 else SQRT2
        if abs((v1 - v0) - ln) > 1e-9:
            return f"step {c0} -> {c1} adds {v1 - v0}, its length is {ln}"
        if dy == 0 or dx == 0:
            a += 1
        else:
            b += 1
    for _, c in cells:
        if not cross[c]:
            return f"path enters non-crossable cell {c}"
    if (a, b) != best[G]:
        return f"goal value {cells[-1][0]} = {a}+{b}*sqrt2 is not the minimum {best[G][0]}+{best[G][1]}*sqrt2"
    return None


def oracle_search(case, status, out, ras=None):
    """property oracle on the public function; returns (key, text) or None.  `ras`: the raster that was searched when
    it is not the freshly built `make_raster(case)` (a raster derived by xarray operations: its own coordinates count)"""
    if ras is None:
        ras = make_raster(case)
    data = np.asarray(ras.data)
    h, w = data.shape
    cross = crossable_exact(case)
    ys, xs = ras["y"].data, ras["x"].data
    if case["conn"] not in (4, 8):
        return None
    if status == "hang":
        return ("hang", f"a_star_search did not return within {HANG_S:.0f} s on a {h}x{w} raster (the search loop does not terminate)")
    if h < 2 or w < 2:
        return None          # a one-cell axis has no spacing: outside the property's domain
    pts = dict(sy=float(F(case["sy"])), sx=float(F(case["sx"])), gy=float(F(case["gy"])), gx=float(F(case["gx"])))
    cand = dict(sy=nearest_centres(ys, pts["sy"]), gy=nearest_centres(ys, pts["gy"]),
                sx=nearest_centres(xs, pts["sx"]), gx=nearest_centres(xs, pts["gx"]))
    if any(v is None for v in cand.values()):
        return None          # a point outside the raster: the property does not say what happens
    if status != "ok":
        return ("D6:pixel-id", f"start {pts['sy'], pts['sx']} / goal {pts['gy'], pts['gx']} lie inside the raster "
                               f"(nearest cells {cand}) but the call raised {status}")
    # cells the caller named (every admissible reading near ties), then snapping
    problems = []
    for spy, spx, gpy, gpx in itertools.product(cand["sy"], cand["sx"], cand["gy"], cand["gx"]):
        Ss = nearest_crossable(cross, spy, spx) if case["snaps"] else {(spy, spx)}
        Gs = nearest_crossable(cross, gpy, gpx) if case["snapg"] else {(gpy, gpx)}
        if not Ss or not Gs:
            if not (~np.isnan(out)).any():
                return None
            problems.append("no crossable cell to snap to but the result is not all NaN")
            continue
        for S in Ss:
            for G in Gs:
                bad = check_path(out, cross, case["conn"], S, G)
                if bad is None:
                    return None
                problems.append(f"start cell {S}, goal cell {G}: {bad}")
    return (blame(case, ras, cross, cand), problems[0])


def blame(case, ras, cross, cand):
    """which stage of the public function produced a wrong result (finding key)"""
    from xrspatial.pathfinding import _find_nearest_pixel, _get_pixel_id
    try:
        sp = _get_pixel_id((float(F(case["sy"])), float(F(case["sx"]))), ras, "x", "y")
        gp = _get_pixel_id((float(F(case["gy"])), float(F(case["gx"]))), ras, "x", "y")
    except Exception:
        return "D6:pixel-id"
    if sp[0] not in cand["sy"] or sp[1] not in cand["sx"] or gp[0] not in cand["gy"] or gp[1] not in cand["gx"]:
        return "D6:pixel-id"
    bar = np.array(barrier_objects(case))
    data = np.asarray(ras.data)
    for on, pt in ((case["snaps"], sp), (case["snapg"], gp)):
        if on:
            try:
                got = tuple(int(v) for v in _find_nearest_pixel(pt[0], pt[1], data, bar))
            except Exception:          # noqa: BLE001
                return "path"
            want = nearest_crossable(cross, pt[0], pt[1])
            if want and got not in want:
                return "D7:snap"
    return "path"


def oracle_pixel(coords, res, p, got):
    """`_get_pixel_id` on one axis: key/text or None"""
    cand = nearest_centres(coords, p)
    if cand is None:
        return None
    if got in cand:
        return None
    own = [i for i, c in enumerate(coords) if float(c) == float(p)]
    what = (f"the coordinate {p!r} is cell {own[0]}'s own coordinate" if own else f"the centre nearest to {p!r} is cell {cand}")
    return ("D6:pixel-id", f"{what} (axis {coords[0]!r}..{coords[-1]!r}, {len(coords)} cells) but _get_pixel_id gives {got}")


# ---------------------------------------------------------------- stream: coordinate -> pixel
STEPS_DYADIC = ["1", "1/2", "1/4", "2", "30", "5/2"]
STEPS_FRAC = ["1/10", "1/3", "7/10", "3/10", "1/1000", "10/3"]
OFFSETS = ["0", "2", "-73/10", "4001/4", "-1/3", "500000"]
FRACS_SAFE = ["0", "0", "0", "1/4", "-1/4", "2/5", "-2/5", "9/20", "-9/20", "1/10"]


def gen_axis(rng, nmax=12, frac_only=False):
    step = F(rng.choice(STEPS_FRAC if frac_only or rng.random() < 0.6 else STEPS_DYADIC))
    dyadic = step.denominator & (step.denominator - 1) == 0
    c0 = F(rng.choice(OFFSETS))
    if dyadic and (c0.denominator & (c0.denominator - 1)) != 0:
        dyadic = False
    if rng.random() < 0.5:
        step = -step
    n = rng.randrange(2, nmax + 1)
    return c0, step, n, dyadic


def gen_point(rng, c0, step, n, dyadic, outside_p=0.06):
    """a coordinate meant for cell i: centre + fraction of a cell (never near a tie unless exact)"""
    i = rng.randrange(n)
    fr = F(rng.choice(FRACS_SAFE + (["1/2", "-1/2"] if dyadic else [])))
    r = rng.random()
    if r < outside_p:
        i, fr = n - 1, F(rng.choice(["3/5", "1", "17/5"]))         # beyond the far end
    elif r < 2 * outside_p:
        i, fr = 0, -F(rng.choice(["3/5", "1", "17/5"]))           # before the first centre (the code mirrors)
    return F(c0) + (i + fr) * step


def pixel_case(rng):
    c0, step, n, dyadic = gen_axis(rng)
    p = gen_point(rng, c0, step, n, dyadic)
    return dict(kind="pixel", c0=ftok(c0), step=ftok(step), n=n, p=ftok(p), res=rng.random() < 0.3)


def real_pixel(case):
    from xrspatial.pathfinding import _get_pixel_id
    n = case["n"]
    ys = axis(case["c0"], case["step"], n)
    attrs = {"res": (float(abs(F(case["step"]))), float(abs(F(case["step"]))))} if case["res"] else {}
    ras = xr.DataArray(np.zeros((n, n)), dims=["y", "x"], coords={"y": ys, "x": ys}, attrs=attrs)
    p = float(F(case["p"]))
    try:
        py, px = _get_pixel_id((p, p), ras, "x", "y")
    except (OverflowError, ValueError, ZeroDivisionError) as ex:
        return "err:" + type(ex).__name__, ys, p
    return (py, px), ys, p


def run_pixel(r, n_cases, own_sweep):
    cases = [pixel_case(r.rng) for _ in range(n_cases)]
    if own_sweep:
        # every cell's own coordinate on every fractional step / offset / direction
        for st in STEPS_FRAC + STEPS_DYADIC:
            for c0 in OFFSETS:
                for sgn in (1, -1):
                    n = 12
                    for i in range(n):
                        step = sgn * F(st)
                        cases.append(dict(kind="pixel", c0=c0, step=ftok(step), n=n, p=ftok(F(c0) + i * step), res=False))
    reqs, keep = [], []
    for c in cases:
        got, ys, p = real_pixel(c)
        own = any(float(y) == p for y in ys)
        r.case(c, desc=c if len(keep) < 1 else None, nontrivial=True,
               tags=["stream:pixel", "pixel:own-coordinate" if own else "pixel:offset-point",
                     "axis:" + ("descending" if F(c["step"]) < 0 else "ascending"),
                     "step:" + ("dyadic" if F(c["step"]).denominator in (1, 2, 4) else "fractional")])
        if isinstance(got, tuple):
            for g in set(got):
                bad = oracle_pixel(ys, c["res"], p, g)
                if bad:
                    r.fail(bad[0], bad[1], c)
                    break
        reqs.append(f"pixelid c0={c['c0']} cell={ftok(abs(F(c['step'])))} p={c['p']}")
        keep.append((c, got))
    for (c, got), rep in zip(keep, Driver().ask(reqs)):
        want = (int(rep), int(rep)) if rep.lstrip("-").isdigit() else rep
        if got != want:
            r.disagree("pixel", c, f"_get_pixel_id -> {got}", f"pixelId -> {rep}")


# ---------------------------------------------------------------- stream: snapping
def gen_grid(rng, h, w, density, nan_p=0.0, values=(0, 1, 2, 3)):
    """cell values; barriers are chosen by the caller among `values`"""
    g = [[float(rng.choice(values[1:])) if rng.random() >= density else float(values[0]) for _ in range(w)] for _ in range(h)]
    if nan_p:
        for i in range(h):
            for j in range(w):
                if rng.random() < nan_p:
                    g[i][j] = float("nan")
    return g


def snap_case(data, py, px, barriers=(0,)):
    return dict(kind="snap", data=[[tok(v) for v in row] for row in data], barriers=list(barriers), py=py, px=px)


def real_snap(case):
    from xrspatial.pathfinding import _find_nearest_pixel
    data = np.array([[untok(t) for t in row] for row in case["data"]], dtype=np.float64)
    y, x = _find_nearest_pixel(case["py"], case["px"], data, np.array([float(b) for b in case["barriers"]]))
    return (int(y), int(x)), data


def oracle_snap(case, got, data):
    cross = crossable(data, [float(b) for b in case["barriers"]])
    want = nearest_crossable(cross, case["py"], case["px"])
    if not want:
        return None if got == (-1, -1) else ("snap", f"no crossable cell, _find_nearest_pixel returned {got}")
    if got in want:
        return None
    return ("D7:snap", f"nearest crossable cell(s) to {(case['py'], case['px'])} are {sorted(want)} "
                       f"but _find_nearest_pixel returned {got}")


def run_snap(r, n_random, lone_max):
    cases = []
    # a lone crossable cell anywhere, queried from every cell: all shapes up to lone_max
    for h in range(1, lone_max + 1):
        for w in range(1, lone_max + 1):
            for cy in range(h):
                for cx in range(w):
                    data = [[1.0 if (i, j) == (cy, cx) else 0.0 for j in range(w)] for i in range(h)]
                    for py in range(h):
                        for px in range(w):
                            cases.append(snap_case(data, py, px))
    for _ in range(n_random):
        h, w = r.rng.randrange(1, 9), r.rng.randrange(1, 9)
        data = gen_grid(r.rng, h, w, r.rng.choice([0.5, 0.8, 0.95]), nan_p=r.rng.choice([0, 0.1]))
        cases.append(snap_case(data, r.rng.randrange(h), r.rng.randrange(w), barriers=r.rng.choice([(0,), (0, 2), ()])))
    reqs, keep = [], []
    for c in cases:
        got, data = real_snap(c)
        r.case(c, desc=c if not keep else None, nontrivial=True, tags=["stream:snap"])
        bad = oracle_snap(c, got, data)
        if bad:
            r.fail(bad[0], bad[1], c)
        h, w = data.shape
        reqs.append(f"nearest data={h}x{w}:" + ",".join(t for row in c["data"] for t in row)
                    + " barriers=" + ",".join(tok(b) for b in c["barriers"]) + f" py={c['py']} px={c['px']}")
        keep.append((c, got))
    for (c, got), rep in zip(keep, Driver().ask(reqs)):
        want = (-1, -1) if rep == "none" else tuple(int(t) for t in rep.split(","))
        if got != want:
            r.disagree("snap", c, f"_find_nearest_pixel -> {got}", f"findNearest -> {rep}")


# ---------------------------------------------------------------- stream: full searches
def search_case(data, barriers, conn, y0, ystep, x0, xstep, sy, sx, gy, gx, snaps, snapg, res=False):
    return dict(kind="search", data=[[tok(v) for v in row] for row in data], barriers=list(barriers), conn=conn,
                y0=ftok(y0), ystep=ftok(ystep), x0=ftok(x0), xstep=ftok(xstep),
                sy=ftok(sy), sx=ftok(sx), gy=ftok(gy), gx=ftok(gx), snaps=int(snaps), snapg=int(snapg), res=bool(res))


def unit_case(data, conn, s, g, snaps=0, snapg=0, descending=False):
    """integer-spaced coordinates (optionally descending rows, like the repo's tests)"""
    h, w = len(data), len(data[0])
    y0, ystep = (h - 1, -1) if descending else (0, 1)
    return search_case(data, (0,), conn, y0, ystep, 0, 1, y0 + ystep * s[0], s[1], y0 + ystep * g[0], g[1], snaps, snapg,
                       res=(h < 2 or w < 2))


def maze_case(rng, hmax=8):
    h, w = rng.randrange(2, hmax + 1), rng.randrange(2, hmax + 1)
    barriers = rng.choice([(0,), (0,), (0, 2), ()])
    data = gen_grid(rng, h, w, rng.choice([0.15, 0.3, 0.4, 0.5]), nan_p=rng.choice([0, 0, 0.08]))
    if rng.random() < 0.5:
        y0, ystep, _, dy = gen_axis(rng)
        x0, xstep, _, dx = gen_axis(rng)
    else:
        y0, ystep, dy = F(rng.choice(["0", "3", "-2"])), F(rng.choice(["1", "-1"])), True
        x0, xstep, dx = F(rng.choice(["0", "10"])), F(1), True
    free = [(i, j) for i in range(h) for j in range(w)
            if not math.isnan(data[i][j]) and data[i][j] not in barriers]
    def pick():
        if free and rng.random() < 0.8:
            return rng.choice(free)
        return (rng.randrange(h), rng.randrange(w))
    def coord(c0, step, i, dyadic, n):
        fr = F(rng.choice(FRACS_SAFE + (["1/2", "-1/2"] if dyadic else [])))
        r_ = rng.random()
        if r_ < 0.02:
            i, fr = n - 1, F("3/5")
        elif r_ < 0.04:
            i, fr = 0, F("-3/5")
        return c0 + (i + fr) * step
    s, g = pick(), pick()
    return search_case(data, barriers, rng.choice([4, 8]), y0, ystep, x0, xstep,
                       coord(y0, ystep, s[0], dy, h), coord(x0, xstep, s[1], dx, w),
                       coord(y0, ystep, g[0], dy, h), coord(x0, xstep, g[1], dx, w),
                       rng.random() < 0.3, rng.random() < 0.3, res=rng.random() < 0.2)


# ---- long grids with walls: two routes round the ends of a wall whose costs a + b*sqrt2 nearly tie
_NB = {}


def numba_dijkstra():
    """exact Dijkstra in numba (costs as integer pairs (a, b) = a + b*sqrt2, compared in integers); returns the
    jitted function (cross, conn8, sy, sx) -> (A, B), -1 = unreachable.  Independent of the code under test."""
    if "dij" in _NB:
        return _NB["dij"]
    from numba import njit

    @njit(cache=True)
    def ab_lt(a1, b1, a2, b2):
        p = a1 - a2
        q = b2 - b1
        if p < 0:
            if q >= 0:
                return True
            return 2 * q * q < p * p
        if q <= 0:
            return False
        return p * p < 2 * q * q

    @njit(cache=True)
    def dij(cross, conn8, sy, sx):
        h, w = cross.shape
        A = np.full((h, w), -1, np.int64)
        B = np.full((h, w), -1, np.int64)
        done = np.zeros((h, w), np.bool_)
        if not cross[sy, sx]:
            return A, B
        A[sy, sx] = 0
        B[sy, sx] = 0
        while True:
            by = -1
            bx = -1
            for i in range(h):
                for j in range(w):
                    if A[i, j] >= 0 and not done[i, j]:
                        if by < 0 or ab_lt(A[i, j], B[i, j], A[by, bx], B[by, bx]):
                            by = i
                            bx = j
            if by < 0:
                break
            done[by, bx] = True
            for dy in range(-1, 2):
                for dx in range(-1, 2):
                    if dy == 0 and dx == 0:
                        continue
                    diag = dy != 0 and dx != 0
                    if diag and not conn8:
                        continue
                    y = by + dy
                    x = bx + dx
                    if y < 0 or y >= h or x < 0 or x >= w:
                        continue
                    if not cross[y, x] or done[y, x]:
                        continue
                    na = A[by, bx] + (0 if diag else 1)
                    nb = B[by, bx] + (1 if diag else 0)
                    if A[y, x] < 0 or ab_lt(na, nb, A[y, x], B[y, x]):
                        A[y, x] = na
                        B[y, x] = nb
        return A, B

    _NB["dij"] = dij
    return dij


WALL_SIZES_QUICK = [(12, 40), (14, 48), (16, 56), (18, 62), (18, 62), (20, 70)]
WALL_SIZES_BIG = [(24, 90), (30, 110), (36, 140)]


def wall_group(rng, sizes):
    """one long raster T x L with a wall across it near one end (straight, or L/T-shaped with an arm along the long
    axis), free cells at one or both ends of the wall, a start behind the wall and a set of goals far on the other
    side: goals in line (same row / exact diagonal) with a free end of the wall -- so that the best route finishes
    with a long straight run -- plus goals anywhere.  Then transposed / mirrored at random, and searched in either
    direction.  Returns (grid, conn, [(start, goal), ...])."""
    T, L = rng.choice(sizes)
    back = rng.randrange(1, 4)                   # columns behind the wall
    c = L - 1 - back
    a = rng.choice([1, 1, 1, 2, 3])              # free rows above the wall
    b = rng.choice([1, 1, 1, 2, 3]) if rng.random() < 0.85 else 0
    blocks = [[a, T - 1 - b, c, c]]
    shape = rng.choice(["straight", "straight", "arm", "arm", "two-arms"])
    if shape != "straight":
        for end_row in ([a], [T - 1 - b], [a, T - 1 - b])[0 if shape == "arm" and rng.random() < 0.5 else 1 if shape == "arm" else 2]:
            k = rng.randrange(1, 7)
            if rng.random() < 0.5:
                blocks.append([end_row, end_row, max(0, c - k), c])          # arm towards the goal side
            elif back > 1:
                blocks.append([end_row, end_row, c, min(L - 2, c + k)])      # arm towards the start side
    blocked = {(i, j) for r0, r1, c0, c1 in blocks for i in range(r0, r1 + 1) for j in range(c0, c1 + 1)}
    starts = [(i, j) for i in range(T) for j in range(c + 1, L) if (i, j) not in blocked]
    S = rng.choice(starts)
    gap_rows = list(range(0, a)) + list(range(T - b, T))
    goals = set()
    for gr in gap_rows:
        for x in (0, 1, rng.randrange(0, max(1, c // 3))):
            goals.add((gr, x))                                      # same row as a free end of the wall
        for sgn in (1, -1):                                         # on the exact diagonal through it
            k = rng.randrange(T // 2, T)
            y, x = gr + sgn * k, c - k
            if 0 <= y < T and 0 <= x:
                goals.add((y, max(0, x - rng.choice([0, 0, 5, 20]))))
    for _ in range(T):
        goals.add((rng.randrange(T), rng.randrange(0, max(1, c // 2))))
    goals = sorted(g for g in goals if g not in blocked)
    conn = 8 if rng.random() < 0.8 else 4
    tr, fr, fc = rng.random() < 0.5, rng.random() < 0.5, rng.random() < 0.5

    def cell(p):
        y, x = p
        if fr:
            y = T - 1 - y
        if fc:
            x = L - 1 - x
        return (x, y) if tr else (y, x)

    def rect(bl):
        (y0, x0), (y1, x1) = cell((bl[0], bl[2])), cell((bl[1], bl[3]))
        return [min(y0, y1), max(y0, y1), min(x0, x1), max(x0, x1)]
    grid = dict(h=L if tr else T, w=T if tr else L, blocks=[rect(bl) for bl in blocks])
    pairs = []
    for G in goals:
        s_, g_ = cell(S), cell(G)
        pairs.append((g_, s_) if rng.random() < 0.5 else (s_, g_))
    return grid, conn, pairs, shape, cell(S)


def wall_cases(rng, n_groups, sizes):
    out = []
    for gi in range(n_groups):
        grid, conn, pairs, shape, pivot = wall_group(rng, sizes)
        desc = rng.random() < 0.5
        h = grid["h"]
        y0, ystep = (h - 1, -1) if desc else (0, 1)
        for s_, g_ in pairs:
            out.append(dict(kind="search", grid=grid, barriers=[0], conn=conn, y0=str(y0), ystep=str(ystep), x0="0", xstep="1",
                            sy=str(y0 + ystep * s_[0]), sx=str(s_[1]), gy=str(y0 + ystep * g_[0]), gx=str(g_[1]),
                            snaps=0, snapg=0, res=False, group=gi, shape=shape,
                            scell=list(s_), gcell=list(g_), pivot=list(pivot)))
    return out


def run_walls(r, n_groups, sizes, stop_after=None, batch=1500):
    """the long-grid family: the real function against the exact numba Dijkstra (no model run: the functional
    model is not meant for thousand-cell rasters).  Returns the number of failures found."""
    dij = numba_dijkstra()
    cases = wall_cases(r.rng, n_groups, sizes)
    found = 0
    cache = {}
    for k in range(0, len(cases), batch):
        chunk = cases[k:k + batch]
        for c, (status, out) in zip(chunk, guarded_search(chunk)):
            if status == "skipped":
                r.tag("skipped-after-hangs")
                continue
            S, G = tuple(c["scell"]), tuple(c["gcell"])
            key = c["group"]
            if key not in cache:
                # every pair of a group shares the cell behind the wall: one Dijkstra from it serves all (costs are symmetric)
                cache.clear()
                cross = crossable_exact(c)
                pv = tuple(c["pivot"])
                cache[key] = (cross,) + tuple(dij(cross, c["conn"] == 8, pv[0], pv[1]))
            cross, A, B = cache[key]
            other = G if S == tuple(c["pivot"]) else S
            best = {G: (int(A[other]), int(B[other]))} if A[other] >= 0 else {}
            nn = 0 if out is None else int((~np.isnan(out)).sum())
            r.case({k_: v for k_, v in c.items() if k_ != "group"}, desc=None, nontrivial=(nn != 1),
                   tags=["stream:walls", f"conn:{c['conn']}", f"status:{status}", "wall:" + c["shape"],
                         "result:" + ("error" if out is None else "all-nan" if nn == 0 else "single-cell" if nn == 1 else "path"),
                         f"size:{c['grid']['h']}x{c['grid']['w']}"])
            if status == "hang":
                r.fail("hang", f"a_star_search did not return within {HANG_S:.0f} s on a {c['grid']['h']}x{c['grid']['w']} raster", c)
                found += 1
                continue
            if status != "ok":
                r.fail("path", f"start cell {S} and goal cell {G} lie inside the raster but the call raised {status}", c)
                found += 1
                continue
            bad = check_path(out, cross, c["conn"], S, G, best=best)
            if bad:
                r.fail("path", f"start cell {S}, goal cell {G}: {bad}", c)
                found += 1
        if stop_after is not None and found >= stop_after:
            break
    return found


# ---- surfaces of every dtype x barrier lists the dtype cannot hold
DTYPES = list(INT_RANGE) + list(FLOAT_DT)
F32_TENTH = float(np.float32(0.1))          # a float32 value that is not the float64 0.1


def ftoken(x):
    """typed barrier token of a Python float"""
    return "f:" + tok(float(x))


def exact_of(x):
    if isinstance(x, int):
        return Fraction(x)
    if x != x:
        return "nan"
    if math.isinf(x):
        return "inf" if x > 0 else "-inf"
    return Fraction(x)


def numpy_holds(objs):
    """np.array(list) keeps every listed number exactly (no object array, no int -> float rounding)"""
    if not objs:
        return True
    try:
        arr = np.array(objs)
    except (OverflowError, ValueError, TypeError):
        return False
    if arr.dtype == object:
        return False
    for a, o in zip(arr.tolist(), objs):
        if exact_of(a) != exact_of(o):
            return False
    return True


EXACT_CELL = 2 ** 52          # |cell| <= 2^52: `==` against any listed number is the same in exact arithmetic and under
#                               NumPy/numba promotion (a 64-bit integer beyond 2^53 compared with a float64 or a
#                               differently signed integer is compared in float64 by the platform: not judged)


def dtype_case(rng):
    """a small maze in one of the ten numeric dtypes; the barrier list mixes values of the surface with numbers the
    dtype cannot hold (outside its range by a multiple of 2^bits, fractional, NaN, +-inf, 64-bit extremes, negative for
    unsigned, float32 neighbours) and duplicates.  Which cells are barriers is decided by the oracle in exact arithmetic."""
    dt = rng.choice(DTYPES)
    h, w = rng.randrange(2, 7), rng.randrange(2, 7)
    if dt in INT_RANGE:
        lo, hi = INT_RANGE[dt]
        bits = (hi - lo + 1).bit_length() - 1
        pool = [0, 1, 2, 3, 5, 21, 127, hi, hi - 1, lo, lo + 1, -1, 241, 255, (hi + 1) // 2, EXACT_CELL, -EXACT_CELL]
        pool = sorted({v for v in pool if lo <= v <= hi and abs(v) <= EXACT_CELL})
    else:
        bits = None
        pool = [0.0, 1.0, 2.0, 3.0, 0.5, 2.5, -1.0, 16777216.0, F32_TENTH, 255.0]
        if dt == "float64":
            pool += [0.1, 16777217.0, 1.0 + 2.0 ** -30, float(EXACT_CELL)]
        if rng.random() < 0.15:
            pool += [float("inf"), float("-inf")]
    vals = rng.sample(pool, min(len(pool), rng.randrange(2, 5)))
    floor_v, others = vals[0], vals[1:]
    dens = rng.choice([0.15, 0.3, 0.45])
    data = [[(rng.choice(others) if rng.random() < dens else floor_v) for _ in range(w)] for _ in range(h)]
    if dt in FLOAT_DT and rng.random() < 0.3:
        for i in range(h):
            for j in range(w):
                if rng.random() < 0.08:
                    data[i][j] = float("nan")

    def near(v):
        """a number that is NOT v but that a conversion to the surface dtype may turn into v"""
        k = rng.random()
        if dt in INT_RANGE:
            if k < 0.45:
                return "i:%d" % (v + rng.choice([1, -1, 2, -2]) * 2 ** bits)
            if k < 0.8:
                x = v + rng.choice([0.5, -0.5, 0.25, 0.75, -0.25])
                return ftoken(x) if abs(v) < 2 ** 40 else "i:%d" % (v + 2 ** bits)
            if k < 0.9:
                return "i:%d" % (v + 2 ** 64)
            return "i:%d" % (-v if v else 2 ** bits)
        if isinstance(v, float) and (v != v or math.isinf(v)):
            return "f:nan"
        if dt == "float32":
            x = rng.choice([v + 2.0 ** -30, v * (1 + 2.0 ** -40), 0.1 if v == F32_TENTH else v + 2.0 ** -28,
                            16777217.0 if v == 16777216.0 else v - 2.0 ** -31])
            return ftoken(x) if np.float32(x) == np.float32(v) and x != v else ("i:16777217" if v == 16777216.0 else "f:nan")
        x = rng.choice([float(np.float32(v)) if float(np.float32(v)) != v else v + 0.5, v + 0.5])
        return ftoken(x)

    def plain(v):
        if dt in INT_RANGE:
            return rng.choice(["i:%d" % v, ftoken(float(v))]) if abs(v) < 2 ** 53 else "i:%d" % v
        if v != v or math.isinf(v):
            return ftoken(v)
        return rng.choice([ftoken(v), "i:%d" % int(v)]) if v == int(v) and abs(v) < 2 ** 53 else ftoken(v)

    bar = []
    for _ in range(rng.choice([0, 1, 1, 2, 2, 3, 4])):
        k = rng.random()
        if k < 0.3 and others:
            bar.append(plain(rng.choice(others)))
        elif k < 0.75:
            bar.append(near(rng.choice(vals)))
        elif k < 0.85:
            bar.append(rng.choice(["f:nan", "f:inf", "f:-inf"]))
        elif k < 0.93:
            bar.append(rng.choice(["i:%d" % (2 ** 63 - 1), "i:%d" % (-2 ** 63), "i:%d" % (2 ** 64 - 1), "i:-9999", "i:-1",
                                   "i:%d" % 10 ** 18, "f:" + tok(1e300), "f:" + tok(-0.0)]))
        elif bar:
            bar.append(rng.choice(bar))
    case = dict(kind="search", dtype=dt, data=[[tok(v) for v in row] for row in data], bar=bar, barriers=[], conn=rng.choice([4, 8]),
                y0="0", ystep="1", x0="0", xstep="1", snaps=int(rng.random() < 0.25), snapg=int(rng.random() < 0.25), res=False)
    # keep the list within what numpy itself can hold exactly (a 70-bit integer, or an int above 2^53 next to a
    # float, is not a number numpy can pass on: outside the property's domain)
    while not numpy_holds(barrier_objects(case)):
        objs = barrier_objects(case)
        drop = max(range(len(objs)), key=lambda i: abs(objs[i]) if isinstance(objs[i], int) else -1)
        del case["bar"][drop]
    cross = crossable_exact(case)
    free = [(int(i), int(j)) for i, j in np.argwhere(cross)]

    def pick():
        if free and rng.random() < 0.85:
            return rng.choice(free)
        return (rng.randrange(h), rng.randrange(w))
    s_, g_ = pick(), pick()
    case.update(sy=str(s_[0]), sx=str(s_[1]), gy=str(g_[0]), gx=str(g_[1]))
    return case


def exhaustive_cases(shapes, sample=None, rng=None):
    """every barrier layout x start/goal pair x connectivity on the given shapes"""
    for h, w in shapes:
        cellsl = [(i, j) for i in range(h) for j in range(w)]
        layouts = range(2 ** (h * w))
        for m in layouts:
            data = [[0.0 if (m >> (i * w + j)) & 1 else 1.0 for j in range(w)] for i in range(h)]
            for s in cellsl:
                for g in cellsl:
                    for conn in (4, 8):
                        if sample is not None and rng.random() >= sample:
                            continue
                        yield unit_case(data, conn, s, g)


def compare_search(r, stream, case, status, out, rep, report=None):
    """`report`: the case to record with a disagreement (a history) when `case` is only its equivalent fresh search"""
    if report is not None:
        class _R:          # record the history, compute with the equivalent case
            @staticmethod
            def disagree(stream_, _case, real, model):
                r.disagree(stream_, report, real, model)
        return compare_search(_R, stream, case, status, out, rep)
    mstatus, d = parse_reply(rep)
    h, w = len(data_rows(case)), len(data_rows(case)[0])
    if status != "ok" or mstatus != "ok":
        if status != mstatus:
            r.disagree(stream, case, f"a_star_search -> {status}", f"model -> {rep[:200]}")
        return
    if d["F"].startswith("anomaly") or d["Q"].startswith("anomaly"):
        r.disagree(stream, case, "a_star_search returned a raster", f"model -> {rep[:300]}")
        return
    mf = parse_grid(d["F"])
    for i in range(h):
        for j in range(w):
            a, b = float(out[i, j]), mf[i][j]
            if not ((a != a and b != b) or a == b):
                r.disagree(stream, case, f"path[{i},{j}] = {a!r}; raster {np.array2string(out, threshold=200)}",
                           f"model(Float) path[{i},{j}] = {b!r}; reply {rep[:400]}")
                return
    mq = parse_grid(d["Q"], conv=lambda t: None if t == "nan" else tuple(int(v) for v in t.split("+")))
    q_any = any(v is not None for row in mq for v in row)
    if q_any != bool((~np.isnan(out)).any()):
        r.disagree(stream, case, f"all-NaN = {not (~np.isnan(out)).any()}", f"model(exact, Dijkstra) all-NaN = {not q_any}")
        return
    if q_any:
        qa, qb = max((v for row in mq for v in row if v is not None), key=lambda v: v[0] + v[1] * SQRT2)
        top = float(np.nanmax(out))
        if abs(top - (qa + qb * SQRT2)) > 1e-9:
            r.disagree(stream, case, f"goal value {top!r}", f"model(exact, Dijkstra) minimum {qa}+{qb}*sqrt2")


def run_searches(r, stream, cases, tags_of=None):
    reqs, keep = [], []
    cases = list(cases)
    for c, (status, out) in zip(cases, guarded_search(cases)):
        if status == "skipped":
            r.tag("skipped-after-hangs")
            continue
        bad = oracle_search(c, status, out)
        nn = 0 if out is None else int((~np.isnan(out)).sum())
        tags = [f"stream:{stream}", f"conn:{c['conn']}", f"status:{status}",
                "result:" + ("error" if out is None else "all-nan" if nn == 0 else "single-cell" if nn == 1 else "path"),
                f"snap:{c['snaps']}{c['snapg']}"]
        if stream == "dtypes":
            tags.append("dtype:" + c["dtype"])
            objs = barrier_objects(c)
            lo, hi = INT_RANGE.get(c["dtype"], (None, None))
            for o in objs:
                if isinstance(o, float) and (o != o or math.isinf(o)):
                    tags.append("barrier:nan-or-inf")
                elif lo is not None and isinstance(o, float) and o != int(o):
                    tags.append("barrier:fractional-for-int-surface")
                elif lo is not None and not lo <= o <= hi:
                    tags.append("barrier:outside-dtype-range")
                elif lo is None and isinstance(o, float) and c["dtype"] == "float32" and float(np.float32(o)) != o:
                    tags.append("barrier:not-a-float32")
                else:
                    tags.append("barrier:representable")
            if len(set(map(repr, objs))) < len(objs):
                tags.append("barrier:duplicates")
        if stream == "mazes":
            tags.append("coords:" + ("fractional" if any(F(c[k]).denominator not in (1, 2, 4) for k in ("ystep", "xstep", "y0", "x0")) else "dyadic"))
            tags.append("rows:" + ("descending" if F(c["ystep"]) < 0 else "ascending"))
        r.case(c, desc=c if not keep else None, nontrivial=(nn != 1), tags=tags)
        if out is not None and nn > 1:
            r.tag("path_cells", nn)
        if bad:
            r.fail(bad[0], bad[1], c)
        reqs.append(search_request(c))
        keep.append((c, status, out))
    for (c, status, out), rep in zip(keep, Driver().ask(reqs)):
        compare_search(r, stream, c, status, out, rep)


# ---------------------------------------------------------------- stream: histories
# Several searches in a row on rasters *derived from one another* by attrs-preserving xarray operations.  Every search is
# judged by the same independent oracle as a search on a fresh raster, from the derived raster's own coordinates: a
# search must not depend on what was searched before (state kept on the caller's objects, e.g. something remembered in
# `attrs` that xarray carries through slicing / assign_coords / copy, is what this stream is after).
SCALES = ["30", "2", "1/2", "1000", "-1", "3", "1/4", "-30"]
SHIFTS = ["1000", "-1/2", "500000", "-73/10", "1/4", "-3"]


def geo_of(base):
    """symbolic description of a raster: which rows / columns of the base data it holds, exact origin and step per axis"""
    rows = data_rows(base)
    return dict(rows=list(range(len(rows))), cols=list(range(len(rows[0]))), y0=F(base["y0"]), ystep=F(base["ystep"]),
                x0=F(base["x0"]), xstep=F(base["xstep"]))


def derive_geo(g, op):
    """the description of the raster the operation yields; None when it is not applicable (fewer than two rows / columns)"""
    g = dict(g)
    k = op["op"]
    if k == "stride":
        for ax, c0, st, idx in (("y", "y0", "ystep", "rows"), ("x", "x0", "xstep", "cols")):
            sl = slice(*op[ax])
            sel = g[idx][sl]
            if len(sel) < 2:
                return None
            first = range(len(g[idx]))[sl][0]
            g[c0] = g[c0] + first * g[st]
            g[st] = g[st] * (sl.step or 1)
            g[idx] = sel
    elif k == "scale":
        g["y0"], g["ystep"] = g["y0"] * F(op["y"]), g["ystep"] * F(op["y"])
        g["x0"], g["xstep"] = g["x0"] * F(op["x"]), g["xstep"] * F(op["x"])
    elif k == "shift":
        g["y0"], g["x0"] = g["y0"] + F(op["y"]), g["x0"] + F(op["x"])
    elif k not in ("transpose2", "copy", "like-result"):
        raise ValueError(k)
    return g


def op_text(op):
    k = op["op"]
    if k == "stride":
        def sl(t):
            lo, hi, st = t
            return f"{'' if lo is None else lo}:{'' if hi is None else hi}" + ("" if st in (None, 1) else f":{st}")
        if op["via"] == "getitem":
            return f"[{sl(op['y'])}, {sl(op['x'])}]"
        return f".isel(y=slice{tuple(op['y'])}, x=slice{tuple(op['x'])})"
    if k == "scale":
        return f".assign_coords(y=y*{op['y']}, x=x*{op['x']})"
    if k == "shift":
        return f".assign_coords(y=y+{op['y']}, x=x+{op['x']})"
    if k == "transpose2":
        return ".transpose('x','y').transpose('y','x')"
    if k == "copy":
        return f".copy(deep={op['deep']})"
    if k == "like-result":
        return " -> DataArray(its data, coords/dims/attrs of the last result)"
    if k == "back":
        return f" <back to raster #{op['to']}>"
    return "?"


def apply_op(ras, op, geo2, last_out, res):
    """the xarray operation itself; a caller who supplied `res` keeps it equal to the spacing (assign_attrs)"""
    k = op["op"]
    if k == "stride":
        sy, sx = slice(*op["y"]), slice(*op["x"])
        new = ras[sy, sx] if op["via"] == "getitem" else ras.isel(y=sy, x=sx)
    elif k == "scale":
        co = {}
        if F(op["y"]) != 1:
            co["y"] = ras["y"] * float(F(op["y"]))
        if F(op["x"]) != 1:
            co["x"] = ras["x"] * float(F(op["x"]))
        new = ras.assign_coords(**co)
    elif k == "shift":
        co = {}
        if F(op["y"]) != 0:
            co["y"] = ras["y"] + float(F(op["y"]))
        if F(op["x"]) != 0:
            co["x"] = ras["x"] + float(F(op["x"]))
        new = ras.assign_coords(**co)
    elif k == "transpose2":
        new = ras.transpose("x", "y").transpose("y", "x")
    elif k == "copy":
        new = ras.copy(deep=bool(op["deep"]))
    elif k == "like-result":
        if last_out is None:
            new = ras.copy(deep=False)
        else:
            new = xr.DataArray(ras.data, coords=last_out.coords, dims=last_out.dims, attrs=last_out.attrs)
    else:
        raise ValueError(k)
    if res and k in ("stride", "scale"):
        new = new.assign_attrs(res=(float(abs(geo2["xstep"])), float(abs(geo2["ystep"]))))
    return new


def eq_case(base, geo, st):
    """the search of a history step as a search on a freshly built raster (same data, same exact coordinates)"""
    rows = data_rows(base)
    c = dict(kind="search", data=[[rows[i][j] for j in geo["cols"]] for i in geo["rows"]], barriers=list(base["barriers"]),
             conn=st["conn"], y0=ftok(geo["y0"]), ystep=ftok(geo["ystep"]), x0=ftok(geo["x0"]), xstep=ftok(geo["xstep"]),
             sy=ftok(geo["y0"] + (st["s"][0] + F(st["sfr"][0])) * geo["ystep"]),
             sx=ftok(geo["x0"] + (st["s"][1] + F(st["sfr"][1])) * geo["xstep"]),
             gy=ftok(geo["y0"] + (st["g"][0] + F(st["gfr"][0])) * geo["ystep"]),
             gx=ftok(geo["x0"] + (st["g"][1] + F(st["gfr"][1])) * geo["xstep"]),
             snaps=int(st["snaps"]), snapg=int(st["snapg"]), res=bool(base.get("res")))
    if "bar" in base:
        c["bar"] = list(base["bar"])
    return c


def walk_history(case):
    """symbolic run: yields (step, geo of the raster it applies to, geo after it) -- raises ValueError when the history is
    not well formed (an operation that leaves fewer than 2 rows, a cell outside the raster, an unknown raster)"""
    stack = [geo_of(case["base"])]
    cur = 0
    for st in case["steps"]:
        g = stack[cur]
        if st["op"] == "search":
            h, w = len(g["rows"]), len(g["cols"])
            if not (0 <= st["s"][0] < h and 0 <= st["g"][0] < h and 0 <= st["s"][1] < w and 0 <= st["g"][1] < w):
                raise ValueError("cell outside the derived raster")
            yield st, g, g
        elif st["op"] == "back":
            if not 0 <= st["to"] < len(stack):
                raise ValueError("unknown raster")
            cur = st["to"]
            yield st, g, stack[cur]
        else:
            g2 = derive_geo(g, st)
            if g2 is None:
                raise ValueError("not applicable")
            stack.append(g2)
            cur = len(stack) - 1
            yield st, g, g2


def real_history(case):
    """run the whole history on the real code in this process and judge every search with the oracle, on the raster that
    was searched.  -> ('ok', [dict(status, out, bad, notes, eq, path)])"""
    import copy
    from xrspatial import a_star_search
    base = case["base"]
    stack = [[_make_raster(base), None, "surface"]]          # raster, last result on it, how it was made
    cur = 0
    supplied = dict(stack[0][0].attrs)
    results = []
    for st, g, g2 in walk_history(case):
        ras, last, how = stack[cur]
        if st["op"] == "back":
            cur = st["to"]
            continue
        if st["op"] != "search":
            new = apply_op(ras, st, g2, last, bool(base.get("res")))
            stack.append([new, None, how + op_text(st)])
            cur = len(stack) - 1
            continue
        eq = eq_case(base, g, st)
        notes = []
        attrs0 = copy.deepcopy(dict(ras.attrs))
        if set(attrs0) != set(supplied):
            notes.append(f"the raster carries attrs the caller never supplied: {attrs0} (supplied: {sorted(supplied)})")
        ys0, xs0 = np.array(ras["y"].data, copy=True), np.array(ras["x"].data, copy=True)
        data0 = np.array(ras.data, copy=True)
        start = (float(F(eq["sy"])), float(F(eq["sx"])))
        goal = (float(F(eq["gy"])), float(F(eq["gx"])))
        out = None
        try:
            res = a_star_search(ras, start, goal, barriers=barrier_objects(eq), connectivity=eq["conn"],
                                snap_start=bool(eq["snaps"]), snap_goal=bool(eq["snapg"]))
            status, out = "ok", np.asarray(res.data, dtype=np.float64)
            stack[cur][1] = res
        except (ValueError, ZeroDivisionError, IndexError, OverflowError) as ex:
            status = "err:" + type(ex).__name__
        if dict(ras.attrs) != attrs0:
            notes.append(f"a_star_search changed the attrs of its input surface: {attrs0} -> {dict(ras.attrs)}")
        if not (np.array_equal(ys0, ras["y"].data) and np.array_equal(xs0, ras["x"].data)):
            notes.append("a_star_search changed the coordinates of its input surface")
        if not np.array_equal(data0, np.asarray(ras.data), equal_nan=True):
            notes.append("a_star_search changed the data of its input surface")
        bad = oracle_search(eq, status, out, ras=ras)
        results.append(dict(status=status, out=out, bad=bad, notes=notes, eq=eq, path=how))
    return "ok", results


def random_op(rng, has_result):
    k = rng.random()
    if k < 0.45:
        def sl():
            t = rng.random()
            if t < 0.30:
                return [None, None, 2]
            if t < 0.45:
                return [1, None, 2]
            if t < 0.55:
                return [None, None, 3]
            if t < 0.65:
                return [None, None, -1]
            if t < 0.72:
                return [None, None, -2]
            if t < 0.80:
                return [1, -1, 1]
            return [None, None, 1]
        y, x = sl(), sl()
        if y[2] == 1 and x[2] == 1 and y[0] is None and x[0] is None:
            y = [None, None, 2]
        return dict(op="stride", y=y, x=x, via=rng.choice(["getitem", "getitem", "isel"]))
    if k < 0.65:
        m = rng.choice(SCALES)
        both = rng.random() < 0.6
        return dict(op="scale", y=m, x=m if both else rng.choice(["1", "1", rng.choice(SCALES)]))
    if k < 0.75:
        return dict(op="shift", y=rng.choice(SHIFTS), x=rng.choice(SHIFTS + ["0"]))
    if k < 0.83:
        return dict(op="transpose2")
    if k < 0.91 or not has_result:
        return dict(op="copy", deep=rng.random() < 0.5)
    return dict(op="like-result")


def history_case(rng):
    h, w = rng.randrange(4, 10), rng.randrange(4, 10)
    barriers = rng.choice([(0,), (0,), (0, 2), ()])
    data = gen_grid(rng, h, w, rng.choice([0.1, 0.2, 0.3]), nan_p=rng.choice([0, 0, 0.06]))
    if rng.random() < 0.6:
        y0, ystep, _, _ = gen_axis(rng)
        x0, xstep, _, _ = gen_axis(rng)
    else:
        y0, ystep = F(rng.choice(["0", "3", "-2"])), F(rng.choice(["1", "-1"]))
        x0, xstep = F(rng.choice(["0", "10"])), F(1)
    base = dict(data=[[tok(v) for v in row] for row in data], barriers=list(barriers), y0=ftok(y0), ystep=ftok(ystep),
                x0=ftok(x0), xstep=ftok(xstep), res=rng.random() < 0.35)
    cross0 = crossable_exact(base)
    case = dict(kind="history", base=base, steps=[])
    stack = [geo_of(base)]
    searched = [False]
    cur = 0

    def add_search():
        g = stack[cur]
        cross = cross0[np.ix_(g["rows"], g["cols"])]
        free = [(int(i), int(j)) for i, j in np.argwhere(cross)]
        hh, ww = cross.shape

        def pick():
            if free and rng.random() < 0.85:
                return list(rng.choice(free))
            return [rng.randrange(hh), rng.randrange(ww)]

        def fr():
            return [rng.choice(FRACS_SAFE), rng.choice(FRACS_SAFE)]
        case["steps"].append(dict(op="search", s=pick(), sfr=fr(), g=pick(), gfr=fr(), conn=rng.choice([4, 8]),
                                  snaps=int(rng.random() < 0.2), snapg=int(rng.random() < 0.2)))
        searched[cur] = True

    if rng.random() < 0.9:
        add_search()
    for _ in range(rng.choice([1, 1, 2, 2, 3])):
        if len(stack) > 1 and rng.random() < 0.2:
            cur = rng.randrange(len(stack))
            case["steps"].append(dict(op="back", to=cur))
        for _ in range(rng.choice([1, 1, 1, 2])):
            for _try in range(8):
                op = random_op(rng, searched[cur])
                g2 = derive_geo(stack[cur], op)
                if g2 is not None:
                    break
            else:
                continue
            case["steps"].append(op)
            stack.append(g2)
            searched.append(False)
            cur = len(stack) - 1
        for _ in range(rng.choice([1, 1, 2])):
            add_search()
    return case


def history_verdict(case, results):
    """-> None | (index of the first failing search, key, text)"""
    for k, res in enumerate(results):
        if res["bad"]:
            earlier = [f"search #{i + 1}: {n}" for i, r_ in enumerate(results[:k + 1]) for n in r_["notes"]]
            text = (f"search #{k + 1} of the history, on {res['path']} ({len(res['eq']['data'])}x{len(res['eq']['data'][0])} cells, "
                    f"y = {res['eq']['y0']} + i*{res['eq']['ystep']}, x = {res['eq']['x0']} + j*{res['eq']['xstep']}): {res['bad'][1]}")
            if earlier:
                text += "; " + "; ".join(earlier[:4])
            return k, res["bad"][0], text
    return None


def run_one_history(case):
    """-> (status, results) with hang protection"""
    try:
        list(walk_history(case))
    except ValueError:
        return "malformed", []
    status, results = guarded_map(real_history, [case])[0]
    return status, (results or [])


def truncate_history(case, k):
    """the history up to and including its (k+1)-th search"""
    steps, n = [], 0
    for st in case["steps"]:
        steps.append(st)
        if st["op"] == "search":
            n += 1
            if n == k + 1:
                break
    return dict(case, steps=steps)


def minimise_history(case, k):
    """drop the steps the failure of search #k+1 does not need (a step is dropped when the last search still fails)"""
    cur = truncate_history(case, k)
    i = 0
    while i < len(cur["steps"]) - 1:
        trial = dict(cur, steps=cur["steps"][:i] + cur["steps"][i + 1:])
        status, results = run_one_history(trial)
        if status == "ok" and results and results[-1]["bad"] and all(r_["bad"] is None for r_ in results[:-1]):
            cur = trial
        else:
            i += 1
    return cur


def run_histories(r, n_cases, stop_after=None):
    cases = [history_case(r.rng) for _ in range(n_cases)]
    reqs, keep = [], []
    found = 0
    for c, (status, results) in zip(cases, guarded_map(real_history, cases)):
        if status == "skipped":
            r.tag("skipped-after-hangs")
            continue
        ops = [st["op"] for st in c["steps"]]
        nsearch = ops.count("search")
        tags = ["stream:derived", "res:" + ("caller-supplied" if c["base"]["res"] else "none"), f"searches:{min(nsearch, 5)}",
                "rows:" + ("descending" if F(c["base"]["ystep"]) < 0 else "ascending"),
                "coords:" + ("fractional" if any(F(c["base"][k_]).denominator not in (1, 2, 4) for k_ in ("ystep", "xstep", "y0", "x0")) else "dyadic")]
        tags += sorted({"derive:" + (o if o != "stride" else "stride-" + st["via"]) for o, st in zip(ops, c["steps"]) if o != "search"})
        if ops and ops[0] != "search":
            tags.append("derived-before-any-search")
        r.case(c, desc=c if not keep else None, nontrivial=True, tags=tags)
        if status == "hang":
            r.fail("hang", f"a_star_search did not return within {HANG_S:.0f} s during a history of searches on derived rasters", c)
            found += 1
            continue
        if status != "ok":
            r.fail("history", f"the history of searches raised {status}", c)
            found += 1
            continue
        r.tag("derived:searches", len(results))
        v = history_verdict(c, results)
        if v:
            k, key, text = v
            small = minimise_history(c, k)
            st2, res2 = run_one_history(small)
            v2 = history_verdict(small, res2) if st2 == "ok" else None
            if v2:
                c_rep, key, text = small, v2[1], v2[2]
                eq = res2[v2[0]]["eq"]
            else:
                c_rep, eq = truncate_history(c, k), results[k]["eq"]
            fs, fout = guarded_search([eq])[0]
            if oracle_search(eq, fs, fout) is None:
                key = "history-dependent"
                text += ("; the same search on a freshly built raster with the same data and coordinates is correct: the result "
                         "depends on the calls made before")
            r.fail(key, text, c_rep)
            found += 1
            if stop_after is not None and found >= stop_after:
                break
            continue
        for res in results:
            reqs.append(search_request(res["eq"]))
            keep.append((c, res))
    for (c, res), rep in zip(keep, Driver().ask(reqs)):
        compare_search(r, "derived", res["eq"], res["status"], res["out"], rep, report=c)
    return found


def malformed_cases(rng):
    data = [[1.0, 1.0, 1.0], [1.0, 0.0, 1.0], [1.0, 1.0, 1.0]]
    out = []
    for conn in (5, 0, 6):
        c = unit_case(data, 8, (0, 0), (2, 2))
        c["conn"] = conn
        out.append(c)
    out.append(search_case(data, (0,), 8, 0, 1, 0, 1, 7, 0, 2, 2, 0, 0))      # start beyond the far end
    out.append(search_case(data, (0,), 8, 0, 1, 0, 1, 0, 0, 2, 9, 0, 0))      # goal beyond the far end
    out.append(search_case([[1.0, 1.0, 0.0]], (0,), 8, 0, 1, 0, 1, 0, 0, 0, 1, 0, 0))   # one row, no res: no spacing
    return out


def run_rejections(r):
    """inputs the documented interface rejects (no model counterpart: the model starts at a 2-D raster)"""
    from xrspatial import a_star_search
    base = np.ones((3, 3))
    co = {"y": np.arange(3.0), "x": np.arange(3.0)}
    probes = {
        "3-D surface": lambda: a_star_search(xr.DataArray(np.ones((2, 3, 3)), dims=["b", "y", "x"]), (0, 0), (1, 1)),
        "dims not named as x=/y= say": lambda: a_star_search(xr.DataArray(base, dims=["lat", "lon"],
                                                              coords={"lat": co["y"], "lon": co["x"]}), (0, 0), (1, 1)),
        "dims swapped": lambda: a_star_search(xr.DataArray(base, dims=["x", "y"], coords=co), (0, 0), (1, 1)),
    }
    for name, call in probes.items():
        r.case(dict(kind="reject", what=name), nontrivial=True, tags=["stream:malformed"])
        try:
            call()
            r.fail("malformed", f"{name}: accepted (documented: ValueError)", dict(kind="reject", what=name))
        except ValueError:
            pass
        except Exception as ex:          # noqa: BLE001
            r.fail("malformed", f"{name}: raised {type(ex).__name__} instead of ValueError", dict(kind="reject", what=name))


def corpus_cases(r):
    return [b["case"] if "case" in b else b for b in r.corpus()]


IL_PROGS = ["isNotCrossable", "isInside", "minCostPixelId", "findNearestPixel", "reconstructPath", "aStarSearch"]


def replay_case(r, c):
    """run the oracle for one recorded case; returns the failure text or None"""
    if "prog" in c:      # a case of an `il:<prog>` stream: generated ILang program vs the numba function
        import il_corr
        return f"il:{c['prog']}: generated program and numba function disagree" if il_corr.replay_case(c) else None
    if c["kind"] == "pixel":
        got, ys, p = real_pixel(c)
        if not isinstance(got, tuple):
            return f"_get_pixel_id raised {got}" if nearest_centres(ys, p) is not None else None
        for g in set(got):
            bad = oracle_pixel(ys, c["res"], p, g)
            if bad:
                return bad[1]
        return None
    if c["kind"] == "reject":
        return None
    if c["kind"] == "history":
        status, results = run_one_history(c)
        if status == "hang":
            return "a_star_search did not return during the history"
        if status != "ok":
            return None if status == "malformed" else f"the history raised {status}"
        v = history_verdict(c, results)
        return v[2] if v else None
    if c["kind"] == "snap":
        got, data = real_snap(c)
        bad = oracle_snap(c, got, data)
        return bad[1] if bad else None
    status, out = guarded_search([c])[0]
    bad = oracle_search(c, status, out)
    return bad[1] if bad else None


def key_of(c, text):
    if c["kind"] == "history":
        return "history-dependent"
    if c["kind"] == "search":
        status, out = guarded_search([c])[0]
        bad = oracle_search(c, status, out)
        return bad[0] if bad else "path"
    return {"pixel": "D6:pixel-id", "snap": "D7:snap"}[c["kind"]]


# ---------------------------------------------------------------- the check
def run(r, scale=1):
    quick = r.tier == "quick"
    r.rule = ("pixel: axis = offset + i*step (steps 1,1/2,1/4,2,30,5/2,1/10,1/3,7/10,3/10,1/1000,10/3; both directions; "
              "6 offsets; with/without res attr), point = a cell's own coordinate or centre + {1/4,2/5,9/20,1/10} cell "
              "(exact ties only on dyadic axes), a few outside points; snap: a lone crossable cell at every position "
              "queried from every cell on all shapes up to 4x4 (5x5 thorough) + random sparse grids to 8x8; "
              "exhaustive: every barrier layout x start/goal pair x connectivity 4/8 on grids up to 3x3 (quick: up to "
              "2x3/3x2 complete + a sample of 3x3); mazes: random 2..8 x 2..8 grids, barrier density 0.15-0.5, NaN "
              "cells, 0-2 barrier values, all coordinate kinds, points off-centre, snap on/off; dtypes: 2..6 x 2..6 mazes "
              "in int8..uint64/float32/float64 (cells up to 2^52 in magnitude, dtype extremes, +-inf, NaN), barrier lists of "
              "0-4 Python numbers: surface values (as int or float), values off by k*2^bits / +-0.5 / +-0.25 / 2^64, negative "
              "for unsigned, float32 neighbours, NaN, +-inf, 64-bit extremes, duplicates (only lists np.array holds exactly); "
              "walls: long rasters 12x40..20x70 (thorough: to 36x140) with a straight / L / two-armed wall near one end, "
              "free cells at its ends, start behind it, goals in line or on the diagonal with a free end and anywhere, "
              "transposed/mirrored, both directions, conn 8 (80%) / 4, judged by an exact numba Dijkstra only; "
              "derived: histories of 1-6 searches on rasters derived from one another -- a 4..9 x 4..9 maze (all coordinate "
              "kinds, with / without a caller-supplied res attribute, which the caller keeps equal to the spacing) is searched, "
              "then rasters derived by attrs-preserving xarray operations (strided slicing [a::k, b::m] with k, m in "
              "{1,2,3,-1,-2} via [] or isel, cropping, assign_coords with coordinates rescaled by 30 / 2 / 1/2 / 1000 / -1 / 3 / "
              "1/4 / -30 on one or both axes or shifted, transpose there and back, copy deep / shallow, a DataArray built from "
              "the last result's coords / dims / attrs, going back to an earlier raster) are searched; every search is judged by "
              "the oracle from the derived raster's own coordinates and compared with the model run on the equivalent fresh "
              "raster; attrs / coords / data of the searched raster are compared before and after each call; "
              "il:<prog>: the six generated ILang programs (Gen/IL.lean) vs the numba functions of pathfinding.py on "
              "direct inputs (values NaN/+-0/+-inf/small; barrier lists to 6 entries; costs at / above the (h+w)^2 bound, "
              "ties, NaN; snap classes lone / none / ring / keep; parent forests, unreached and half-set goals; mazes to 7x7 "
              "with walls, islands, blocked end points, start = goal, custom offset arrays of unequal length), results and "
              "every array compared exactly. "
              "Non-trivial = distinct case whose result is not the single start=goal cell.")
    # compile the numba kernels in this process (children are forked from it); the start cell is a
    # barrier, so the search loop is never entered
    real_search(unit_case([[0.0, 0.0], [0.0, 0.0]], 8, (0, 0), (1, 1)))
    # corpus first
    for c in corpus_cases(r):
        txt = replay_case(r, c)
        r.case(c, nontrivial=True, tags=["stream:corpus"])
        if txt:
            r.fail(key_of(c, txt), txt, c)
    run_pixel(r, (1500 if quick else 12000) * scale, own_sweep=True)
    run_snap(r, (300 if quick else 3000) * scale, lone_max=4 if quick else 5)
    small = [(h, w) for h in (1, 2, 3) for w in (1, 2, 3) if h * w <= 6]
    run_searches(r, "exhaustive", exhaustive_cases(small))
    if quick:
        run_searches(r, "exhaustive", exhaustive_cases([(3, 3)], sample=0.05 * scale, rng=r.rng))
    else:
        run_searches(r, "exhaustive", exhaustive_cases([(3, 3)]))
        r.exhaustive = "every barrier layout x start/goal pair x connectivity on all grids up to 3x3 (unit coordinates, snap off)"
    # snapping on the small grids (sampled)
    snap_small = []
    for _ in range((400 if quick else 4000) * scale):
        h, w = r.rng.randrange(2, 4), r.rng.randrange(2, 4)
        m = r.rng.randrange(2 ** (h * w))
        data = [[0.0 if (m >> (i * w + j)) & 1 else 1.0 for j in range(w)] for i in range(h)]
        snap_small.append(unit_case(data, r.rng.choice([4, 8]), (r.rng.randrange(h), r.rng.randrange(w)),
                                    (r.rng.randrange(h), r.rng.randrange(w)), r.rng.random() < 0.7, r.rng.random() < 0.7,
                                    descending=r.rng.random() < 0.5))
    run_searches(r, "small-snap", snap_small)
    run_searches(r, "mazes", [maze_case(r.rng) for _ in range((700 if quick else 15000) * scale)])
    run_searches(r, "dtypes", [dtype_case(r.rng) for _ in range((1500 if quick else 20000) * scale)])
    run_histories(r, (400 if quick else 6000) * scale, stop_after=3)
    run_walls(r, (25 if quick else 500) * scale, WALL_SIZES_QUICK if quick else WALL_SIZES_QUICK + WALL_SIZES_BIG)
    run_searches(r, "malformed", malformed_cases(r.rng))
    run_rejections(r)
    # layer T3: the programs generated statement by statement from pathfinding.py (Gen/IL.lean), the subjects of the
    # refinement theorems il_* of Props/C14.lean, against the numba functions themselves
    import il_corr
    il_corr.stream(r, IL_PROGS, (600 if quick else 6000) * scale)
    r.assumptions += [
        "costs: theorems over exact arithmetic (any ordered field with s*s = 2); the float run is compared bit for bit with the model executed over IEEE doubles",
        "points are taken within half a cell of the axis extent (outside it the code mirrors about the first centre; not judged)",
        "regularly spaced, monotone coordinate axes; `res` attribute, when present, equals the spacing (in the `derived` "
        "stream a caller who supplied `res` re-assigns it after an operation that changes the spacing; a raster without a "
        "caller-supplied `res` is never given one by the harness)",
        "cells up to 2^52 in magnitude (beyond 2^53 numba / NumPy compare mixed 64-bit integers and floats in float64: the "
        "platform's ==, observed, not judged); barrier lists np.array holds exactly (no integer beyond 64 bits, no integer "
        "above 2^53 next to a float)",
    ]
    r.trusted += ["hand model Model/AStar.lean: proved to be computed by the programs generated statement by statement from "
                  "_is_not_crossable, _is_inside, _min_cost_pixel_id, _find_nearest_pixel, _reconstruct_path and _a_star_search "
                  "(layer T3, Gen/IL.lean; theorems il_* of Props/C14.lean, for every number type incl. IEEE doubles); the "
                  "T3 translator harness/facts_il.py is validated by the il:* streams; numba's int64 wrap-around is outside "
                  "ILang (unbounded Int); the wrapper's step order (pixel ids -> inside check -> np.array(barriers) -> snap -> "
                  "search -> DataArray) and _get_pixel_id are tied by the correspondence run and Gen/AStarFacts.lean",
                  "Lean `Float` = IEEE binary64 as in numba (add, sqrt, compare)"]


def search(r):
    """an obligation or the correspondence broke: run the oracles on more (random) cases"""
    quick = r.tier == "quick"
    run_pixel(r, 4000 if quick else 20000, own_sweep=False)
    run_snap(r, 1500 if quick else 6000, lone_max=3)
    run_searches(r, "exhaustive", exhaustive_cases([(3, 3)], sample=0.04 if quick else 0.2, rng=r.rng))
    run_searches(r, "mazes", [maze_case(r.rng) for _ in range(2500 if quick else 12000)])
    run_searches(r, "dtypes", [dtype_case(r.rng) for _ in range(3000 if quick else 12000)])
    if not r.failures:
        run_histories(r, 800 if quick else 8000, stop_after=3)
    if not r.failures:
        # nothing small fails: look for a route that is only slightly too long (needs near-tie alternatives, i.e.
        # long rasters); stops as soon as three failing inputs are known
        run_walls(r, 800 if quick else 3000, WALL_SIZES_QUICK if quick else WALL_SIZES_QUICK + WALL_SIZES_BIG, stop_after=3)


def replay(r, body):
    c = body["case"]
    if "prog" not in c and isinstance(c.get("case"), dict) and "prog" in c["case"]:
        c = c["case"]
    txt = replay_case(r, c)
    if txt:
        print("still fails:", txt)
        return 1
    print("does not fail on the current tree")
    return 0
