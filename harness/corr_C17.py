"""
C17 -- local operators are per-cell functions of the layers, NaN-absorbing.

Tie:  H  hand model `lean/XrsVerif/Model/Local.lean` (row-major zip of the layers, per-cell functions,
         the combine dictionary) run by the Lean driver on the same datasets as the real
         `xrspatial.local` functions; outputs compared exactly (mean / std within 1e-9).
Oracle (independent of the model, written from the property statement): per cell, from the tuple of
layer values at that cell in *index* order: the statistic, the three frequencies and their sum, the
1-based first minimum / maximum, the ref-th smallest value, NaN iff a data layer is NaN; for combine:
same id iff same tuple, ids 1,2,.. in row-major first-occurrence order, attrs['key'] the inverse map.
A metamorphic oracle permutes the cells of every layer and requires the output to be permuted alike.

Generators: 2..6 data layers (+ unused variables), shapes 1x1 .. 5x6 non-square, ints / floats / float32,
ties, NaN, every data_vars form (None, subsets, orders), every ref_var choice, integer reference layers
in 1..n (also 0, n+1, negative), memory layouts C / F / strided / F-strided / negative strides / mixed.
Edge stream (`gen_edge`, value families of harness/edge_values.py): every layer dtype (float32/64, int8..uint64),
per cell one of: a *cluster* (a base value and its neighbours in each layer's dtype: nextafter in float32 / float64,
relative 1e-5..1e-9, absolute 1e-8..1e-12, +-1 on integers up to 2^53 -- different numbers that a tolerance would
merge, next to exact ties across dtypes), +-inf in every combination across the layers, 0.0 / -0.0 / subnormal,
huge magnitudes and the dtype limits, plain small ties; the reference of the frequency operators is the base or one
of its neighbours in any dtype.  The oracle compares exact numbers (Fractions, +-inf); never a tolerance for
equality / order (sum / mean / std / averaged median are compared within 1e-9 only where float64 evaluation of the
statistic is well conditioned, and skipped where +inf and -inf meet).
Argument objects (`names` of a case): every name-valued parameter (`ref_var`, the elements of `data_vars`, `func`)
and the Dataset keys themselves are built at call time in a recorded way -- an interned literal, an equal string that
is another object (`"".join(..)`, `str(np.str_(..))`), an `np.str_`, the very key object out of `list(ds.data_vars)`;
`data_vars` as a list / a tuple (the code may refuse a tuple with TypeError, it may not compute something else),
with repeated names, left at None; `func` left at its default.  Whatever the spelling, the result must satisfy the
per-cell oracle for the layers *named* (by value), and be identical to the call that names the same layers with
the Dataset's own key objects in an explicit list (`canonical`).
Dtype placement: a share of the cases puts an integer layer first among the selected layers and a NaN into a later
float layer (a result buffer typed after the first layer cannot hold the NaN).
Platform equality: `ref_list` holds NumPy scalars, the tuples hold Python scalars; under NumPy's promotion rules a
float32 reference is compared in float32 (the Python scalar is rounded to float32 first).  For a float32 reference
layer the frequency oracle therefore uses that promoted comparison; all other dtype pairs compare exactly for
|values| <= 2^53, which the generators respect.
"""
import itertools
import math
import sys
from fractions import Fraction

import numpy as np
import xarray as xr

import edge_values as ev
from common import Driver, close, tok, untok

PROP = "C17"

STATS = ["max", "mean", "median", "min", "std", "sum"]
OPS_PLAIN = ["cell_stats", "lowest_position", "highest_position", "combine"]
OPS_FREQ = ["lesser_frequency", "equal_frequency", "greater_frequency"]
OPS_IREF = ["rank", "popularity"]
ALL_OPS = OPS_PLAIN + OPS_FREQ + OPS_IREF
LAYOUTS = ["C", "F", "strided", "stridedF", "neg"]
KEY_D11 = "D11:nditer-memory-order"


# ---------------------------------------------------------------- datasets
lay = ev.layout
INF = math.inf


def exq(v):
    """a stored scalar as an exact number: Fraction, +-inf (float), None for NaN"""
    e = ev.exact(v)
    return None if e == "nan" else INF if e == "inf" else -INF if e == "-inf" else e


NAME_FORMS = ["same", "intern", "fresh", "npstr", "strnp"]


def mkname(name, form, ds=None):
    """the argument object that names variable `name`.  `same`: the very key object of the Dataset (what
    `list(ds.data_vars)` hands out); `intern`: the interned string (what a literal in the caller's source is);
    `fresh` / `strnp`: an equal string that is another object (built at run time, read from a file ..);
    `npstr`: a NumPy string scalar (a `str` subclass); `asis` (cases recorded before the forms existed): the
    object of the case itself"""
    if form == "same":
        return next((k for k in ds.data_vars if k == name), name) if ds is not None else name
    if form == "intern":
        return sys.intern(str(name))
    if form == "fresh":
        return "".join(list(str(name)))
    if form == "npstr":
        return np.str_(name)
    if form == "strnp":
        return str(np.str_(name))
    return name


def build(case):
    """case json -> (Dataset, {name: exact row-major list of Fraction | +-inf | None}); the arrays hold exactly the
    numbers named by the tokens (no detour through float64), the exact values are read back from the arrays"""
    dvars, exact = {}, {}
    kform = (case.get("names") or {}).get("keys", "asis")
    for v in case["vars"]:
        a = ev.array(v["values"], v["dtype"])
        dvars[mkname(v["name"], kform)] = (("y", "x"), lay(a, v["layout"]))
        exact[v["name"]] = [exq(x) for x in a.ravel(order="C")]
    return xr.Dataset(dvars), exact


def arguments(case, ds):
    """(positional ref_var or None, keyword arguments) as the objects the case's `names` describe"""
    nm = case.get("names") or {}
    kw = {}
    if case["data_vars"] is not None:
        forms = nm.get("dv") or ["asis"] * len(case["data_vars"])
        dv = [mkname(n, f, ds) for n, f in zip(case["data_vars"], forms)]
        kw["data_vars"] = tuple(dv) if nm.get("dvc") == "tuple" else dv
    if case["op"] == "cell_stats" and nm.get("func") != "default":
        kw["func"] = mkname(case["func"], nm.get("func", "asis"))
    ref = mkname(case["ref_var"], nm.get("ref", "asis"), ds) if case["op"] in OPS_FREQ + OPS_IREF else None
    return ref, kw


def call(case, ds=None):
    """run the real function: ('ok', values[, key]) or (ExceptionName, message)"""
    from xrspatial import local
    if ds is None:
        ds, _ = build(case)
    fn = getattr(local, case["op"])
    ref, kw = arguments(case, ds)
    try:
        if case["op"] in OPS_FREQ + OPS_IREF:
            out = fn(ds, ref, **kw)
        else:
            out = fn(ds, **kw)
    except (IndexError, ValueError, TypeError) as ex:
        return type(ex).__name__, str(ex)[:200], None
    key = None
    if case["op"] == "combine":
        key = {int(k): tuple(v) for k, v in out.attrs["key"].items()}
        extra = set(out.attrs) - {"key"}
        if extra:
            key["__extra__"] = sorted(extra)
    return "ok", np.asarray(out.values), key


def tuple_refused(case, status):
    """`data_vars` is documented as a list: refusing a tuple with TypeError is inside the contract"""
    return status == "TypeError" and (case.get("names") or {}).get("dvc") == "tuple"


def canonical(case):
    """the same request in the canonical spelling: the Dataset's own key objects, an explicit list of the layers
    the case names (the explicit equivalent of `data_vars=None`), `func` given"""
    nm = dict(case.get("names") or {})
    layers = resolve(case)
    nm.update(ref="same", dv=["same"] * len(layers), dvc="list", func="intern")
    return dict(case, data_vars=layers, names=nm)


def is_canonical(case):
    nm = case.get("names") or {}
    return case["data_vars"] is not None and nm.get("dvc", "list") == "list" and nm.get("ref", "same") == "same" \
        and all(f == "same" for f in nm.get("dv") or []) and nm.get("func", "intern") == "intern"


def spelling(case, ds, status, out, key):
    """None, or how the result differs from the call in the canonical spelling (same layers, same values)"""
    if tuple_refused(case, status):
        return None
    st2, out2, key2 = call(canonical(case), ds)
    what = f"{case['op']}: names {case.get('names')} data_vars={case['data_vars']}"
    if status != st2:
        return ("names", f"{what}: {status} ({out if status != 'ok' else ''}), with the Dataset's own key objects in an "
                         f"explicit list: {st2} ({out2 if st2 != 'ok' else ''})")
    if status != "ok":
        return None
    if out.shape != out2.shape or out.dtype != out2.dtype or not np.array_equal(out, out2, equal_nan=True):
        return ("names", f"{what}: result {out.tolist()} ({out.dtype}); with the Dataset's own key objects in an explicit "
                         f"list of the same layers: {out2.tolist()} ({out2.dtype})")
    if repr(key) != repr(key2):
        return ("names", f"{what}: key {key}; in the canonical spelling: {key2}")
    return None


def resolve(case):
    """the layers the call works on, in order (what the property calls 'the data layers')"""
    names = [v["name"] for v in case["vars"]]
    if case["data_vars"] is not None:
        return list(case["data_vars"])
    return [n for n in names if n != case.get("ref_var")]


# ---------------------------------------------------------------- oracle
def fr(x):
    return None if x is None else Fraction(x)


def to_float(q):
    try:
        return float(q)
    except OverflowError:
        return INF if q > 0 else -INF


def well_conditioned(tup, result):
    """is the float64 evaluation of a sum-like statistic of `tup` within the comparison tolerance of the exact
    `result`?  (n * 4 ulp of the largest operand against rel 1e-9 / abs 1e-12 -- decided from the exact
    numbers, so the verdict never depends on the run)"""
    m = max(abs(t) for t in tup)
    if m > Fraction(10) ** 100:
        return False
    return len(tup) * 4 * Fraction(1, 2 ** 52) * m * 4 <= Fraction(1, 10 ** 9) * abs(result) + Fraction(1, 10 ** 12)


def seen_by(ref_dtype, t):
    """the layer value as the comparison with the reference scalar sees it: NumPy converts the Python scalar to
    float32 when the reference is a float32 (NEP 50); every other pair compares exactly for |values| <= 2^53"""
    if ref_dtype == "float32" and t is not None:
        with np.errstate(all="ignore"):
            return exq(np.float32(to_float(t) if not isinstance(t, float) else t))
    return t


def expect_cell(case, tup, ref, ref_dtype=None):
    """expected value at one cell from the property statement.
    returns ('nan',) | ('exact', Fraction | +-inf) | ('val', Fraction | +-inf) | ('std', variance) | ('skip',)
    ('exact': compared with ==; 'val' / 'std': a float64 evaluation, compared within 1e-9 where well conditioned)"""
    op = case["op"]
    if any(t is None for t in tup):
        return ("nan",)
    n = len(tup)
    if op == "cell_stats":
        f = case["func"]
        if f == "max":
            return ("exact", max(tup))
        if f == "min":
            return ("exact", min(tup))
        infs = {t for t in tup if isinstance(t, float)}
        if f == "median":
            s_ = sorted(tup)
            mids = [s_[n // 2]] if n % 2 else [s_[n // 2 - 1], s_[n // 2]]
            if len(mids) == 1:
                return ("exact", mids[0])
            if any(isinstance(t, float) for t in mids):
                return ("skip",) if mids[0] != mids[1] else ("exact", mids[0])
            med = (mids[0] + mids[1]) / 2
            return ("val", med) if well_conditioned(mids, med) else ("skip",)
        if infs:
            if len(infs) == 2 or f == "std":
                return ("skip",)         # inf - inf: the statistic is not a number
            return ("val", infs.pop())
        if f == "sum":
            return ("val", sum(tup)) if well_conditioned(tup, sum(tup)) else ("skip",)
        m = sum(tup) / n
        if f == "mean":
            return ("val", m) if well_conditioned(tup, m) else ("skip",)
        var = sum((t - m) ** 2 for t in tup) / n
        sd = Fraction(math.isqrt(int(var * 10 ** 40))) / 10 ** 20 if var < 10 ** 150 else var
        return ("std", var) if well_conditioned(tup, sd) else ("skip",)
    if op == "lowest_position":
        return ("exact", Fraction(min(i for i in range(n) if tup[i] == min(tup)) + 1))
    if op == "highest_position":
        return ("exact", Fraction(min(i for i in range(n) if tup[i] == max(tup)) + 1))
    if op in OPS_FREQ:
        if ref is None:
            return ("skip",)             # reference layers are integer valued in the property
        tup = [seen_by(ref_dtype, t) for t in tup]
        cnt = {"lesser_frequency": sum(1 for t in tup if t < ref),
               "equal_frequency": sum(1 for t in tup if t == ref),
               "greater_frequency": sum(1 for t in tup if t > ref)}[op]
        return ("exact", Fraction(cnt))
    if op == "rank":
        if ref is None or isinstance(ref, float) or ref.denominator != 1 or not (1 <= ref <= n):
            return ("skip",)             # the property speaks of references in 1..n
        return ("exact", sorted(tup)[int(ref) - 1])
    return ("skip",)                     # popularity: only per-cell-ness and NaN absorption


def oracle(case, status, out, key, exact):
    """None, or (kind, text) describing how the property fails on the real output"""
    layers = resolve(case)
    h, w = case["shape"]
    n = h * w
    op = case["op"]
    ref = exact.get(case.get("ref_var")) if op in OPS_FREQ + OPS_IREF else None
    ref_dtype = next((v["dtype"] for v in case["vars"] if v["name"] == case.get("ref_var")), None)
    if status != "ok":
        if status == "IndexError" and op in OPS_IREF and any(r is not None and r < 1 for r in ref):
            return None                  # a reference <= 0 is outside the property's domain
        if tuple_refused(case, status):
            return None
        return ("raise", f"{op}: raised {status}: {out}")
    if out.shape != (h, w):
        return ("shape", f"{op}: output shape {out.shape} for layers of shape {(h, w)}")
    flat = [float(v) for v in out.ravel(order="C")]
    tuples = [tuple(exact[nm][i] for nm in layers) for i in range(n)]
    if op == "combine":
        return oracle_combine(tuples, flat, key)
    for i in range(n):
        e = expect_cell(case, tuples[i], ref[i] if ref is not None else None, ref_dtype)
        g = flat[i]
        where = f"{op}{'/' + case['func'] if op == 'cell_stats' else ''}: cell {divmod(i, w)} layers={show(tuples[i])}" \
                + (f" ref={ref[i]}" if ref is not None else "")
        if e[0] == "nan":
            if g == g:
                return ("nan", f"{where}: a NaN data layer gave {g}")
        elif e[0] == "exact":             # a count, a position or one of the layer values: the very number
            if not g == to_float(e[1]):
                return ("value", f"{where}: got {g!r}, the property gives {e[1]}")
        elif e[0] == "val":
            if not close(g, to_float(e[1]), rel=1e-9, abs_=1e-12):
                return ("value", f"{where}: got {g}, the property gives {e[1]}")
        elif e[0] == "std":
            if not close(g, math.sqrt(to_float(e[1])), rel=1e-9, abs_=1e-12):
                return ("value", f"{where}: got {g}, the property gives sqrt({e[1]})")
    return None


def show(t):
    return "(" + ",".join("nan" if v is None else str(v) for v in t) + ")"


def oracle_combine(tuples, flat, key):
    first = {}
    for i, t in enumerate(tuples):
        g = flat[i]
        if any(v is None for v in t):
            if g == g:
                return ("nan", f"combine: cell {i} {show(t)} holds a NaN but got id {g}")
            continue
        if g != g:
            return ("nan", f"combine: cell {i} {show(t)} has no NaN but got NaN")
        if t not in first:
            first[t] = len(first) + 1
        if g != first[t]:
            return ("value", f"combine: cell {i} {show(t)} got id {g}, first-occurrence numbering gives {first[t]}")
    want = {v: k for k, v in first.items()}
    if "__extra__" in key:
        return ("key", f"combine: unexpected attrs {key['__extra__']}")
    if set(key) != set(want):
        return ("key", f"combine: key ids {sorted(key)} expected {sorted(want)}")
    if list(key) != sorted(key):
        return ("key", f"combine: key not in id order {list(key)}")
    for k in want:
        kt = tuple(exq(x) for x in key[k])
        if kt != want[k]:
            return ("key", f"combine: key[{k}]={key[k]} expected {show(want[k])}")
    return None


def classify(case, bad):
    """key of the finding class: the memory-order defect is recognised by the failure disappearing
    when every layer is made C-contiguous"""
    if bad[0] == "names":
        return f"{case['op']}:names"
    if any(v["layout"] != "C" for v in case["vars"]):
        c2 = dict(case, vars=[dict(v, layout="C") for v in case["vars"]])
        ds, exact = build(c2)
        st, out, key = call(c2, ds)
        if oracle(c2, st, out, key, exact) is None:
            return KEY_D11
    return f"{case['op']}:{bad[0]}"


def metamorphic(case, rng, status, out):
    """permute the cells of every layer alike: the output must be permuted alike (per-cell-ness).
    Run on C-contiguous copies so that it tests the per-cell function, not the iteration order."""
    if status != "ok":
        return None
    h, w = case["shape"]
    n = h * w
    base = dict(case, vars=[dict(v, layout="C") for v in case["vars"]])
    st0, out0, _ = call(base)
    if st0 != "ok":
        return None
    perm = list(range(n))
    rng.shuffle(perm)
    c2 = dict(base, vars=[])
    for v in base["vars"]:
        flat = [t for row in v["values"] for t in row]
        p = [flat[perm[i]] for i in range(n)]
        c2["vars"].append(dict(v, values=[p[i * w:(i + 1) * w] for i in range(h)]))
    st, out2, _ = call(c2)
    if st != "ok":
        return ("raise", f"{case['op']}: permuted cells raised {st}")
    a = [float(x) for x in out0.ravel()]
    b = [float(x) for x in out2.ravel()]
    if case["op"] == "combine":
        for i in range(n):
            for j in range(i + 1, n):
                same_a = a[perm[i]] == a[perm[j]]
                same_b = b[i] == b[j]
                if same_a != same_b or (a[perm[i]] != a[perm[i]]) != (b[i] != b[i]):
                    return ("per_cell", f"combine: partition changes under a permutation of the cells (cells {i},{j})")
        return None
    for i in range(n):
        x, y = a[perm[i]], b[i]
        if not ((x != x and y != y) or x == y):
            return ("per_cell", f"{case['op']}: cell {perm[i]} gives {x}, the same layer values at cell {i} give {y}")
    return None


# ---------------------------------------------------------------- model request
ARITH = ("sum", "mean", "std", "median")


def ref_dtype_of(case):
    return next((v["dtype"] for v in case["vars"] if v["name"] == case.get("ref_var")), None)


def request(case, exact):
    """(request line | None, decoding of stand-in values).  The model computes with exact rationals:
    * a float32 reference of a frequency operator: the layers are sent as the comparison sees them (`seen_by`);
    * +-inf: every operator except the sum-like statistics depends on the order / equality of the values only, so
      +inf / -inf are sent as a rational above / below every finite value of the request and decoded in the reply;
      the sum-like statistics of a dataset holding an infinity are not sent (oracle only)."""
    layers = resolve(case)
    op = case["op"]
    h, w = case["shape"]
    cols = [list(exact[nm]) for nm in layers]
    refs = list(exact[case["ref_var"]]) if op in OPS_FREQ + OPS_IREF else None
    if op in OPS_FREQ and ref_dtype_of(case) == "float32":
        cols = [[seen_by("float32", t) for t in col] for col in cols]
    allv = [t for col in cols for t in col] + (refs if op in OPS_FREQ else [])
    dec = {}
    if any(isinstance(t, float) for t in allv):
        if op == "cell_stats" and case["func"] in ARITH:
            return None, None
        fin = [t for t in allv if t is not None and not isinstance(t, float)]
        hi, lo = max(fin, default=Fraction(0)) + 1, min(fin, default=Fraction(0)) - 1
        dec = {hi: INF, lo: -INF}

        def emb(t):
            return hi if t == INF else lo if t == -INF else t
        cols = [[emb(t) for t in col] for col in cols]
        if op in OPS_FREQ:
            refs = [emb(t) for t in refs]
    parts = [f"local op={op} n={h * w} cols={w}"]
    if op == "cell_stats":
        parts.append(f"func={case['func']}")
    for k, col in enumerate(cols):
        parts.append(f"L{k}=" + ",".join("nan" if v is None else tok(v) for v in col))
    if refs is not None:
        parts.append("ref=" + ",".join("nan" if v is None else tok(v) for v in refs))
    return " ".join(parts), dec


def compare(case, status, out, key, reply, exact, dec):
    """None or a description of the model/real difference"""
    if reply.startswith("err:"):
        return None if status == reply[4:] else f"real {status} model {reply}"
    if reply.startswith("bad-"):
        return f"driver rejected the request: {reply}"
    if status != "ok":
        return f"real raised {status}, model {reply[:60]}"
    body, _, mkey = reply.partition("|")
    shape, _, vals = body.partition(":")
    mh, mw = (int(t) for t in shape.split("x"))
    if (mh, mw) != out.shape:
        return f"shape real {out.shape} model {(mh, mw)}"
    mv = vals.split(",")
    flat = [float(v) for v in out.ravel(order="C")]
    arith = case["op"] == "cell_stats" and case["func"] in ARITH
    std = arith and case["func"] == "std"
    layers = resolve(case)
    valued = case["op"] in ("cell_stats", "rank", "popularity")
    for i, (g, m) in enumerate(zip(flat, mv)):
        if m == "nan":
            me = float("nan")
        else:
            q = Fraction(m)
            me = dec.get(q, q) if valued else q          # counts / positions / ids are not layer values
        if arith and me == me:
            # a float64 evaluation against the exact value: only where it is well conditioned (see expect_cell)
            if expect_cell(case, tuple(exact[nm][i] for nm in layers), None)[0] not in ("val", "std", "exact"):
                continue
            me = math.sqrt(to_float(me)) if std else to_float(me)
            if not close(g, me, rel=1e-9, abs_=1e-12):
                return f"cell {i}: real {g} model {m}{' (variance)' if std else ''}"
        elif not ((g != g and me != me) or g == to_float(me)):
            return f"cell {i}: real {g!r} model {m}"
    if case["op"] == "combine":
        mk = {}
        for ent in (mkey.split(",") if mkey else []):
            k, _, t = ent.partition(":")
            mk[int(k)] = tuple(dec.get(Fraction(x), Fraction(x)) for x in t.split(";"))
        rk = {k: tuple(exq(x) for x in v) for k, v in key.items() if k != "__extra__"}
        if list(mk.items()) != list(rk.items()):
            return f"key real {rk} model {mk}"
    return None


# ---------------------------------------------------------------- generators
VALUE_KINDS = ["ties", "ints", "dyadic", "wide"]


def gen_values(rng, n, kind, dtype):
    if kind == "ties":
        pool = [0, 1, 1, 2]
    elif kind == "ints":
        pool = list(range(-3, 7))
    elif kind == "dyadic":
        pool = [k / 4 for k in range(-6, 14)]
    else:
        pool = list(range(-40, 200, 7))
    vals = [rng.choice(pool) for _ in range(n)]
    if dtype.startswith("int"):
        vals = [int(math.floor(v)) for v in vals]
    return vals


def gen_case(rng, op=None, force_layout=None, nlayers=None):
    op = op or rng.choice(ALL_OPS)
    h, w = rng.choice([(1, 1), (1, 4), (3, 1), (2, 2), (2, 3), (3, 2), (3, 4), (4, 3), (2, 5), (5, 6), (4, 4)])
    n = h * w
    k = nlayers or rng.randrange(2, 7)
    extra = rng.choice([0, 0, 1, 2])
    needs_ref = op in OPS_FREQ + OPS_IREF
    kind = rng.choice(VALUE_KINDS)
    mode = force_layout or rng.choice(["C", "C", "F", "F", "mixed", "strided", "stridedF", "neg"])
    names = [f"v{i}" for i in range(k + extra)]
    vars_ = []
    for nm in names:
        dtype = rng.choice(["float64", "float64", "float32", "int64", "int32"])
        vals = gen_values(rng, n, kind, dtype)
        toks = [tok(v) for v in vals]
        if dtype.startswith("float") and rng.random() < 0.45:
            for _ in range(rng.randrange(1, 3)):
                toks[rng.randrange(n)] = "nan"
        layout = rng.choice(LAYOUTS) if mode == "mixed" else mode
        vars_.append(dict(name=nm, dtype=dtype, layout=layout, values=[toks[i * w:(i + 1) * w] for i in range(h)]))
    ref_var = None
    if needs_ref:
        ref_var = "ref"
        if op in OPS_IREF or rng.random() < 0.7:
            dtype = rng.choice(["int64", "int32"])
            pool = list(range(1, k + 1)) * 4 + [0, k + 1, k + 2] + ([-1, -k, -k - 1] if rng.random() < 0.15 else [])
            toks = [tok(rng.choice(pool)) for _ in range(n)]
        else:
            dtype = "float64"
            toks = [tok(v) for v in gen_values(rng, n, kind, dtype)]
            if rng.random() < 0.3:
                toks[rng.randrange(n)] = "nan"
        layout = rng.choice(LAYOUTS) if mode == "mixed" else mode
        ref = dict(name="ref", dtype=dtype, layout=layout, values=[toks[i * w:(i + 1) * w] for i in range(h)])
        vars_.insert(rng.randrange(len(vars_) + 1), ref)       # anywhere in the dataset order
    data_names = [v["name"] for v in vars_ if v["name"] != "ref"]
    form = rng.choice(["none", "none", "subset", "subset", "all-shuffled", "dup"])
    data_vars = gen_data_vars(rng, form, data_names)
    case = dict(op=op, func=rng.choice(STATS + ["sum"]) if op == "cell_stats" else None, shape=[h, w], vars=vars_,
                data_vars=data_vars, ref_var=ref_var)
    case["names"] = gen_names(rng, case)
    placed = rng.random() < 0.12 and int_first(rng, case)
    nl = len(resolve(case))
    if needs_ref and op in OPS_IREF:           # keep most references inside 1..(number of data layers used)
        for row in next(v for v in vars_ if v["name"] == "ref")["values"]:
            for j, t in enumerate(row):
                if int(t) > nl and rng.random() < 0.7:
                    row[j] = tok(rng.randrange(1, nl + 1))
    return case, dict(kind=kind, mode=mode, form=form, placed=placed)


def gen_data_vars(rng, form, data_names):
    """the `data_vars` argument: None, every layer in another order, a subset in any order, a selection that names a
    layer twice"""
    if form == "none":
        return None
    if form == "all-shuffled":
        dv = data_names[:]
    elif form == "dup":
        dv = rng.sample(data_names, rng.randrange(1, len(data_names) + 1))
        dv += [rng.choice(dv) for _ in range(rng.randrange(1, 3))]
    else:
        dv = rng.sample(data_names, rng.randrange(2, len(data_names) + 1))
    rng.shuffle(dv)
    return dv


def gen_names(rng, case):
    """how the Dataset keys and every name-valued argument are built (see `mkname`)"""
    nm = dict(keys=rng.choice(["intern", "fresh", "fresh"]))
    if case["ref_var"] is not None:
        nm["ref"] = rng.choice(NAME_FORMS)
    if case["data_vars"] is not None:
        one = rng.choice(NAME_FORMS + ["mixed", "mixed"])
        nm["dv"] = [rng.choice(NAME_FORMS) if one == "mixed" else one for _ in case["data_vars"]]
        nm["dvc"] = "tuple" if rng.random() < 0.04 else "list"
    if case["op"] == "cell_stats":
        nm["func"] = rng.choice(["intern", "fresh", "npstr"] + (["default", "default"] if case["func"] == "sum" else []))
    return nm


def name_tags(case):
    nm = case.get("names") or {}
    tags = [f"names:keys={nm.get('keys', 'asis')}"]
    if case["ref_var"] is not None:
        ident = nm.get("ref") == "same" or (nm.get("ref") == "intern" and nm.get("keys") == "intern")
        tags += [f"names:ref={nm.get('ref', 'asis')}", "names:ref-object=" + ("the-key-itself" if ident else "equal-not-identical")]
    if case["data_vars"] is None:
        tags.append("names:data_vars=default")
    else:
        fs = set(nm.get("dv") or ["asis"])
        tags.append("names:data_vars=" + (fs.pop() if len(fs) == 1 else "mixed") + ("/tuple" if nm.get("dvc") == "tuple" else ""))
        if len(set(case["data_vars"])) < len(case["data_vars"]):
            tags.append("names:data_vars-repeats")
    if case["op"] == "cell_stats":
        tags.append(f"names:func={nm.get('func', 'asis')}")
    return tags


def int_first(rng, case):
    """dtype placement: make the first selected layer an integer layer and put a NaN into a later (float) selected layer"""
    layers = resolve(case)
    byname = {v["name"]: v for v in case["vars"]}
    later = [n for n in layers[1:] if n != layers[0]]
    if not later:
        return False
    first = byname[layers[0]]
    h, w = case["shape"]
    if not first["dtype"].startswith(("int", "uint")):
        first["dtype"] = rng.choice(["int64", "int32", "int16", "uint8"])
        lo = 0 if first["dtype"].startswith("uint") else -100
        fin = [untok(t) for row in first["values"] for t in row if t != "nan"] or [1]
        first["values"] = [[tok(max(lo, min(200, int(math.floor(rng.choice(fin) if t == "nan" else untok(t)))))) for t in row]
                           for row in first["values"]]
    fl = [n for n in later if byname[n]["dtype"].startswith("float")]
    if not fl:
        fl = [rng.choice(later)]
        byname[fl[0]]["dtype"] = rng.choice(["float64", "float32"])
    tgt = byname[rng.choice(fl)]
    for _ in range(rng.randrange(1, 3)):
        tgt["values"][rng.randrange(h)][rng.randrange(w)] = "nan"
    return True


# ---------------------------------------------------------------- edge values (harness/edge_values.py)
EDGE_FAMILIES = ["cluster", "cluster", "cluster", "infmix", "infmix", "zeros", "huge", "plain"]


def fit(x, dtype, rng):
    """x if the dtype holds it, else a value of the dtype next to it (rounded / clipped)"""
    v = ev.store(x, dtype)
    if v is not None:
        return v.item()
    lo, hi = ev.limits(dtype)
    if isinstance(x, float) and (x != x or math.isinf(x)):
        return rng.choice([lo, hi, 0]) if abs(hi) <= ev.EXACT_LIMIT else rng.choice([0, 1])
    if ev.is_float(dtype):
        with np.errstate(all="ignore"):
            y = np.dtype(dtype).type(x)
        return y.item() if math.isfinite(float(y)) else (hi if x > 0 else lo)
    y = max(lo, min(hi, int(math.floor(x))))
    return y if abs(y) <= ev.EXACT_LIMIT else rng.choice([0, 1])


def edge_cell(rng, family, dtypes, base_dtype):
    """the values of one cell across layers of the given dtypes (last entry = the reference when present)"""
    if family == "cluster":
        b = rng.choice(ev.anchors(base_dtype))
        out = []
        for dt in dtypes:
            c = fit(b, dt, rng)
            nb = ev.neighbours(c, dt)
            out.append(c if (rng.random() < 0.45 or not nb) else rng.choice(nb))
        return out
    if family == "infmix":
        fin = rng.choice([0, 1, -1, 5, 1e300, -1e300])
        return [rng.choice([math.inf, -math.inf, fit(fin, dt, rng)]) if ev.is_float(dt) else fit(rng.choice([0, 1, 5]), dt, rng)
                for dt in dtypes]
    if family == "zeros":
        return [rng.choice([0.0, -0.0, 0.0, -0.0] + ev.specials(dt)[4:7]) if ev.is_float(dt) else rng.choice([0, 0, 1])
                for dt in dtypes]
    if family == "huge":
        return [rng.choice([v for v in ev.specials(dt) if v == v and not (isinstance(v, float) and math.isinf(v))])
                for dt in dtypes]
    return [fit(rng.choice([0, 1, 1, 2, 3]), dt, rng) for dt in dtypes]


def gen_edge(rng, op=None, force_layout=None):
    """a dataset whose cells are drawn, cell by cell, from the edge-value families; the layers have any dtype"""
    op = op or rng.choice(ALL_OPS)
    h, w = rng.choice([(1, 1), (1, 4), (3, 1), (2, 2), (2, 3), (3, 2), (3, 4), (2, 5)])
    n = h * w
    k = rng.randrange(2, 7)
    extra = rng.choice([0, 0, 1])
    needs_ref = op in OPS_FREQ + OPS_IREF
    mode = force_layout or rng.choice(["C", "C", "F", "mixed", "strided", "stridedF", "neg"])
    wts = ["float64"] * 4 + ["float32"] * 3 + ev.INT_DTYPES
    names = [f"v{i}" for i in range(k + extra)]
    dtypes = [rng.choice(wts) for _ in names]
    ref_dtype = None
    if op in OPS_FREQ:
        ref_dtype = rng.choice(wts)
    elif op in OPS_IREF:
        ref_dtype = rng.choice(ev.INT_DTYPES)
    fam_main = rng.choice(EDGE_FAMILIES)
    cols = [[] for _ in names]
    refcol = []
    fams = set()
    for _ in range(n):
        fam = fam_main if rng.random() < 0.7 else rng.choice(EDGE_FAMILIES)
        fams.add(fam)
        dts = dtypes + ([ref_dtype] if op in OPS_FREQ else [])
        vals = edge_cell(rng, fam, dts, rng.choice(dts))
        for c, v in zip(cols, vals):
            c.append(v)
        if op in OPS_FREQ:
            refcol.append(vals[-1])
    for c, dt in zip(cols, dtypes):                       # a few NaNs
        if ev.is_float(dt) and rng.random() < 0.3:
            c[rng.randrange(n)] = math.nan

    def var(nm, dt, col):
        toks = [ev.vtok(ev.store(v, dt)) for v in col]
        layout = rng.choice(LAYOUTS) if mode == "mixed" else mode
        return dict(name=nm, dtype=dt, layout=layout, values=[toks[i * w:(i + 1) * w] for i in range(h)])
    vars_ = [var(nm, dt, col) for nm, dt, col in zip(names, dtypes, cols)]
    ref_var = None
    if needs_ref:
        ref_var = "ref"
        if op in OPS_IREF:
            lo = 1 if ref_dtype.startswith("uint") else 0        # `ref - 1` wraps for an unsigned 0 (outside the property)
            pool = list(range(1, k + 1)) * 4 + [lo, k + 1, k + 2]
            refcol = [rng.choice(pool) for _ in range(n)]
        elif ev.is_float(ref_dtype) and rng.random() < 0.2:
            refcol[rng.randrange(n)] = math.nan
        vars_.insert(rng.randrange(len(vars_) + 1), var("ref", ref_dtype, refcol))
    data_names = [v["name"] for v in vars_ if v["name"] != "ref"]
    form = rng.choice(["none", "none", "subset", "all-shuffled", "dup"])
    data_vars = gen_data_vars(rng, form, data_names)
    case = dict(op=op, func=rng.choice(STATS) if op == "cell_stats" else None, shape=[h, w], vars=vars_,
                data_vars=data_vars, ref_var=ref_var)
    case["names"] = gen_names(rng, case)
    nl = len(resolve(case))
    if op in OPS_IREF:
        for row in next(v for v in vars_ if v["name"] == "ref")["values"]:
            for j, t in enumerate(row):
                if int(t) > nl and rng.random() < 0.7:
                    row[j] = str(rng.randrange(1, nl + 1))
    return case, dict(kind="edge:" + fam_main, mode=mode, form=form)


def exhaustive_tuples(nl, op, func=None):
    """one raster whose cells are ALL tuples over {nan,0,1,2}^nl (x every reference 0..nl+1)"""
    vals = ["nan", "0", "1", "2"]
    tuples = list(itertools.product(vals, repeat=nl))
    refs = list(range(0, nl + 2)) if op in OPS_FREQ + OPS_IREF else [None]
    if op in OPS_IREF:
        refs = [r for r in refs if r >= 1] + [0]
    cells = [(t, r) for r in refs for t in tuples]
    w = len(tuples)
    h = len(refs)
    vars_ = []
    for li in range(nl):
        flat = [c[0][li] for c in cells]
        vars_.append(dict(name=f"v{li}", dtype="float64", layout="C", values=[flat[i * w:(i + 1) * w] for i in range(h)]))
    ref_var = None
    if refs != [None]:
        flat = [str(c[1]) for c in cells]
        vars_.append(dict(name="ref", dtype="int64", layout="C", values=[flat[i * w:(i + 1) * w] for i in range(h)]))
        ref_var = "ref"
    return dict(op=op, func=func, shape=[h, w], vars=vars_, data_vars=None, ref_var=ref_var)


def nontrivial(case, exact):
    layers = resolve(case)
    n = case["shape"][0] * case["shape"][1]
    tuples = [tuple(exact[nm][i] for nm in layers) for i in range(n)]
    clean = [t for t in tuples if None not in t]
    return len(clean) > 0 and any(len(set(t)) < len(t) for t in clean) or len(clean) > 1


# ---------------------------------------------------------------- the check
def check_one(r, case, reqs, pend, tags, rng=None, meta=False, spell=False):
    ds, exact = build(case)
    status, out, key = call(case, ds)
    bad = oracle(case, status, out, key, exact)
    if bad is None and spell and not is_canonical(case):
        bad = spelling(case, ds, status, out, key)
    if bad is None and meta and rng is not None:
        bad = metamorphic(case, rng, status, out)
    r.case(case, desc=brief(case), nontrivial=nontrivial(case, exact),
           tags=tags + name_tags(case) + [f"op:{case['op']}", f"status:{status}", f"layers:{len(resolve(case))}",
                                          f"shape:{case['shape'][0]}x{case['shape'][1]}"])
    if bad:
        r.fail(classify(case, bad), bad[1] + f" [layouts {sorted({v['layout'] for v in case['vars']})}]", case)
    if not tuple_refused(case, status):
        push(case, status, out, key, exact, reqs, pend)
    return bad


def push(case, status, out, key, exact, reqs, pend):
    req, dec = request(case, exact)
    if req is not None:
        reqs.append(req)
        pend.append((case, status, out, key, exact, dec))


def brief(case):
    return dict(op=case["op"], func=case["func"], shape=case["shape"], data_vars=case["data_vars"], ref_var=case["ref_var"],
                names=case.get("names"),
                vars=[dict(name=v["name"], dtype=v["dtype"], layout=v["layout"]) for v in case["vars"]])


def flush(r, reqs, pend):
    replies = Driver().ask(reqs)
    for (case, status, out, key, exact, dec), rep in zip(pend, replies):
        d = compare(case, status, out, key, rep, exact, dec)
        if d:
            r.disagree("local-vs-model", case, d, rep[:300])
    reqs.clear()
    pend.clear()


def declare(r):
    import common
    r.extra["repo_under_test"] = common.REPO
    r.assumptions[:] = [
        "model (Model/Local.lean) tied to xrspatial/local.py by the generated shapes of Gen/LocalFacts.lean (comparisons, NaN "
        "tests, nditer order, offsets, numbering; harness/facts_local.py) and by the correspondence run",
        "the model follows the code as repaired by fixes/D11-local-nditer-index-order.patch (index-order iteration)",
        "exact rational arithmetic: sum / mean / std (= sqrt of the exact variance) / averaged median compared within 1e-9 "
        "where float64 evaluation is well conditioned; every other output compared with ==; +-inf reaches the model as "
        "rationals beyond the finite values for the order-only operators, sum-like statistics with +-inf are oracle-only",
        "a float32 reference layer is compared in float32 by NumPy (the Python scalar is rounded first): the frequency "
        "oracle and the model request follow that promotion; other dtype pairs are exact for |v| <= 2^53 (generated range)",
        "same-shaped 2-D layers, at least two data layers (np.nditer over one array yields scalars and the code raises)",
        "rank / popularity: integer reference layers; references <= 0 follow Python's negative indexing (outside the property)",
    ]
    r.trusted[:] = ["numpy.nditer(order='C') / np.max/min/sum/mean/median/std on tuples", "xarray Dataset variable access"]


def run(r, n_override=None, bias=None):
    declare(r)
    n_rand = {"quick": 9000, "thorough": 200000}[r.tier] if n_override is None else n_override
    r.rule = ("per case: op in the 10 public operators (cell_stats x 6 statistics), 2..6 data layers + 0..2 unused "
              "variables, shape 1x1..5x6, dtypes f8/f4/i8/i4, values ties{0,1,2}/ints/dyadics/wide, NaN in 45% of "
              "float layers, data_vars None/subset/shuffled, ref anywhere in the dataset, integer refs in 1..n mostly, "
              "layouts C/F/strided/F-strided/negative-strides/mixed; data_vars also with repeated names / as a tuple; "
              "argument objects: Dataset keys interned or built at run time, ref_var / data_vars elements / func as the key "
              "object itself, an interned literal, an equal-but-not-identical string, np.str_ (result = per-cell oracle of the "
              "layers named by value, and identical to the canonical spelling: key objects, explicit list); func left at its "
              "default; 12%: first selected layer integer + NaN in a later float layer; plus rasters holding ALL tuples over "
              "{nan,0,1,2}^n; plus the edge stream: layers of every dtype f4/f8/i1..u8, per cell a near-tie cluster "
              "(nextafter f4/f8, rel 1e-5..1e-9, abs 1e-8..1e-12, +-1 on ints up to 2^53) / +-inf combinations / "
              "0.0,-0.0,subnormal / huge and dtype limits / plain ties, reference = base or neighbour in any dtype; "
              "non-trivial = distinct case with a tie inside a NaN-free tuple or >= 2 NaN-free cells")
    reqs, pend = [], []
    for body in r.corpus():
        case = body["case"]
        ds, exact = build(case)
        status, out, key = call(case, ds)
        bad = oracle(case, status, out, key, exact)
        r.case(case, nontrivial=True, tags=["corpus"])
        if bad:
            r.fail(classify(case, bad), bad[1] + " [corpus]", case)
        push(case, status, out, key, exact, reqs, pend)
    # exhaustive per-cell tables
    max_nl = {"quick": 3, "thorough": 5}[r.tier]
    for nl in range(2, max_nl + 1):
        for op in ALL_OPS:
            for func in (STATS if op == "cell_stats" else [None]):
                check_one(r, exhaustive_tuples(nl, op, func), reqs, pend, [f"exhaustive-tuples:{nl}"])
    r.exhaustive = f"every tuple over {{nan,0,1,2}}^n for n=2..{max_nl}, every operator/statistic, every reference 0..n+1"
    flush(r, reqs, pend)
    for k in range(n_rand):
        op = ALL_OPS[k % len(ALL_OPS)]
        case, info = gen_case(r.rng, op=op, force_layout=bias)
        check_one(r, case, reqs, pend, [f"kind:{info['kind']}", f"layout:{info['mode']}", f"data_vars:{info['form']}"]
                  + (["dtype-placement:int-first+later-nan"] if info["placed"] else []),
                  rng=r.rng, meta=(k % 5 == 0), spell=True)
        if len(reqs) >= 4000:
            flush(r, reqs, pend)
    n_edge = {"quick": 7000, "thorough": 80000}[r.tier] if n_override is None else n_override
    for k in range(n_edge):
        op = ALL_OPS[k % len(ALL_OPS)]
        case, info = gen_edge(r.rng, op=op, force_layout=bias)
        check_one(r, case, reqs, pend, ["edge", f"kind:{info['kind']}", f"layout:{info['mode']}", f"data_vars:{info['form']}"],
                  rng=r.rng, meta=(k % 7 == 0), spell=True)
        if len(reqs) >= 4000:
            flush(r, reqs, pend)
    flush(r, reqs, pend)


def search(r):
    """something broke: more cases, first with every layout forced in turn"""
    for mode in ["F", "neg", "stridedF", "strided", "C"]:
        run(r, n_override={"quick": 300, "thorough": 2000}[r.tier], bias=mode)
        if r.failures:
            return


def replay(r, body):
    case = body["case"]
    ds, exact = build(case)
    status, out, key = call(case, ds)
    bad = oracle(case, status, out, key, exact)
    if bad is None and not is_canonical(case):
        bad = spelling(case, ds, status, out, key)
    if bad is None:
        import random
        bad = metamorphic(case, random.Random(0), status, out)
    if bad:
        print("still fails:", bad[1])
        return 1
    print("does not fail on the current tree")
    return 0
